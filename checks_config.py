"""Per-property configuration of ./check: which facts are re-extracted, which Lean module holds the
property theorems, which correspondence families run, and the trusted base reported in the evidence."""

TB_COMMON = [
    "Lean 4.33.0 kernel (lake build; thorough tier re-checks the property module with leanchecker)",
    "fact extractor /verif/extract (pattern matchers over comment-stripped source; unrecognised form => committed defaults + correspondence only)",
    "correspondence harness /verif/harness (Rust, calls the real code in-process or over loopback) and the repe_model_* line-protocol drivers",
    "modelled, not verified: Rust std collections/allocator, 64-bit little-endian target",
]

PROPS = {
    "C01": dict(
        gens=["wire"], props_module="RepeVerif.Props.C01", namespace="Repe.C01", exes=["repe_model_wire"], leanchecker=True,
        runs=[
            dict(name="wire", bin="fam_wire", args=["wire"], exe="repe_model_wire", profile="dev"),
            dict(name="wire-release", bin="fam_wire", args=["wire"], exe="repe_model_wire", profile="release", thorough_only=True),
        ],
        trusted_base=TB_COMMON + ["Vec::resize/copy_within/copy_from_slice behave as fill/memmove/copy (std)"],
        assumptions=["header fields are within their Rust integer widths (Header.InRange) - true of every Rust value",
                     "48+|query|+|body| < 2^64 for the builder theorems"],
    ),
    "C02": dict(
        gens=["wire"], props_module="RepeVerif.Props.C02", namespace="Repe.C02", exes=["repe_model_wire"], leanchecker=True,
        death_is_violation=True,
        runs=[
            dict(name="parse", bin="fam_wire", args=["parse"], exe="repe_model_wire", profile="dev"),
            dict(name="parse-release", bin="fam_wire", args=["parse"], exe="repe_model_wire", profile="release", thorough_only=True),
        ],
        trusted_base=TB_COMMON + ["allocator: a request >= 2^62 bytes can never be satisfied; try_reserve_exact reports it as an error (std contract, exercised)",
                                   "requests in (16 MiB, 2^62) are outside the property's quantifier and are not generated"],
        assumptions=["64-bit usize", "stream = finite byte string then EOF (read_exact semantics); fragmentation does not matter to read_exact"],
    ),
}
