"""Collects config/C*.py fragments: PROPS[id] = CONFIG of that fragment. See CONTRIBUTING.md."""
import importlib.util, os, glob
_here = os.path.dirname(os.path.abspath(__file__))
PROPS = {}
for _p in sorted(glob.glob(os.path.join(_here, "config", "C[0-9]*.py"))):
    _spec = importlib.util.spec_from_file_location("verif_config_" + os.path.basename(_p)[:-3], _p)
    _m = importlib.util.module_from_spec(_spec)
    import sys
    sys.path.insert(0, os.path.join(_here, "config"))
    _spec.loader.exec_module(_m)
    PROPS[os.path.basename(_p)[:-3]] = _m.CONFIG
