//! Shared plumbing of the correspondence harness: one PRNG, hex, the output files every family
//! writes (`ops.txt`, `impl.txt`, `oracle.txt`, `stats.json`), argument parsing, panic capture.
//!
//! Conventions (see /verif/DESIGN.md §2): a family *generates* op lines (strings), then *executes*
//! op lines against the real code.  Replay = executing recorded op lines.  Observations are
//! canonical (error classes, sorted sets, no timestamps).

use std::collections::{BTreeMap, HashSet};
use std::fmt::Write as _;
use std::fs::File;
use std::io::{BufWriter, Write};
use std::path::{Path, PathBuf};

pub mod frames;
pub mod net;

// ---------------------------------------------------------------------------------------------
// PRNG: xorshift64*, every random choice of a run derives from one state.
// ---------------------------------------------------------------------------------------------
#[derive(Clone)]
pub struct Rng(pub u64);

impl Rng {
    pub fn new(seed: u64) -> Self {
        let mut r = Rng(seed ^ 0x9E37_79B9_7F4A_7C15);
        if r.0 == 0 {
            r.0 = 0x1234_5678_9ABC_DEF1;
        }
        for _ in 0..4 {
            r.next();
        }
        r
    }
    pub fn next(&mut self) -> u64 {
        let mut x = self.0;
        x ^= x >> 12;
        x ^= x << 25;
        x ^= x >> 27;
        self.0 = x;
        x.wrapping_mul(0x2545_F491_4F6C_DD1D)
    }
    /// uniform in 0..n (n > 0)
    pub fn below(&mut self, n: u64) -> u64 {
        self.next() % n
    }
    pub fn range(&mut self, lo: u64, hi_incl: u64) -> u64 {
        lo + self.below(hi_incl - lo + 1)
    }
    pub fn chance(&mut self, num: u64, den: u64) -> bool {
        self.below(den) < num
    }
    pub fn pick<'a, T>(&mut self, xs: &'a [T]) -> &'a T {
        &xs[self.below(xs.len() as u64) as usize]
    }
    pub fn bytes(&mut self, n: usize) -> Vec<u8> {
        (0..n).map(|_| self.next() as u8).collect()
    }
    pub fn shuffle<T>(&mut self, xs: &mut [T]) {
        for i in (1..xs.len()).rev() {
            let j = self.below(i as u64 + 1) as usize;
            xs.swap(i, j);
        }
    }
    /// Boundary-biased value of a `bits`-wide unsigned integer.
    pub fn boundary(&mut self, bits: u32) -> u64 {
        let max: u64 = if bits == 64 { u64::MAX } else { (1u64 << bits) - 1 };
        match self.below(8) {
            0 => 0,
            1 => 1,
            2 => max,
            3 => max - self.below(4),
            4 => {
                let k = self.below(bits as u64) as u32;
                (1u64 << k) & max
            }
            5 => {
                let k = self.below(bits as u64) as u32;
                ((1u64 << k).wrapping_sub(1)) & max
            }
            6 => {
                let k = self.below(bits as u64) as u32;
                ((1u64 << k).wrapping_add(1)) & max
            }
            _ => self.next() & max,
        }
    }
}

// ---------------------------------------------------------------------------------------------
// hex ("-" is the empty byte string, as in the Lean drivers)
// ---------------------------------------------------------------------------------------------
pub fn hex(bs: &[u8]) -> String {
    if bs.is_empty() {
        return "-".to_string();
    }
    let mut s = String::with_capacity(bs.len() * 2);
    for b in bs {
        let _ = write!(s, "{:02x}", b);
    }
    s
}

pub fn unhex(s: &str) -> Option<Vec<u8>> {
    if s == "-" {
        return Some(Vec::new());
    }
    if s.len() % 2 != 0 {
        return None;
    }
    let b = s.as_bytes();
    let v = |c: u8| -> Option<u8> {
        match c {
            b'0'..=b'9' => Some(c - b'0'),
            b'a'..=b'f' => Some(c - b'a' + 10),
            b'A'..=b'F' => Some(c - b'A' + 10),
            _ => None,
        }
    };
    let mut out = Vec::with_capacity(b.len() / 2);
    for i in (0..b.len()).step_by(2) {
        out.push(v(b[i])? * 16 + v(b[i + 1])?);
    }
    Some(out)
}

pub fn fnv(s: &[u8]) -> u64 {
    let mut h: u64 = 0xcbf29ce484222325;
    for b in s {
        h ^= *b as u64;
        h = h.wrapping_mul(0x100000001b3);
    }
    h
}

// ---------------------------------------------------------------------------------------------
// arguments
// ---------------------------------------------------------------------------------------------
#[derive(Clone, Debug)]
pub struct Args {
    pub tier: String,
    pub seed: u64,
    pub out: PathBuf,
    pub replay: Option<PathBuf>,
    pub extra: Vec<String>,
}

impl Args {
    pub fn parse() -> Args {
        let mut a = Args { tier: "quick".into(), seed: 1, out: PathBuf::from("."), replay: None, extra: vec![] };
        let mut it = std::env::args().skip(1);
        while let Some(x) = it.next() {
            match x.as_str() {
                "--tier" => a.tier = it.next().expect("--tier value"),
                "--seed" => a.seed = it.next().expect("--seed value").parse().expect("seed int"),
                "--out" => a.out = PathBuf::from(it.next().expect("--out value")),
                "--replay" => a.replay = Some(PathBuf::from(it.next().expect("--replay value"))),
                _ => a.extra.push(x),
            }
        }
        std::fs::create_dir_all(&a.out).expect("create out dir");
        a
    }
    pub fn thorough(&self) -> bool {
        self.tier == "thorough"
    }
    pub fn has(&self, flag: &str) -> bool {
        self.extra.iter().any(|x| x == flag)
    }
    /// Op lines of a replay file: either a JSON object with an `ops` array of strings, or plain text.
    pub fn replay_ops(&self) -> Option<Vec<String>> {
        let p = self.replay.as_ref()?;
        let text = std::fs::read_to_string(p).expect("read replay file");
        if let Ok(v) = serde_json::from_str::<serde_json::Value>(&text) {
            if let Some(arr) = v.get("ops").and_then(|o| o.as_array()) {
                return Some(arr.iter().filter_map(|x| x.as_str().map(|s| s.to_string())).collect());
            }
        }
        Some(text.lines().map(|s| s.to_string()).filter(|s| !s.trim().is_empty()).collect())
    }
}

// ---------------------------------------------------------------------------------------------
// output files
// ---------------------------------------------------------------------------------------------
pub struct Out {
    pub dir: PathBuf,
    ops: BufWriter<File>,
    imp: BufWriter<File>,
    oracle: BufWriter<File>,
    pub evaluations: u64,
    distinct: HashSet<u64>,
    pub nontrivial_distinct: u64,
    pub oracle_failures: u64,
    pub counters: BTreeMap<String, u64>,
    pub samples: Vec<serde_json::Value>,
    pub rule: String,
    pub extra: BTreeMap<String, serde_json::Value>,
    /// flush impl.txt after every line (families whose cases may abort the process)
    pub flush_each: bool,
}

impl Out {
    pub fn new(dir: &Path) -> Out {
        let f = |n: &str| BufWriter::new(File::create(dir.join(n)).expect("create output file"));
        Out {
            dir: dir.to_path_buf(),
            ops: f("ops.txt"),
            imp: f("impl.txt"),
            oracle: f("oracle.txt"),
            evaluations: 0,
            distinct: HashSet::new(),
            nontrivial_distinct: 0,
            oracle_failures: 0,
            counters: BTreeMap::new(),
            samples: Vec::new(),
            rule: String::new(),
            extra: BTreeMap::new(),
            flush_each: false,
        }
    }
    /// Record one executed case: the op line, the implementation's observation line, and whether the
    /// case is non-trivial by the family's rule.
    pub fn case(&mut self, op: &str, obs: &str, nontrivial: bool) {
        writeln!(self.ops, "{}", op).unwrap();
        if self.flush_each {
            self.ops.flush().unwrap();
        }
        writeln!(self.imp, "{}", obs).unwrap();
        if self.flush_each {
            self.imp.flush().unwrap();
        }
        self.evaluations += 1;
        // distinctness: by the op line without its index token (second word)
        let key: Vec<&str> = op.split(' ').enumerate().filter(|(i, _)| *i != 1).map(|(_, w)| w).collect();
        let h = fnv(key.join(" ").as_bytes());
        if self.distinct.insert(h) && nontrivial {
            self.nontrivial_distinct += 1;
        }
        if self.samples.len() < 4 && nontrivial {
            let clip = |s: &str| if s.len() > 400 { format!("{}…({} chars)", &s[..400], s.len()) } else { s.to_string() };
            self.samples.push(serde_json::json!({"op": clip(op), "impl": clip(obs)}));
        }
    }
    /// An op line with no observation (configuration lines such as `mode checks`).
    pub fn config(&mut self, op: &str) {
        writeln!(self.ops, "{}", op).unwrap();
    }
    /// Write the op line *before* running the case, so a process abort is attributable.
    pub fn begin(&mut self, op: &str) {
        let _ = std::fs::write(self.dir.join("current_op.txt"), op);
    }
    pub fn count(&mut self, key: &str) {
        *self.counters.entry(key.to_string()).or_insert(0) += 1;
    }
    pub fn add(&mut self, key: &str, n: u64) {
        *self.counters.entry(key.to_string()).or_insert(0) += n;
    }
    /// A direct property-oracle failure on the implementation. `sig` is the stable signature matched
    /// against known_findings.json; `ops` are the op lines that reproduce it.
    pub fn oracle_fail(&mut self, sig: &str, detail: &str, ops: &[String]) {
        self.oracle_failures += 1;
        let v = serde_json::json!({"sig": sig, "detail": detail, "ops": ops});
        writeln!(self.oracle, "{}", v).unwrap();
        self.oracle.flush().unwrap();
    }
    pub fn finish(mut self) {
        self.ops.flush().unwrap();
        self.imp.flush().unwrap();
        self.oracle.flush().unwrap();
        let _ = std::fs::remove_file(self.dir.join("current_op.txt"));
        let stats = serde_json::json!({
            "evaluations": self.evaluations,
            "distinct_nontrivial": self.nontrivial_distinct,
            "distinct": self.distinct.len(),
            "oracle_failures": self.oracle_failures,
            "rule": self.rule,
            "distribution": self.counters,
            "samples": self.samples,
            "extra": self.extra,
        });
        std::fs::write(self.dir.join("stats.json"), serde_json::to_string_pretty(&stats).unwrap()).unwrap();
    }
}

// ---------------------------------------------------------------------------------------------
// panic capture
// ---------------------------------------------------------------------------------------------
pub fn quiet_panics() {
    std::panic::set_hook(Box::new(|_| {}));
}

/// Run `f`, mapping an unwinding panic to `Err(message)`.
pub fn catch<T>(f: impl FnOnce() -> T) -> Result<T, String> {
    match std::panic::catch_unwind(std::panic::AssertUnwindSafe(f)) {
        Ok(v) => Ok(v),
        Err(e) => {
            let msg = if let Some(s) = e.downcast_ref::<&str>() {
                s.to_string()
            } else if let Some(s) = e.downcast_ref::<String>() {
                s.clone()
            } else {
                "panic".to_string()
            };
            Err(msg)
        }
    }
}

/// Canonical class of a `RepeError` (never the message text).
pub fn err_class(e: &repe::RepeError) -> String {
    use repe::RepeError as E;
    match e {
        E::VersionMismatch(_) => "VersionMismatch".into(),
        E::InvalidSpec(_) => "InvalidSpec".into(),
        E::InvalidHeaderLength(_) => "InvalidHeaderLength".into(),
        E::LengthMismatch { .. } => "LengthMismatch".into(),
        E::BufferTooSmall { .. } => "BufferTooSmall".into(),
        E::ResponseIdMismatch { .. } => "ResponseIdMismatch".into(),
        E::Io(_) => "Io".into(),
        E::Json(_) => "Json".into(),
        E::Beve(_) => "Beve".into(),
        E::UnknownEnumValue(_) => "UnknownEnumValue".into(),
        E::UnexpectedBodyFormat { .. } => "UnexpectedBodyFormat".into(),
        E::ServerError { code, .. } => format!("Server({})", *code as u32),
        E::MessageTooLarge { .. } => "MessageTooLarge".into(),
        _ => "Other".into(),
    }
}

pub fn io_kind(e: &repe::RepeError) -> String {
    match e {
        repe::RepeError::Io(io) => format!("Io({:?})", io.kind()),
        other => err_class(other),
    }
}

pub fn words(line: &str) -> Vec<&str> {
    line.split_whitespace().collect()
}
