//! Socket helpers for the scripted-peer families (filled in by those families).
use std::io::Read;
use std::net::TcpStream;
use std::time::Duration;

/// Read until EOF, error or `max` bytes; returns what was read.
pub fn drain(stream: &mut TcpStream, max: usize, timeout: Duration) -> Vec<u8> {
    let _ = stream.set_read_timeout(Some(timeout));
    let mut out = Vec::new();
    let mut buf = [0u8; 65536];
    while out.len() < max {
        match stream.read(&mut buf) {
            Ok(0) => break,
            Ok(n) => out.extend_from_slice(&buf[..n]),
            Err(_) => break,
        }
    }
    out
}
