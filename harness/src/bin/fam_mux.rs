//! Families `mux` (C04) and `deadconn` (C06): the three multiplexing clients (`Client`, `AsyncClient`,
//! `WebSocketClient`) against a scripted fake server (raw TCP / raw WebSocket) that is driven command
//! by command from the main thread, so every step advances on an observable event.
//!
//! `fam_mux mux …`      concurrent calls on clones of one client, adversarial reply scripts, batch_json
//! `fam_mux deadconn …` connection faults with calls in flight, timeouts racing responses, cancellation
use futures_util::{SinkExt, StreamExt};
use repe::{AsyncClient, Client, Message, RepeError, WebSocketClient};
use repe_verif_harness::frames::RawFrame;
use repe_verif_harness::*;
use serde_json::{json, Value};
use std::os::fd::AsRawFd;
use std::sync::mpsc as smpsc;
use std::time::{Duration, Instant};
use tokio::io::{AsyncReadExt, AsyncWriteExt};
use tokio::sync::mpsc as tmpsc;
use tokio_tungstenite::tungstenite::Message as WsMsg;

const WATCHDOG: Duration = Duration::from_secs(15);
/// Once a hang was reported the remaining cases use a short watchdog for *call results and the
/// subscriber* (the report is already made; this only bounds the run time of a failing run).
static SAW_HANG: std::sync::atomic::AtomicBool = std::sync::atomic::AtomicBool::new(false);
fn call_watchdog() -> Duration {
    if SAW_HANG.load(std::sync::atomic::Ordering::Relaxed) { Duration::from_secs(2) } else { WATCHDOG }
}
static HANGS: std::sync::atomic::AtomicU64 = std::sync::atomic::AtomicU64::new(0);
fn saw_hang() {
    SAW_HANG.store(true, std::sync::atomic::Ordering::Relaxed);
    HANGS.fetch_add(1, std::sync::atomic::Ordering::Relaxed);
}
/// On a broken tree: after three calls that never returned, or twelve oracle failures, the failing inputs
/// are on record; running the remaining cases would only repeat them, each at the price of a watchdog.
fn stop_now(out: &Out) -> bool {
    out.oracle_failures >= 12 || HANGS.load(std::sync::atomic::Ordering::Relaxed) >= 3
}
const CALL_TIMEOUT: Duration = Duration::from_secs(9);
const KINDS: [&str; 3] = ["blocking", "async", "ws"];

// ---------------------------------------------------------------------------------------------
// scripted server
// ---------------------------------------------------------------------------------------------
enum Cmd {
    /// read `k` more whole request frames
    Read(usize),
    /// from now on read request frames whenever no command is being executed; each arrives as `Event::Req`
    AutoRead,
    /// read one more request frame if it arrives within the given time (reply: `Frames` with 0 or 1 frame)
    TryRead(Duration),
    /// read `k` request frames, answering each the moment it is read (tag = the caller's tag)
    Echo(usize),
    /// send each element as one frame (TCP: one write; WebSocket: one binary message)
    Send(Vec<Vec<u8>>),
    /// raw bytes on the TCP stream (WebSocket: beneath the WebSocket layer)
    SendRaw(Vec<u8>),
    /// raw bytes in several writes with a short pause between them (TCP)
    SendPieces(Vec<Vec<u8>>),
    SendText,
    SendWsClose,
    /// wait until at least `n` bytes sit unread in the socket's receive queue
    WaitUnread(usize),
    Sleep(Duration),
    Close,
    Reset,
}

enum Event {
    /// a request frame read by the server in `AutoRead` mode
    Req(RawFrame),
    Frames(Vec<RawFrame>),
    /// ids of the requests an `Echo` command answered
    Ids(Vec<u64>),
    Done,
    SrvErr(String),
    Res(usize, Result<Value, RepeError>),
    Fwd(Result<Option<Message>, RepeError>),
}

enum Conn {
    Tcp(tokio::net::TcpStream, Vec<u8>),
    Ws(Box<tokio_tungstenite::WebSocketStream<tokio::net::TcpStream>>),
}

impl Conn {
    fn raw(&mut self) -> &mut tokio::net::TcpStream {
        match self {
            Conn::Tcp(s, _) => s,
            Conn::Ws(w) => w.get_mut(),
        }
    }
    async fn read_frame(&mut self) -> Result<RawFrame, String> {
        match self {
            Conn::Tcp(s, buf) => loop {
                if let Some((f, n)) = RawFrame::parse_prefix(buf) {
                    buf.drain(..n);
                    return Ok(f);
                }
                let mut tmp = vec![0u8; 1 << 16];
                match s.read(&mut tmp).await {
                    Ok(0) => return Err("eof".into()),
                    Ok(n) => buf.extend_from_slice(&tmp[..n]),
                    Err(e) => return Err(format!("read:{:?}", e.kind())),
                }
            },
            Conn::Ws(w) => loop {
                match w.next().await {
                    None => return Err("eof".into()),
                    Some(Err(e)) => return Err(format!("ws:{e}")),
                    Some(Ok(WsMsg::Binary(b))) => match RawFrame::parse_prefix(&b) {
                        Some((f, n)) if n == b.len() => return Ok(f),
                        _ => return Err("malformed-request".into()),
                    },
                    Some(Ok(WsMsg::Close(_))) => return Err("ws-close".into()),
                    Some(Ok(_)) => {}
                }
            },
        }
    }
    async fn send_frame(&mut self, bytes: Vec<u8>) -> Result<(), String> {
        match self {
            Conn::Tcp(s, _) => s.write_all(&bytes).await.map_err(|e| format!("write:{:?}", e.kind())),
            Conn::Ws(w) => w.send(WsMsg::Binary(bytes)).await.map_err(|e| format!("ws-send:{e}")),
        }
    }
}

fn unread(fd: i32) -> usize {
    let mut n: libc::c_int = 0;
    // SAFETY-free call: FIONREAD writes one int
    let r = unsafe_ioctl(fd, &mut n);
    if r < 0 { 0 } else { n as usize }
}

#[allow(unsafe_code)]
fn unsafe_ioctl(fd: i32, n: &mut libc::c_int) -> i32 {
    unsafe { libc::ioctl(fd, libc::FIONREAD, n as *mut libc::c_int) }
}

async fn server_task(is_ws: bool, listener: tokio::net::TcpListener, mut cmds: tmpsc::UnboundedReceiver<Cmd>, ev: smpsc::Sender<Event>) {
    let (stream, _) = match listener.accept().await {
        Ok(x) => x,
        Err(e) => {
            let _ = ev.send(Event::SrvErr(format!("accept:{e}")));
            return;
        }
    };
    stream.set_nodelay(true).ok();
    let mut conn = if is_ws {
        match tokio_tungstenite::accept_async(stream).await {
            Ok(w) => Conn::Ws(Box::new(w)),
            Err(e) => {
                let _ = ev.send(Event::SrvErr(format!("ws-accept:{e}")));
                return;
            }
        }
    } else {
        Conn::Tcp(stream, Vec::new())
    };
    let mut auto = false;
    let mut read_dead = false;
    loop {
        let cmd = if auto && !read_dead {
            tokio::select! {
                biased;
                c = cmds.recv() => c,
                f = conn.read_frame() => {
                    match f {
                        Ok(f) => { let _ = ev.send(Event::Req(f)); }
                        Err(_) => read_dead = true,
                    }
                    continue;
                }
            }
        } else {
            cmds.recv().await
        };
        let Some(cmd) = cmd else { break };
        match cmd {
            Cmd::AutoRead => {
                auto = true;
                let _ = ev.send(Event::Done);
            }
            Cmd::Read(k) => {
                let mut out = Vec::new();
                let mut err = None;
                for _ in 0..k {
                    match conn.read_frame().await {
                        Ok(f) => out.push(f),
                        Err(e) => {
                            err = Some(e);
                            break;
                        }
                    }
                }
                let _ = match err {
                    Some(e) => ev.send(Event::SrvErr(e)),
                    None => ev.send(Event::Frames(out)),
                };
            }
            Cmd::TryRead(d) => {
                let _ = match tokio::time::timeout(d, conn.read_frame()).await {
                    Ok(Ok(f)) => ev.send(Event::Frames(vec![f])),
                    Ok(Err(e)) => ev.send(Event::SrvErr(e)),
                    Err(_) => ev.send(Event::Frames(Vec::new())),
                };
            }
            Cmd::Echo(k) => {
                let mut r = Ok(());
                let mut ids = Vec::new();
                let mut answered = 0usize;
                while answered < k {
                    r = match conn.read_frame().await {
                        Ok(f) if f.h.notify != 0 => {
                            // a notify sent by the client: never answered, but its id counts
                            ids.push(f.h.id);
                            Ok(())
                        }
                        Ok(f) => {
                            let c = caller_of(&f).map(|c| c as i64).unwrap_or(-1);
                            ids.push(f.h.id);
                            answered += 1;
                            conn.send_frame(response(f.h.id, false, c, c)).await
                        }
                        Err(e) => Err(e),
                    };
                    if r.is_err() {
                        break;
                    }
                }
                let _ = match r {
                    Ok(()) => ev.send(Event::Ids(ids)),
                    Err(e) => ev.send(Event::SrvErr(e)),
                };
            }
            Cmd::Send(frames) => {
                let mut r = Ok(());
                for f in frames {
                    r = conn.send_frame(f).await;
                    if r.is_err() {
                        break;
                    }
                }
                let _ = match r {
                    Ok(()) => ev.send(Event::Done),
                    Err(e) => ev.send(Event::SrvErr(e)),
                };
            }
            Cmd::SendRaw(bytes) => {
                let r = conn.raw().write_all(&bytes).await;
                let _ = conn.raw().flush().await;
                let _ = match r {
                    Ok(()) => ev.send(Event::Done),
                    Err(e) => ev.send(Event::SrvErr(format!("raw:{:?}", e.kind()))),
                };
            }
            Cmd::SendPieces(pieces) => {
                let mut r = Ok(());
                let last = pieces.len().saturating_sub(1);
                for (i, p) in pieces.into_iter().enumerate() {
                    r = conn.raw().write_all(&p).await;
                    let _ = conn.raw().flush().await;
                    if r.is_err() {
                        break;
                    }
                    if i != last && last <= 12 {
                        tokio::time::sleep(Duration::from_millis(3)).await;
                    }
                }
                let _ = match r {
                    Ok(()) => ev.send(Event::Done),
                    Err(e) => ev.send(Event::SrvErr(format!("pieces:{:?}", e.kind()))),
                };
            }
            Cmd::SendText => {
                let r = match &mut conn {
                    Conn::Ws(w) => w.send(WsMsg::Text("not binary".into())).await.map_err(|e| e.to_string()),
                    Conn::Tcp(..) => Err("text on tcp".into()),
                };
                let _ = match r {
                    Ok(()) => ev.send(Event::Done),
                    Err(e) => ev.send(Event::SrvErr(e)),
                };
            }
            Cmd::SendWsClose => {
                if let Conn::Ws(w) = &mut conn {
                    let _ = w.send(WsMsg::Close(None)).await;
                }
                let _ = ev.send(Event::Done);
            }
            Cmd::WaitUnread(n) => {
                let fd = conn.raw().as_raw_fd();
                let t0 = Instant::now();
                let mut ok = true;
                while unread(fd) < n {
                    if t0.elapsed() > WATCHDOG {
                        ok = false;
                        break;
                    }
                    tokio::time::sleep(Duration::from_millis(2)).await;
                }
                let _ = if ok { ev.send(Event::Done) } else { ev.send(Event::SrvErr("wait-unread".into())) };
            }
            Cmd::Sleep(d) => {
                tokio::time::sleep(d).await;
                let _ = ev.send(Event::Done);
            }
            Cmd::Close => {
                drop(conn);
                let _ = ev.send(Event::Done);
                return;
            }
            Cmd::Reset => {
                #[allow(deprecated)]
                let _ = conn.raw().set_linger(Some(Duration::ZERO));
                drop(conn);
                let _ = ev.send(Event::Done);
                return;
            }
        }
    }
}

// ---------------------------------------------------------------------------------------------
// clients
// ---------------------------------------------------------------------------------------------
// Which scripted caller is running on this thread / in this task (read by the probe callback).
thread_local! { static CALLER_THREAD: std::cell::Cell<Option<usize>> = const { std::cell::Cell::new(None) }; }
tokio::task_local! { static CALLER_TASK: usize; }
#[allow(dead_code)]
fn current_caller() -> Option<usize> {
    CALLER_TASK.try_with(|c| *c).ok().or_else(|| CALLER_THREAD.with(|c| c.get()))
}

#[derive(Clone)]
enum Cl {
    B(Client),
    A(AsyncClient),
    W(WebSocketClient),
}

struct Session {
    kind: usize,
    cl: Cl,
    cmd: tmpsc::UnboundedSender<Cmd>,
    ev_tx: smpsc::Sender<Event>,
    ev: smpsc::Receiver<Event>,
    /// results that arrived while waiting for something else
    stash: Vec<(usize, Result<Value, RepeError>)>,
    /// server replies that arrived while waiting for a call result
    srv_stash: std::collections::VecDeque<Event>,
    /// requests read by the server in `AutoRead` mode that nobody has asked for yet
    req_stash: Vec<RawFrame>,
    handles: Vec<(usize, tokio::task::JoinHandle<()>)>,
}

struct H {
    /// runtime of the clients under test (callers, the clients' reader tasks)
    rt: tokio::runtime::Runtime,
    /// runtime of the scripted server: separate, so that client tasks parked inside a probe
    /// callback can never keep the server from running
    srv_rt: tokio::runtime::Runtime,
}

impl H {
    fn open(&self, kind: usize) -> Result<Session, String> {
        let (cmd, cmd_rx) = tmpsc::unbounded_channel();
        let (ev_tx, ev) = smpsc::channel();
        let listener = self.srv_rt.block_on(tokio::net::TcpListener::bind("127.0.0.1:0")).map_err(|e| e.to_string())?;
        let addr = listener.local_addr().map_err(|e| e.to_string())?;
        self.srv_rt.spawn(server_task(kind == 2, listener, cmd_rx, ev_tx.clone()));
        let cl = match kind {
            0 => Cl::B(Client::connect(addr).map_err(|e| e.to_string())?),
            1 => Cl::A(self.rt.block_on(AsyncClient::connect(addr)).map_err(|e| e.to_string())?),
            _ => Cl::W(self.rt.block_on(WebSocketClient::connect(&format!("ws://{}/", addr))).map_err(|e| e.to_string())?),
        };
        Ok(Session { kind, cl, cmd, ev_tx, ev, stash: Vec::new(), srv_stash: Default::default(), req_stash: Vec::new(), handles: Vec::new() })
    }
}

impl Session {
    /// Start one call tagged `c`; its result arrives as `Event::Res(c, ..)`.
    fn call(&mut self, h: &H, c: usize, body: Value, timeout: Option<Duration>) {
        let tx = self.ev_tx.clone();
        match self.cl.clone() {
            Cl::B(cl) => {
                std::thread::spawn(move || {
                    CALLER_THREAD.with(|x| x.set(Some(c)));
                    let r = match timeout {
                        Some(t) => cl.call_json_with_timeout("/t", &body, t),
                        None => cl.call_json("/t", &body),
                    };
                    let _ = tx.send(Event::Res(c, r));
                });
            }
            Cl::A(cl) => {
                let jh = h.rt.spawn(CALLER_TASK.scope(c, async move {
                    let r = match timeout {
                        Some(t) => cl.call_json_with_timeout("/t", &body, t).await,
                        None => cl.call_json("/t", &body).await,
                    };
                    let _ = tx.send(Event::Res(c, r));
                }));
                self.handles.push((c, jh));
            }
            Cl::W(cl) => {
                let jh = h.rt.spawn(CALLER_TASK.scope(c, async move {
                    let r = match timeout {
                        Some(t) => cl.call_json_with_timeout("/t", &body, t).await,
                        None => cl.call_json("/t", &body).await,
                    };
                    let _ = tx.send(Event::Res(c, r));
                }));
                self.handles.push((c, jh));
            }
        }
    }
    /// Abort the task running call `c` and wait until it is gone.
    fn abort(&mut self, h: &H, c: usize) -> bool {
        if let Some(p) = self.handles.iter().position(|(x, _)| *x == c) {
            let (_, jh) = self.handles.remove(p);
            jh.abort();
            let r = h.rt.block_on(async { tokio::time::timeout(WATCHDOG, jh).await });
            matches!(r, Ok(Err(e)) if e.is_cancelled())
        } else {
            false
        }
    }
    fn send(&self, c: Cmd) {
        let _ = self.cmd.send(c);
    }
    /// Next server reply (Frames / Done / SrvErr); call results arriving meanwhile are stashed.
    fn srv(&mut self) -> Result<Event, String> {
        if let Some(e) = self.srv_stash.pop_front() {
            return match e {
                Event::SrvErr(e) => Err(e),
                e => Ok(e),
            };
        }
        let deadline = Instant::now() + WATCHDOG;
        loop {
            let left = deadline.saturating_duration_since(Instant::now());
            match self.ev.recv_timeout(left) {
                Ok(Event::Res(c, r)) => self.stash.push((c, r)),
                Ok(Event::SrvErr(e)) => return Err(e),
                Ok(e) => return Ok(e),
                Err(_) => return Err("server-watchdog".into()),
            }
        }
    }
    fn srv_done(&mut self) -> Result<(), String> {
        match self.srv()? {
            Event::Done => Ok(()),
            _ => Err("unexpected server reply".into()),
        }
    }
    fn read(&mut self, k: usize) -> Result<Vec<RawFrame>, String> {
        self.send(Cmd::Read(k));
        match self.srv()? {
            Event::Frames(f) => Ok(f),
            _ => Err("unexpected server reply".into()),
        }
    }
    /// Next call result, waiting at most `wd`.
    fn res(&mut self, wd: Duration) -> Option<(usize, Result<Value, RepeError>)> {
        if !self.stash.is_empty() {
            return Some(self.stash.remove(0));
        }
        let deadline = Instant::now() + wd;
        loop {
            let left = deadline.saturating_duration_since(Instant::now());
            match self.ev.recv_timeout(left) {
                Ok(Event::Res(c, r)) => return Some((c, r)),
                Ok(e) => self.srv_stash.push_back(e),
                Err(_) => return None,
            }
        }
    }
}

fn req_body(c: usize) -> Value {
    json!({ "c": 100 + c })
}
fn caller_of(f: &RawFrame) -> Option<usize> {
    if let Some(q) = std::str::from_utf8(&f.query).ok().and_then(|q| q.strip_prefix("/v/")) {
        return q.split('/').next()?.parse::<usize>().ok()?.checked_sub(100);
    }
    let v: Value = serde_json::from_slice(&f.body).ok()?;
    Some((v.get("c")?.as_u64()? as usize).checked_sub(100)?)
}
fn response(id: u64, notify: bool, tag: i64, c: i64) -> Vec<u8> {
    let body = serde_json::to_vec(&json!({ "tag": tag, "c": c })).unwrap();
    RawFrame::request(id, notify, 1, b"/t", 2, &body).to_vec()
}
/// Query bytes for a frame nobody is waiting for (variant `v % 4`): plain, 2-byte and 4-byte UTF-8
/// scalars straddling byte 64, and bytes that are not UTF-8 at all.
fn odd_query(v: usize) -> Vec<u8> {
    match v % 4 {
        0 => b"/t".to_vec(),
        1 => format!("/{}", "\u{e9}".repeat(40)).into_bytes(),
        2 => format!("/{}", "\u{1F600}".repeat(20)).into_bytes(),
        _ => vec![0xffu8; 80],
    }
}
fn response_q(id: u64, notify: bool, tag: i64, c: i64, qv: usize) -> Vec<u8> {
    let body = serde_json::to_vec(&json!({ "tag": tag, "c": c })).unwrap();
    RawFrame::request(id, notify, 1, &odd_query(qv), 2, &body).to_vec()
}
/// Body sizes of frames nobody waits for: around the clients' 4 KiB / 8 KiB buffers, and far beyond them.
const STRAY_SIZES: [usize; 10] = [0, 1, 4095, 4096, 4097, 8191, 8192, 8193, 40_000, 200_000];
fn stray_response(id: u64, k: usize) -> Vec<u8> {
    let body = vec![0xA5u8; STRAY_SIZES[k % STRAY_SIZES.len()]];
    RawFrame::request(id, false, 1, &odd_query(k), 0, &body).to_vec()
}
/// Cut `wire` (concatenated frames of the given lengths) into pieces at PRNG-chosen points: inside a
/// header, right after it, inside the query, inside the body. At most `max_cuts` cuts.
fn cut_points(lens: &[usize], seed: u64, max_cuts: usize) -> Vec<usize> {
    let mut r = Rng::new(seed);
    let mut cuts = Vec::new();
    let mut base = 0usize;
    for &len in lens {
        if cuts.len() < max_cuts && r.chance(1, 2) {
            let within = match r.below(4) {
                0 => 1 + r.below(47) as usize,
                1 => 48,
                2 => 48 + 1 + r.below(2) as usize,
                _ => if len > 52 { 52 + r.below((len - 52) as u64) as usize } else { len / 2 },
            };
            if within > 0 && within < len {
                cuts.push(base + within);
            }
        }
        base += len;
    }
    cuts
}
const ONE_BYTE: u64 = 1 << 40;
/// One WebSocket frame (server to client: unmasked). `first` = 0x82 whole binary message, 0x02 first
/// fragment, 0x00 middle fragment, 0x80 last fragment.
fn ws_frame(first: u8, payload: &[u8]) -> Vec<u8> {
    let mut v = vec![first];
    match payload.len() {
        n if n < 126 => v.push(n as u8),
        n if n < 65536 => { v.push(126); v.extend_from_slice(&(n as u16).to_be_bytes()); }
        n => { v.push(127); v.extend_from_slice(&(n as u64).to_be_bytes()); }
    }
    v.extend_from_slice(payload);
    v
}
/// A REPE message as a fragmented WebSocket message (2–3 fragments, cut points from the PRNG).
fn ws_fragmented(msg: &[u8], r: &mut Rng) -> Vec<u8> {
    if msg.len() < 3 {
        return ws_frame(0x82, msg);
    }
    let a = 1 + r.below(msg.len() as u64 - 2) as usize;
    let mut out = ws_frame(0x02, &msg[..a]);
    if r.chance(1, 2) && msg.len() - a >= 2 {
        let b = a + 1 + r.below((msg.len() - a - 1) as u64) as usize;
        out.extend(ws_frame(0x00, &msg[a..b]));
        out.extend(ws_frame(0x80, &msg[b..]));
    } else {
        out.extend(ws_frame(0x80, &msg[a..]));
    }
    out
}
/// An error response (ec != 0, UTF-8 message body).
fn error_response(id: u64, ec: u32) -> Vec<u8> {
    let mut f = RawFrame::request(id, false, 1, b"/t", 3, b"late failure of some other request");
    f.h.ec = ec;
    f.to_vec()
}
/// Every error code a peer can put into a response: the specified ones, application codes, unknown ones,
/// the extremes; every third with an error text that is not UTF-8, every fifth with an empty one.
fn swept_error_response(id: u64, k: usize) -> Vec<u8> {
    const CODES: [u32; 16] = [1, 2, 3, 4, 5, 6, 7, 8, 9, 10, 11, 255, 4096, 65_536, u32::MAX - 1, u32::MAX];
    let text: &[u8] = if k % 3 == 2 { &[0xff, 0xfe, 0x80, 0x80] } else if k % 5 == 4 { b"" } else { b"some failure" };
    let mut f = RawFrame::request(id, false, 1, b"/t", [3u16, 2, 0, 1][k % 4], text);
    f.h.ec = CODES[k % CODES.len()];
    f.to_vec()
}
fn tag_of(v: &Value) -> Option<i64> {
    v.get("tag")?.as_i64()
}
fn cls(e: &RepeError) -> String {
    match e {
        RepeError::Io(io) if io.kind() == std::io::ErrorKind::TimedOut => "Timeout".into(),
        _ => "Err".into(),
    }
}
/// wire size of one request with `req_body` (TCP) / plus the client-to-server WebSocket framing
fn req_wire_len(kind: usize) -> usize {
    let n = RawFrame::request(1, false, 1, b"/t", 2, &serde_json::to_vec(&req_body(0)).unwrap()).to_vec().len();
    if kind == 2 { n + 6 } else { n }
}


// ---------------------------------------------------------------------------------------------
// entry-point variants: every public call entry point of the three clients
// ---------------------------------------------------------------------------------------------
/// 0 call_json, 2 call_typed_json, 4 call_typed_beve, 6 call_typed_slice, 8 call_typed_slice_aligned,
/// 10 call_message, 12 call_with_formats, 14 registry_read, 16 registry_read_typed, 18 registry_write_json,
/// 19 registry_call_json; odd numbers below 18 are the `_with_timeout` twins.
const NVARIANTS: usize = 20;
fn variant_name(v: usize) -> &'static str {
    ["call_json", "call_json_with_timeout", "call_typed_json", "call_typed_json_with_timeout", "call_typed_beve", "call_typed_beve_with_timeout",
     "call_typed_slice", "call_typed_slice_with_timeout", "call_typed_slice_aligned", "call_typed_slice_aligned_with_timeout", "call_message",
     "call_message_with_timeout", "call_with_formats", "call_with_formats_and_timeout", "registry_read", "registry_read_with_timeout",
     "registry_read_typed", "registry_read_typed_with_timeout", "registry_write_json", "registry_call_json"][v % NVARIANTS]
}
/// The WebSocket client has no typed-slice calls.
fn variant_for(kind: usize, v: usize) -> usize {
    let v = v % NVARIANTS;
    if kind == 2 && (6..10).contains(&v) { v - 6 } else { v }
}
fn vpath(c: usize, v: usize) -> String {
    format!("/v/{}/{:02}", 100 + c, v)
}
fn variant_of(f: &RawFrame) -> usize {
    std::str::from_utf8(&f.query).ok().and_then(|q| q.strip_prefix("/v/")).and_then(|q| q.split('/').nth(1)).and_then(|x| x.parse().ok()).unwrap_or(0)
}
fn slice_to_value(v: Vec<i64>) -> Result<Value, RepeError> {
    Ok(json!({ "tag": v.first().copied().unwrap_or(-3), "c": v.get(1).copied().unwrap_or(-3) }))
}
fn msg_to_value(m: Message) -> Result<Value, RepeError> {
    serde_json::from_slice::<Value>(&m.body).map_err(RepeError::from)
}
/// Response frame whose body the entry point `v` can decode.
fn response_v(id: u64, notify: bool, tag: i64, c: i64, v: usize) -> Vec<u8> {
    let q = odd_query(tag.max(0) as usize);
    let q = q.as_slice();
    match v % NVARIANTS {
        4 | 5 => RawFrame::request(id, notify, 1, q, 1, &beve::to_vec(&json!({ "tag": tag, "c": c })).unwrap()).to_vec(),
        6..=9 => {
            let mut m = Message::builder().body_typed_slice(&[tag, c]).build();
            let body = std::mem::take(&mut m.body);
            RawFrame::request(id, notify, 1, q, m.header.body_format, &body).to_vec()
        }
        _ => response_q(id, notify, tag, c, tag.max(0) as usize),
    }
}

macro_rules! call_variant {
    ($cl:expr, $v:expr, $c:expr, $t:expr, slices: $sl:tt, [$($aw:tt)*]) => {{
        let path = vpath($c, $v);
        let path = path.as_str();
        let body = req_body($c);
        let raw = serde_json::to_vec(&body).unwrap();
        let t: Duration = $t;
        let r: Result<Value, RepeError> = match $v {
            0 => $cl.call_json(path, &body)$($aw)*,
            1 => $cl.call_json_with_timeout(path, &body, t)$($aw)*,
            2 => $cl.call_typed_json::<&str, Value, Value>(path, &body)$($aw)*,
            3 => $cl.call_typed_json_with_timeout::<&str, Value, Value>(path, &body, t)$($aw)*,
            4 => $cl.call_typed_beve::<&str, Value, Value>(path, &body)$($aw)*,
            5 => $cl.call_typed_beve_with_timeout::<&str, Value, Value>(path, &body, t)$($aw)*,
            6..=9 => call_variant!(@slice $sl, $cl, $v, path, $c, t, [$($aw)*]),
            10 => $cl.call_message(path)$($aw)*.and_then(msg_to_value),
            11 => $cl.call_message_with_timeout(path, t)$($aw)*.and_then(msg_to_value),
            12 => $cl.call_with_formats(path, 1, Some(&raw), 2)$($aw)*.and_then(msg_to_value),
            13 => $cl.call_with_formats_and_timeout(path, 1, Some(&raw), 2, t)$($aw)*.and_then(msg_to_value),
            14 => $cl.registry_read(path)$($aw)*,
            15 => $cl.registry_read_with_timeout(path, t)$($aw)*,
            16 => $cl.registry_read_typed::<&str, Value>(path)$($aw)*,
            17 => $cl.registry_read_typed_with_timeout::<&str, Value>(path, t)$($aw)*,
            18 => $cl.registry_write_json(path, &body)$($aw)*,
            _ => $cl.registry_call_json(path, &body)$($aw)*,
        };
        r
    }};
    (@slice yes, $cl:expr, $v:expr, $path:expr, $c:expr, $t:expr, [$($aw:tt)*]) => {{
        let b = [100 + $c as i64];
        match $v {
            6 => $cl.call_typed_slice::<&str, i64, i64>($path, &b)$($aw)*.and_then(slice_to_value),
            7 => $cl.call_typed_slice_with_timeout::<&str, i64, i64>($path, &b, $t)$($aw)*.and_then(slice_to_value),
            8 => $cl.call_typed_slice_aligned::<&str, i64, i64>($path, &b)$($aw)*.and_then(slice_to_value),
            _ => $cl.call_typed_slice_aligned_with_timeout::<&str, i64, i64>($path, &b, $t)$($aw)*.and_then(slice_to_value),
        }
    }};
    (@slice no, $cl:expr, $v:expr, $path:expr, $c:expr, $t:expr, [$($aw:tt)*]) => {{
        let _ = ($path, $t);
        Err(RepeError::Io(std::io::Error::other("no typed-slice calls on this client")))
    }};
}

impl Session {
    /// Start call `c` through entry point `v` (see `variant_name`). With `timeout` the `_with_timeout`
    /// twin is used with that duration; the twins chosen by an odd `v` get a generous one.
    fn call_v(&mut self, h: &H, c: usize, v: usize, timeout: Option<Duration>) {
        let mut v = variant_for(self.kind, v);
        if timeout.is_some() && v < 18 {
            v |= 1;
        }
        if timeout.is_some() && v >= 18 {
            v = 1;
        }
        let t = timeout.unwrap_or(CALL_TIMEOUT);
        let tx = self.ev_tx.clone();
        match self.cl.clone() {
            Cl::B(cl) => {
                std::thread::spawn(move || {
                    CALLER_THREAD.with(|x| x.set(Some(c)));
                    let r = call_variant!(cl, v, c, t, slices: yes, []);
                    let _ = tx.send(Event::Res(c, r));
                });
            }
            Cl::A(cl) => {
                let jh = h.rt.spawn(CALLER_TASK.scope(c, async move {
                    let r = call_variant!(cl, v, c, t, slices: yes, [.await]);
                    let _ = tx.send(Event::Res(c, r));
                }));
                self.handles.push((c, jh));
            }
            Cl::W(cl) => {
                let jh = h.rt.spawn(CALLER_TASK.scope(c, async move {
                    let r = call_variant!(cl, v, c, t, slices: no, [.await]);
                    let _ = tx.send(Event::Res(c, r));
                }));
                self.handles.push((c, jh));
            }
        }
    }
}


// ---------------------------------------------------------------------------------------------
// entry points, mechanically: what the source under test offers vs what this harness drives
// ---------------------------------------------------------------------------------------------
const DRIVEN: &[&str] = &[
    "call_json", "call_json_with_timeout", "call_typed_json", "call_typed_json_with_timeout", "call_typed_beve", "call_typed_beve_with_timeout",
    "call_typed_slice", "call_typed_slice_with_timeout", "call_typed_slice_aligned", "call_typed_slice_aligned_with_timeout", "call_message",
    "call_message_with_timeout", "call_with_formats", "call_with_formats_and_timeout", "registry_read", "registry_read_with_timeout",
    "registry_read_typed", "registry_read_typed_with_timeout", "registry_write_json", "registry_call_json",
    "notify_json", "notify_typed_json", "notify_typed_beve", "notify_with_formats", "batch_json", "batch_json_with_timeout",
    "forward_message", "forward_message_with_timeout", "subscribe_notifies", "unsubscribe_notifies", "limits", "set_write_timeout", "connect",
];
/// Not driven, because: `connect_with_limits` only configures the transport limits, which are C17's subject.
const NOT_DRIVEN_BECAUSE: &[&str] = &["connect_with_limits"];

fn source_entry_points(file: &str) -> Vec<String> {
    let repo = std::env::var("VERIF_REPO").unwrap_or_else(|_| "/repo".into());
    let text = std::fs::read_to_string(std::path::Path::new(&repo).join("src").join(file)).unwrap_or_default();
    let text = text.split("#[cfg(test)]").next().unwrap_or("").to_string();
    let mut names = Vec::new();
    for line in text.lines() {
        let t = line.trim_start();
        for pre in ["pub async fn ", "pub fn "] {
            if let Some(rest) = t.strip_prefix(pre) {
                let name: String = rest.chars().take_while(|c| c.is_alphanumeric() || *c == '_').collect();
                if !name.is_empty() && !names.contains(&name) {
                    names.push(name);
                }
            }
        }
    }
    names
}

/// Any public entry point of the three clients that this harness neither drives nor lists as deliberately
/// left out goes into the evidence (`not_driven`) and onto stderr: a new twin cannot stay unnoticed.
fn entry_point_audit(out: &mut Out) {
    let mut missing = Vec::new();
    let mut total = 0usize;
    for (kind, file) in [("blocking", "client.rs"), ("async", "async_client.rs"), ("ws", "websocket_client.rs")] {
        for name in source_entry_points(file) {
            total += 1;
            if !DRIVEN.contains(&name.as_str()) && !NOT_DRIVEN_BECAUSE.contains(&name.as_str()) {
                out.count(&format!("mux.NOT_DRIVEN.{}.{}", kind, name));
                eprintln!("fam_mux: public entry point {}::{} is not driven by this harness", kind, name);
                missing.push(format!("{}::{}", kind, name));
            }
        }
    }
    out.extra.insert("entry_points_in_source".into(), json!(total));
    out.extra.insert("not_driven".into(), json!(missing));
    out.extra.insert("not_driven_because".into(), json!({"connect_with_limits": "configures transport limits only (C17)"}));
}

// ---------------------------------------------------------------------------------------------
// family `mux`
// ---------------------------------------------------------------------------------------------
#[derive(Clone, Debug)]
struct MuxCase {
    kind: usize,
    n: usize,
    script: Vec<String>,
    /// entry point of each caller (empty = all `call_json`)
    vars: Vec<usize>,
    /// != 0: the peer writes the frames in pieces cut at points derived from this seed (TCP clients)
    frag: u64,
}

fn run_mux_case(h: &H, out: &mut Out, idx: &str, case: &MuxCase) {
    let kname = KINDS[case.kind];
    let script_s = if case.script.is_empty() { "-".to_string() } else { case.script.join(",") };
    let vars: Vec<usize> = (0..case.n).map(|c| variant_for(case.kind, case.vars.get(c).copied().unwrap_or(0))).collect();
    let vars_s = if vars.is_empty() { "-".to_string() } else { vars.iter().map(|x| x.to_string()).collect::<Vec<_>>().join(",") };
    let op_of = |ids: &str| format!("case {} {} {} {} {} {} {}", idx, case.kind, case.n, ids, script_s, vars_s, case.frag);
    out.begin(&op_of("?"));
    if stop_now(out) {
        return;
    }
    let fail = |out: &mut Out, sig: &str, detail: String, ids: &str| {
        out.oracle_fail(&format!("mux.{}.{}", kname, sig), &detail, &[op_of(ids)]);
    };
    let mut s = match h.open(case.kind) {
        Ok(s) => s,
        Err(e) => {
            out.count("mux.setup_failed");
            eprintln!("setup failed: {e}");
            return;
        }
    };
    let mut sub = match &s.cl {
        Cl::W(w) => w.subscribe_notifies().ok(),
        _ => None,
    };
    for c in 0..case.n {
        s.call_v(h, c, vars[c], None);
        out.count(&format!("mux.entry.{}", variant_name(vars[c])));
    }
    let frames = match s.read(case.n) {
        Ok(f) => f,
        Err(e) => {
            fail(out, "requests_missing", format!("server did not receive {} requests: {}", case.n, e), "?");
            return;
        }
    };
    let mut ids: Vec<Option<u64>> = vec![None; case.n];
    for f in &frames {
        match caller_of(f) {
            Some(c) if c < case.n && ids[c].is_none() => ids[c] = Some(f.h.id),
            _ => {
                fail(out, "request_garbled", format!("unexpected request body {:?}", String::from_utf8_lossy(&f.body)), "?");
                return;
            }
        }
    }
    let ids: Vec<u64> = ids.into_iter().map(|x| x.unwrap()).collect();
    let ids_s = if ids.is_empty() { "-".to_string() } else { ids.iter().map(|x| x.to_string()).collect::<Vec<_>>().join(",") };
    // oracle: ids pairwise distinct
    let mut sorted = ids.clone();
    sorted.sort();
    if sorted.windows(2).any(|w| w[0] == w[1]) {
        fail(out, "ids_not_distinct", format!("request ids seen by the server: {:?}", ids), &ids_s);
    }
    // frames of the script
    let unknown_base = ids.iter().max().copied().unwrap_or(0) + 1_000_000_000;
    let mut wire = Vec::new();
    let mut meta: Vec<(Option<usize>, bool)> = Vec::new(); // (caller whose id is used, notify)
    let mut badver: Vec<bool> = Vec::new();
    for (pos, t) in case.script.iter().enumerate() {
        let k: usize = t[1..].parse().unwrap();
        let (id, notify, who) = match &t[..1] {
            "r" | "v" => (ids[k], false, Some(k)),
            "n" => (ids[k], true, Some(k)),
            "u" | "e" | "b" => (unknown_base + k as u64, false, None),
            _ => (unknown_base + k as u64, true, None),
        };
        if &t[..1] == "e" {
            // unknown id *and* a non-zero error code (a late error answer to a call that gave up)
            wire.push(error_response(id, 7));
        } else if &t[..1] == "b" {
            // nobody waits for it and its payload does not fit the client's read buffer
            wire.push(stray_response(id, k));
        } else if who.is_none() {
            // nobody waits for it: also vary the echoed query (long, non-ASCII, not UTF-8)
            wire.push(response_q(id, notify, pos as i64, -1, k));
        } else if notify && case.kind == 2 {
            // goes to the subscriber, which reads the tag from a JSON body
            wire.push(response(id, notify, pos as i64, who.map(|x| x as i64).unwrap_or(-1)));
        } else {
            wire.push(response_v(id, notify, pos as i64, who.map(|x| x as i64).unwrap_or(-1), vars[who.unwrap()]));
        }
        // header fields the clients must not care about, derived from the position (replay-exact):
        // the value of a set notify byte (1, 2, 255), the reserved word, the echoed query of a response
        {
            let f = wire.last_mut().unwrap();
            if notify {
                f[11] = [1u8, 2, 255][pos % 3];
            }
            if pos % 2 == 1 {
                f[12..16].copy_from_slice(&(0x0101_0101u32.wrapping_mul(pos as u32 + 1)).to_le_bytes());
            }
            if &t[..1] == "v" {
                f[10] = [0u8, 2, 255][pos % 3]; // a response with a wrong protocol version: that call fails, nobody else
            }
        }
        meta.push((who, notify));
        badver.push(&t[..1] == "v");
        out.count(&format!("mux.frame.{}", &t[..1]));
    }
    let n_notify = meta.iter().filter(|m| m.1).count();
    // independent expectation: every caller was registered before the first frame was sent, so it gets the
    // first frame that carries its id (and is not diverted to the subscriber on the WebSocket client)
    let first_for = |c: usize| -> Option<usize> {
        meta.iter().position(|m| m.0 == Some(c) && !(case.kind == 2 && m.1))
    };
    if case.kind == 2 {
        wire.push(response(unknown_base + 999_999, true, -1, -1)); // end marker for the subscriber
    }
    // one write per frame on even cases, one coalesced write on odd ones (TCP only)
    if case.kind == 2 && case.frag != 0 {
        // every message as 2–3 WebSocket fragments, written beneath the WebSocket layer, the byte stream cut again
        let mut r = Rng::new(case.frag);
        let frames: Vec<Vec<u8>> = wire.iter().map(|m| ws_fragmented(m, &mut r)).collect();
        let lens: Vec<usize> = frames.iter().map(|f| f.len()).collect();
        let all = frames.concat();
        let mut pieces = Vec::new();
        let mut last = 0usize;
        for c in cut_points(&lens, case.frag ^ 0x5555, 8) {
            pieces.push(all[last..c].to_vec());
            last = c;
        }
        pieces.push(all[last..].to_vec());
        out.count(&format!("mux.ws_fragments.{}", pieces.len().min(6)));
        s.send(Cmd::SendPieces(pieces));
    } else if case.kind != 2 && case.frag != 0 {
        let lens: Vec<usize> = wire.iter().map(|f| f.len()).collect();
        let all = wire.concat();
        let mut pieces = Vec::new();
        let mut last = 0usize;
        let cuts: Vec<usize> = if case.frag & ONE_BYTE != 0 && all.len() <= 4096 { (1..all.len()).collect() } else { cut_points(&lens, case.frag, 10) };
        for c in cuts {
            pieces.push(all[last..c].to_vec());
            last = c;
        }
        pieces.push(all[last..].to_vec());
        out.count(&format!("mux.pieces.{}", pieces.len().min(6)));
        s.send(Cmd::SendPieces(pieces));
    } else if case.kind != 2 && case.script.len() % 2 == 1 {
        s.send(Cmd::SendRaw(wire.concat()));
    } else {
        s.send(Cmd::Send(wire));
    }
    if let Err(e) = s.srv_done() {
        fail(out, "server_send_failed", e, &ids_s);
        return;
    }
    // results
    let mut got: Vec<String> = vec!["HANG".into(); case.n];
    for _ in 0..case.n {
        match s.res(call_watchdog()) {
            None => break,
            Some((c, Ok(v))) => {
                let tag = tag_of(&v).unwrap_or(-2);
                got[c] = tag.to_string();
                let ok_frame = tag >= 0 && (tag as usize) < meta.len() && meta[tag as usize].0 == Some(c);
                if !ok_frame {
                    fail(out, "wrong_response", format!("caller {} (id {}) returned frame #{} = {:?}, which does not carry its id", c, ids[c], tag, case.script.get(tag as usize)), &ids_s);
                } else if case.kind == 2 && meta[tag as usize].1 {
                    fail(out, "notify_delivered_to_caller", format!("caller {} returned the notify frame #{}", c, tag), &ids_s);
                }
            }
            Some((c, Err(e))) => {
                got[c] = "E".into();
                let expected_bad_version = first_for(c).map(|p| badver[p]).unwrap_or(false);
                if !(expected_bad_version && matches!(e, RepeError::VersionMismatch(_))) {
                    fail(out, "call_failed", format!("caller {} failed: {}", c, io_kind(&e)), &ids_s);
                }
            }
        }
    }
    for c in 0..case.n {
        if let (Some(p), Ok(t)) = (first_for(c), got[c].parse::<usize>()) {
            if badver[p] {
                fail(out, "bad_version_accepted", format!("caller {} returned frame #{} although the first frame with its id (#{}) had a wrong version", c, t, p), &ids_s);
            } else if t != p {
                // on the TCP clients a notify-flagged frame with an in-flight id may or may not count as the
                // response (the property is silent: there is no subscriber there): accept either reading
                let strict = meta.iter().position(|m| m.0 == Some(c) && !m.1);
                if Some(t) != strict {
                    fail(out, "not_first_response", format!("caller {} returned frame #{}, the first frame carrying its id was #{}", c, t, p), &ids_s);
                }
            }
        }
    }
    for (c, g) in got.iter().enumerate() {
        if g == "HANG" {
            fail(out, "hang", format!("caller {} did not return within {:?}", c, call_watchdog()), &ids_s);
            saw_hang();
        }
    }
    // subscriber
    let mut subs: Vec<i64> = Vec::new();
    if let Some(rx) = sub.as_mut() {
        let r = h.rt.block_on(async {
            let mut v = Vec::new();
            loop {
                match tokio::time::timeout(WATCHDOG, rx.recv()).await {
                    Ok(Some(m)) => {
                        let t = serde_json::from_slice::<Value>(&m.body).ok().and_then(|v| tag_of(&v)).unwrap_or(-2);
                        if t == -1 {
                            return Ok(v);
                        }
                        v.push(t);
                    }
                    Ok(None) => return Err("subscriber stream ended"),
                    Err(_) => return Err("subscriber watchdog"),
                }
            }
        });
        match r {
            Ok(v) => subs = v,
            Err(e) => fail(out, "subscriber_lost", e.to_string(), &ids_s),
        }
        let want: Vec<i64> = meta.iter().enumerate().filter(|(_, m)| m.1).map(|(i, _)| i as i64).collect();
        if subs != want {
            fail(out, "subscriber_mismatch", format!("subscriber saw {:?}, notify frames were {:?}", subs, want), &ids_s);
        }
    }
    let sub_s = if subs.is_empty() { "-".to_string() } else { subs.iter().map(|x| x.to_string()).collect::<Vec<_>>().join(",") };
    let extras = case.script.iter().filter(|t| !t.starts_with('r')).count() + (case.script.len() - n_notify).saturating_sub(case.n);
    out.case(&op_of(&ids_s), &format!("{} got {} sub {}", idx, if got.is_empty() { "".to_string() } else { got.join(",") }, sub_s), case.n >= 2 || extras > 0);
    out.count(&format!("mux.{}.n.{}", kname, if case.n <= 6 { case.n.to_string() } else if case.n <= 16 { "7-16".into() } else { "17-64".into() }));
    s.send(Cmd::Close);
}

#[derive(Clone, Debug)]
struct BatchCase {
    kind: usize,
    n: usize,
    w: usize,
    order: Vec<usize>,
}

fn run_batch_case(h: &H, out: &mut Out, idx: &str, case: &BatchCase) {
    let kname = KINDS[case.kind];
    let rev = case.order == [usize::MAX];
    let op = format!("batch {} {} {} {} {}", idx, case.kind, case.n, case.w, if rev { "rev".to_string() } else { case.order.iter().map(|x| x.to_string()).collect::<Vec<_>>().join(",") });
    out.begin(&op);
    if stop_now(out) {
        return;
    }
    let mut s = match h.open(case.kind) {
        Ok(s) => s,
        Err(e) => {
            eprintln!("setup failed: {e}");
            out.count("mux.setup_failed");
            return;
        }
    };
    let reqs: Vec<(String, Value)> = (0..case.n).map(|j| ("/t".to_string(), req_body(j))).collect();
    let twin = case.n % 2 == 1; // odd sizes go through `batch_json_with_timeout`
    let (btx, brx) = smpsc::channel::<Vec<Result<Value, RepeError>>>();
    match s.cl.clone() {
        Cl::B(cl) => {
            std::thread::spawn(move || {
                let _ = btx.send(if twin { cl.batch_json_with_timeout(reqs, CALL_TIMEOUT) } else { cl.batch_json(reqs) });
            });
        }
        Cl::A(cl) => {
            h.rt.spawn(async move {
                let _ = btx.send(if twin { cl.batch_json_with_timeout(reqs, CALL_TIMEOUT).await } else { cl.batch_json(reqs).await });
            });
        }
        Cl::W(cl) => {
            h.rt.spawn(async move {
                let _ = btx.send(if twin { cl.batch_json_with_timeout(reqs, CALL_TIMEOUT).await } else { cl.batch_json(reqs).await });
            });
        }
    }
    // windowed release: hold up to `w` requests, answer the one the script picks
    let mut held: Vec<RawFrame> = Vec::new();
    let mut received = 0usize;
    let mut answered = 0usize;
    let mut finish_order: Vec<usize> = Vec::new();
    let mut ids = Vec::new();
    while answered < case.n {
        // never make the client wait for an answer we are holding: block for a request only when
        // nothing is held, otherwise take one more only if it is already on its way
        while held.len() < case.w && received < case.n {
            if held.is_empty() {
                s.send(Cmd::Read(1));
            } else {
                s.send(Cmd::TryRead(Duration::from_millis(30)));
            }
            match s.srv() {
                Ok(Event::Frames(mut f)) if !f.is_empty() => {
                    ids.push(f[0].h.id);
                    held.push(f.remove(0));
                    received += 1;
                }
                Ok(Event::Frames(_)) => break,
                Ok(_) => break,
                Err(e) => {
                    out.oracle_fail(&format!("mux.{}.batch_requests_missing", kname), &e, &[op.clone()]);
                    return;
                }
            }
        }
        let pick = if rev { held.len() - 1 } else { case.order[answered % case.order.len().max(1)] % held.len() };
        let f = held.remove(pick);
        let c = caller_of(&f).unwrap_or(usize::MAX);
        finish_order.push(c);
        s.send(Cmd::Send(vec![response(f.h.id, false, c as i64, c as i64)]));
        if let Err(e) = s.srv_done() {
            out.oracle_fail(&format!("mux.{}.batch_server_send_failed", kname), &e, &[op.clone()]);
            return;
        }
        answered += 1;
    }
    let mut sorted = ids.clone();
    sorted.sort();
    if sorted.windows(2).any(|w| w[0] == w[1]) {
        out.oracle_fail(&format!("mux.{}.ids_not_distinct", kname), &format!("batch request ids {:?}", ids), &[op.clone()]);
    }
    let obs = match brx.recv_timeout(WATCHDOG) {
        Err(_) => {
            out.oracle_fail(&format!("mux.{}.batch_hang", kname), "batch_json did not return", &[op.clone()]);
            "HANG".to_string()
        }
        Ok(results) => {
            let tags: Vec<String> = results.iter().map(|r| match r {
                Ok(v) => tag_of(v).map(|t| t.to_string()).unwrap_or("?".into()),
                Err(_) => "E".into(),
            }).collect();
            if results.len() != case.n {
                out.oracle_fail(&format!("mux.{}.batch_len", kname), &format!("{} results for {} requests", results.len(), case.n), &[op.clone()]);
            }
            for (j, t) in tags.iter().enumerate() {
                if *t != j.to_string() {
                    out.oracle_fail(&format!("mux.{}.batch_misaligned", kname), &format!("result slot {} holds the answer to request {} (server finish order {:?})", j, t, finish_order), &[op.clone()]);
                    break;
                }
            }
            format!("out {}", tags.join(","))
        }
    };
    let reordered = finish_order.windows(2).any(|w| w[0] > w[1]);
    out.count(&format!("mux.{}.batch.{}", kname, if reordered { "reordered" } else { "in_order" }));
    out.case(&op, &format!("{} {}", idx, obs), reordered);
    s.send(Cmd::Close);
}

/// `k` calls one after the other from `t` threads/tasks, each answered the instant the server has read
/// it: the response races the caller's own bookkeeping after the write.
fn run_seq_case(h: &H, out: &mut Out, idx: &str, kind: usize, t: usize, k: usize, nbig: usize) {
    let kname = KINDS[kind];
    let op = if nbig > 0 { format!("seqbig {} {} {} {} {}", idx, kind, t, k, nbig) } else { format!("seq {} {} {} {}", idx, kind, t, k) };
    out.begin(&op);
    if stop_now(out) {
        return;
    }
    let ops = [op.clone()];
    let Ok(mut s) = h.open(kind) else { return };
    s.send(Cmd::Echo(t * k));
    // meanwhile: requests above the WebSocket client's assumed peer frame limit (refused locally, nothing
    // sent); the body is built beforehand so that the refusals fall into the time the workers are busy
    let (btx, brx) = smpsc::channel::<String>();
    if nbig > 0 {
        if let Cl::W(cl) = s.cl.clone() {
            let big = json!({"c": 999, "pad": "x".repeat(17 << 20)});
            h.rt.spawn(async move {
                for _ in 0..nbig {
                    let r = cl.call_json("/t", &big).await;
                    let _ = btx.send(match r {
                        Err(RepeError::MessageTooLarge { .. }) => "refused".into(),
                        Err(e) => format!("err:{}", io_kind(&e)),
                        Ok(_) => "sent".into(),
                    });
                    tokio::task::yield_now().await;
                }
            });
        }
    }
    let stop = std::sync::Arc::new(std::sync::atomic::AtomicBool::new(false));
    {
        let stop = stop.clone();
        let cl = s.cl.clone();
        let rt = h.rt.handle().clone();
        std::thread::spawn(move || {
            let _g = rt.enter(); // the WebSocket client's Drop looks for a runtime
            let mut n = 0u64;
            while !stop.load(std::sync::atomic::Ordering::Relaxed) && n < 2_000_000 {
                let c2 = cl.clone();
                if let Cl::W(w) = &c2 {
                    let _ = w.limits();
                }
                drop(c2);
                n += 1;
                if n % 64 == 0 {
                    std::thread::yield_now();
                }
            }
        });
    }
    let (dtx, drx) = smpsc::channel::<(usize, usize, String)>();
    for w in 0..t {
        let dtx = dtx.clone();
        let cl = s.cl.clone();
        let body = move |j: usize| req_body(w * k + j);
        let check = move |j: usize, r: Result<Value, RepeError>| -> Option<String> {
            match r {
                Ok(v) if tag_of(&v) == Some((w * k + j) as i64) => None,
                Ok(v) => Some(format!("call {} of worker {} returned tag {:?}", j, w, tag_of(&v))),
                Err(e) => Some(format!("call {} of worker {} failed: {}", j, w, io_kind(&e))),
            }
        };
        match cl {
            Cl::B(cl) => {
                std::thread::spawn(move || {
                    for j in 0..k {
                        // a notify now and then: it must consume an id of its own
                        if j % 3 == 1 {
                            let nb = json!({"n": j});
                            let _ = match j % 4 {
                                0 => cl.notify_json("/n", &nb),
                                1 => cl.notify_typed_json("/n", &nb),
                                2 => cl.notify_typed_beve("/n", &nb),
                                _ => cl.notify_with_formats("/n", 1, Some(b"{}"), 2),
                            };
                        }
                        if let Some(e) = check(j, cl.call_json("/t", &body(j))) {
                            let _ = dtx.send((w, j, e));
                            return;
                        }
                    }
                    let _ = dtx.send((w, k, String::new()));
                });
            }
            Cl::A(cl) => {
                h.rt.spawn(async move {
                    for j in 0..k {
                        if j % 3 == 1 {
                            let nb = json!({"n": j});
                            let _ = match j % 4 {
                                0 => cl.notify_json("/n", &nb).await,
                                1 => cl.notify_typed_json("/n", &nb).await,
                                2 => cl.notify_typed_beve("/n", &nb).await,
                                _ => cl.notify_with_formats("/n", 1, Some(b"{}"), 2).await,
                            };
                        }
                        if let Some(e) = check(j, cl.call_json("/t", &body(j)).await) {
                            let _ = dtx.send((w, j, e));
                            return;
                        }
                    }
                    let _ = dtx.send((w, k, String::new()));
                });
            }
            Cl::W(cl) => {
                h.rt.spawn(async move {
                    for j in 0..k {
                        if j % 3 == 1 {
                            let nb = json!({"n": j});
                            let _ = match j % 4 {
                                0 => cl.notify_json("/n", &nb).await,
                                1 => cl.notify_typed_json("/n", &nb).await,
                                2 => cl.notify_typed_beve("/n", &nb).await,
                                _ => cl.notify_with_formats("/n", 1, Some(b"{}"), 2).await,
                            };
                        }
                        if let Some(e) = check(j, cl.call_json("/t", &body(j)).await) {
                            let _ = dtx.send((w, j, e));
                            return;
                        }
                    }
                    let _ = dtx.send((w, k, String::new()));
                });
            }
        }
    }
    let mut done = 0usize;
    let mut okc = 0usize;
    // a worker's whole run is awaited: allow for the 40 ms Nagle / delayed-ACK stall a notify followed by a
    // call costs on the WebSocket client (it connects with Nagle on), on top of the watchdog
    let allowance = call_watchdog() + Duration::from_millis(60 * k as u64);
    while done < t {
        match drx.recv_timeout(allowance) {
            Ok((_, j, e)) => {
                done += 1;
                if e.is_empty() {
                    okc += j;
                } else {
                    out.oracle_fail(&format!("mux.{}.seq_wrong", kname), &e, &ops);
                }
            }
            Err(_) => {
                out.oracle_fail(&format!("mux.{}.hang", kname), &format!("a call answered immediately never returned ({} of {} workers finished): its response was lost", done, t), &ops);
                saw_hang();
                break;
            }
        }
    }
    if done == t && okc == t * k {
        // ids the server saw: pairwise distinct
        if let Ok(Event::Ids(mut ids)) = s.srv() {
            ids.sort();
            if let Some(w) = ids.windows(2).find(|w| w[0] == w[1]) {
                out.oracle_fail(&format!("mux.{}.ids_not_distinct", kname), &format!("request id {} was issued twice on one connection", w[0]), &ops);
            }
        }
    }
    for _ in 0..nbig {
        match brx.recv_timeout(call_watchdog()) {
            Ok(x) => out.count(&format!("mux.{}.oversize.{}", kname, x.split(':').next().unwrap())),
            Err(_) => break,
        }
    }
    stop.store(true, std::sync::atomic::Ordering::Relaxed);
    out.count(&format!("mux.{}.seq", kname));
    out.case(&op, &format!("{} ok {}", idx, okc), true);
    s.send(Cmd::Close);
}


// ---------------------------------------------------------------------------------------------
// `forward_message` (AsyncClient only: the one entry point with caller-chosen ids)
// ---------------------------------------------------------------------------------------------
impl Session {
    /// Start `forward_message` of a request with the caller-chosen `id`, tagged `c`.
    fn fwd(&mut self, h: &H, c: usize, id: u64, timeout: Option<Duration>) {
        let Cl::A(cl) = self.cl.clone() else { return };
        let tx = self.ev_tx.clone();
        let jh = h.rt.spawn(CALLER_TASK.scope(c, async move {
            let msg = match Message::builder().id(id).query_str("/t").body_json(&req_body(c)) {
                Ok(b) => b.build(),
                Err(e) => {
                    let _ = tx.send(Event::Res(c, Err(e)));
                    return;
                }
            };
            let r = match timeout {
                Some(t) => cl.forward_message_with_timeout(&msg, t).await,
                None => cl.forward_message(&msg).await,
            };
            let r = match r {
                Ok(Some(m)) if m.header.id == id => serde_json::from_slice::<Value>(&m.body).map_err(RepeError::from),
                Ok(Some(m)) => Err(RepeError::ResponseIdMismatch { expected: id, got: m.header.id }),
                Ok(None) => Err(RepeError::Io(std::io::Error::other("no response"))),
                Err(e) => Err(e),
            };
            let _ = tx.send(Event::Res(c, r));
        }));
        self.handles.push((c, jh));
    }
    /// Wait until the server (in `AutoRead` mode) has read a request with header id `id`, or call `c`
    /// returned. `Ok(())` = the request arrived; `Err(Some(result))` = the call returned first.
    fn req_or_res(&mut self, c: usize, id: u64) -> Result<(), Option<Result<Value, RepeError>>> {
        if let Some(p) = self.req_stash.iter().position(|f| f.h.id == id) {
            self.req_stash.remove(p);
            return Ok(());
        }
        if let Some(p) = self.stash.iter().position(|x| x.0 == c) {
            return Err(Some(self.stash.remove(p).1));
        }
        let deadline = Instant::now() + call_watchdog();
        loop {
            match self.ev.recv_timeout(deadline.saturating_duration_since(Instant::now())) {
                Ok(Event::Req(f)) if f.h.id == id => return Ok(()),
                Ok(Event::Req(f)) => self.req_stash.push(f),
                Ok(Event::Res(x, r)) if x == c => return Err(Some(r)),
                Ok(Event::Res(x, r)) => self.stash.push((x, r)),
                Ok(e) => self.srv_stash.push_back(e),
                Err(_) => return Err(None),
            }
        }
    }
    /// Result of call `c` (other results are kept).
    fn res_of(&mut self, c: usize, wd: Duration) -> Option<Result<Value, RepeError>> {
        if let Some(p) = self.stash.iter().position(|x| x.0 == c) {
            return Some(self.stash.remove(p).1);
        }
        let deadline = Instant::now() + wd;
        loop {
            match self.ev.recv_timeout(deadline.saturating_duration_since(Instant::now())) {
                Ok(Event::Res(x, r)) if x == c => return Some(r),
                Ok(Event::Res(x, r)) => self.stash.push((x, r)),
                Ok(Event::Req(f)) => self.req_stash.push(f),
                Ok(e) => self.srv_stash.push_back(e),
                Err(_) => return None,
            }
        }
    }
}

fn own(r: &Option<Result<Value, RepeError>>, tag: i64) -> String {
    match r {
        None => "HANG".into(),
        Some(Ok(v)) if tag_of(v) == Some(tag) => "own".into(),
        Some(Ok(_)) => "other".into(),
        Some(Err(e)) => format!("Err({})", io_kind(e)),
    }
}

/// C04 side: caller-chosen ids (boundary values incl. 0), a duplicate of an in-flight id, immediate
/// re-use of an id whose response has just been matched.
fn run_fwd_case(h: &H, out: &mut Out, idx: &str, mode: &str) {
    let op = format!("fwd {} 1 {}", idx, mode);
    out.begin(&op);
    if stop_now(out) {
        return;
    }
    let ops = [op.clone()];
    let Ok(mut s) = h.open(1) else { return };
    s.send(Cmd::AutoRead);
    let _ = s.srv_done();
    let mut verdict = "ok".to_string();
    let mut fail = |out: &mut Out, sig: &str, detail: String| {
        out.oracle_fail(&format!("mux.async.{}", sig), &detail, &ops);
        if detail.contains("HANG") { saw_hang(); }
    };
    match mode {
        "ids" => {
            // ids of the ordinary calls made before, between and after the forwards
            let mut issued: Vec<u64> = Vec::new();
            let fwd_ids = [0u64, 7, 1 << 32, u64::MAX - 2, u64::MAX - 1, u64::MAX, 1];
            for pre in 0..3usize {
                let c = 200 + pre;
                s.call(h, c, req_body(c), None);
                let deadline = Instant::now() + call_watchdog();
                let mut got = None;
                while Instant::now() < deadline && got.is_none() {
                    match s.ev.recv_timeout(Duration::from_millis(50)) {
                        Ok(Event::Req(f)) if caller_of(&f) == Some(c) => { issued.push(f.h.id); s.send(Cmd::Send(vec![response(f.h.id, false, c as i64, 0)])) }
                        Ok(Event::Res(x, r)) if x == c => got = Some(r),
                        _ => {}
                    }
                }
            }
            for (k, id) in fwd_ids.into_iter().enumerate() {
                s.fwd(h, k, id, None);
                match s.req_or_res(k, id) {
                    Ok(()) => {
                        s.send(Cmd::Send(vec![response(id, false, k as i64, k as i64)]));
                        let r = s.res_of(k, call_watchdog());
                        let o = own(&r, k as i64);
                        if o != "own" {
                            fail(out, "forward_lost", format!("forward_message with id {} returned {} although the peer answered it", id, o));
                            verdict = "bad".into();
                        }
                    }
                    Err(r) => {
                        fail(out, "forward_lost", format!("forward_message with id {}: request not seen by the peer, call ended {}", id, own(&r, k as i64)));
                        verdict = "bad".into();
                    }
                }
                // an ordinary call in between is still served
                s.call(h, 100 + k, req_body(100 + k), None);
                let mut got = None;
                let deadline = Instant::now() + call_watchdog();
                while Instant::now() < deadline && got.is_none() {
                    match s.ev.recv_timeout(Duration::from_millis(50)) {
                        Ok(Event::Req(f)) if caller_of(&f) == Some(100 + k) => { issued.push(f.h.id); s.send(Cmd::Send(vec![response(f.h.id, false, (100 + k) as i64, 0)])) }
                        Ok(Event::Res(x, r)) if x == 100 + k => got = Some(r),
                        _ => {}
                    }
                }
                if own(&got, (100 + k) as i64) != "own" {
                    fail(out, "call_after_forward", format!("call after forwarding id {} returned {}", id, own(&got, (100 + k) as i64)));
                    verdict = "bad".into();
                }
            }
            // the ids the client issued itself are pairwise distinct, whatever ids were forwarded meanwhile
            let mut sorted = issued.clone();
            sorted.sort();
            if let Some(w) = sorted.windows(2).find(|w| w[0] == w[1]) {
                fail(out, "ids_not_distinct", format!("the client issued request id {} twice on one connection (ids of its own calls, in order: {:?}; forwarded meanwhile: {:?})", w[0], issued, fwd_ids));
                verdict = "bad".into();
            }
        }
        "dup" => {
            s.fwd(h, 0, 7, None);
            if s.req_or_res(0, 7).is_err() {
                fail(out, "forward_lost", "first forward of id 7 did not reach the peer".into());
            }
            // same id again while the first is in flight: whatever the client answers, the first must survive
            s.fwd(h, 1, 7, Some(Duration::from_millis(300)));
            let second = s.res_of(1, call_watchdog());
            out.count(&format!("mux.async.fwd.dup.second.{}", own(&second, 1).split('(').next().unwrap()));
            s.send(Cmd::Send(vec![response(7, false, 0, 0)]));
            let first = s.res_of(0, call_watchdog());
            if own(&first, 0) != "own" {
                fail(out, "duplicate_id_kills_inflight_call", format!("a second forward with the in-flight id 7 was issued (it ended {}); the first call then returned {} instead of the peer's response", own(&second, 1), own(&first, 0)));
                verdict = "bad".into();
            }
        }
        _ => {
            // X is answered; Y (same id) registers the instant X's entry has left the map
            let Cl::A(cl) = s.cl.clone() else { return };
            for it in 0..40usize {
                s.fwd(h, 0, 7, None);
                if s.req_or_res(0, 7).is_err() {
                    fail(out, "forward_lost", format!("iteration {}: forward of id 7 did not reach the peer", it));
                    verdict = "bad".into();
                    break;
                }
                let tx = s.ev_tx.clone();
                let cl2 = cl.clone();
                h.rt.spawn(async move {
                    let msg = Message::builder().id(7).query_str("/t").body_json(&req_body(1)).unwrap().build();
                    let r = loop {
                        match cl2.forward_message(&msg).await {
                            Err(RepeError::Io(e)) if e.kind() == std::io::ErrorKind::AlreadyExists => tokio::task::yield_now().await,
                            other => break other,
                        }
                    };
                    let r = match r {
                        Ok(Some(m)) => serde_json::from_slice::<Value>(&m.body).map_err(RepeError::from),
                        Ok(None) => Err(RepeError::Io(std::io::Error::other("no response"))),
                        Err(e) => Err(e),
                    };
                    let _ = tx.send(Event::Res(1, r));
                });
                std::thread::sleep(Duration::from_millis(2));
                s.send(Cmd::Send(vec![response(7, false, 0, 0)]));
                let x = s.res_of(0, call_watchdog());
                if own(&x, 0) != "own" {
                    fail(out, "forward_lost", format!("iteration {}: forward of id 7 returned {}", it, own(&x, 0)));
                    verdict = "bad".into();
                    break;
                }
                // Y's request (same id, body of caller 1)
                let deadline = Instant::now() + call_watchdog();
                let mut seen = false;
                while Instant::now() < deadline && !seen {
                    if let Some(p) = s.req_stash.iter().position(|f| f.h.id == 7 && caller_of(f) == Some(1)) {
                        s.req_stash.remove(p);
                        seen = true;
                        break;
                    }
                    match s.ev.recv_timeout(Duration::from_millis(50)) {
                        Ok(Event::Req(f)) => s.req_stash.push(f),
                        Ok(Event::Res(x, r)) => s.stash.push((x, r)),
                        _ => {}
                    }
                }
                s.send(Cmd::Send(vec![response(7, false, 1, 1)]));
                let y = s.res_of(1, call_watchdog());
                if !seen || own(&y, 1) != "own" {
                    fail(out, "reused_id_entry_evicted", format!("iteration {}: id 7 was forwarded again right after its previous response was matched; the new call returned {} although the peer answered it (request seen: {})", it, own(&y, 1), seen));
                    verdict = "bad".into();
                    break;
                }
            }
        }
    }
    out.count(&format!("mux.async.fwd.{}", mode));
    out.case(&op, &format!("{} {}", idx, verdict), true);
    s.send(Cmd::Close);
}

/// C06 side: a forward that times out, one that is cancelled while waiting; neither may leave its
/// entry behind (the same id must be forwardable again), their late responses are inert.
fn run_fwd_residue_case(h: &H, out: &mut Out, idx: &str) {
    let op = format!("fwdres {} 1", idx);
    out.begin(&op);
    if stop_now(out) {
        return;
    }
    let ops = [op.clone()];
    let Ok(mut s) = h.open(1) else { return };
    s.send(Cmd::AutoRead);
    let _ = s.srv_done();
    let mut verdict = "ok".to_string();
    let mut fail = |out: &mut Out, sig: &str, detail: String| {
        out.oracle_fail(&format!("deadconn.async.{}", sig), &detail, &ops);
        if detail.contains("HANG") { saw_hang(); }
    };
    // 1. times out
    s.fwd(h, 0, 7, Some(Duration::from_millis(100)));
    let _ = s.req_or_res(0, 7);
    let first = s.res_of(0, call_watchdog());
    if !matches!(&first, Some(Err(e)) if cls(e) == "Timeout") {
        fail(out, "forward_timeout_outcome", format!("forward with a 100 ms timeout and no reply returned {}", own(&first, 0)));
        verdict = "bad".into();
    }
    // 2. the same id again: must be accepted (written); it is then cancelled while waiting
    s.fwd(h, 1, 7, None);
    match s.req_or_res(1, 7) {
        Ok(()) => {}
        Err(r) => {
            fail(out, "forward_timeout_residue", format!("after a timed-out forward of id 7 the same id was refused: {}", own(&r, 1)));
            verdict = "bad".into();
        }
    }
    let _ = s.abort(h, 1);
    // 3. late responses for both abandoned copies: inert
    s.send(Cmd::Send(vec![response_q(7, false, 0, 0, 1), response_q(7, false, 1, 1, 3)]));
    // 4. an ordinary call is served
    s.call(h, 2, req_body(2), None);
    let mut got = None;
    let deadline = Instant::now() + call_watchdog();
    while Instant::now() < deadline && got.is_none() {
        match s.ev.recv_timeout(Duration::from_millis(50)) {
            Ok(Event::Req(f)) if caller_of(&f) == Some(2) => s.send(Cmd::Send(vec![response(f.h.id, false, 2, 2)])),
            Ok(Event::Res(2, r)) => got = Some(r),
            _ => {}
        }
    }
    if own(&got, 2) != "own" {
        fail(out, "next_call_after_forward_abandoned", format!("a call after the abandoned forwards returned {}", own(&got, 2)));
        verdict = "bad".into();
    }
    // 5. the same id a third time: accepted and answered
    s.fwd(h, 3, 7, None);
    match s.req_or_res(3, 7) {
        Ok(()) => {
            s.send(Cmd::Send(vec![response(7, false, 3, 3)]));
            let r = s.res_of(3, call_watchdog());
            if own(&r, 3) != "own" {
                fail(out, "forward_after_cancel", format!("forward of id 7 after a cancelled one returned {}", own(&r, 3)));
                verdict = "bad".into();
            }
        }
        Err(r) => {
            fail(out, "forward_cancel_residue", format!("after a cancelled forward of id 7 the same id was refused: {}", own(&r, 3)));
            verdict = "bad".into();
        }
    }
    out.count("deadconn.async.fwdres");
    out.case(&op, &format!("{} {}", idx, verdict), true);
    s.send(Cmd::Close);
}


// ---------------------------------------------------------------------------------------------
// `life`: one client instance through a long mixed sequence (state that must not survive a call)
// ---------------------------------------------------------------------------------------------
/// A user type whose `Serialize` fails (0), panics with a String (1), a &'static str (2) or a non-string payload (3).
struct BadSer(u8);
impl serde::Serialize for BadSer {
    fn serialize<S: serde::Serializer>(&self, _s: S) -> Result<S::Ok, S::Error> {
        match self.0 {
            0 => Err(serde::ser::Error::custom("this value refuses to be serialized")),
            1 => panic!("{}", String::from("serializer panicked (String)")),
            2 => panic!("serializer panicked (&'static str)"),
            _ => std::panic::panic_any(42u32),
        }
    }
}
/// A user type whose `Deserialize` always fails.
#[derive(Debug)]
struct BadDe;
impl<'de> serde::Deserialize<'de> for BadDe {
    fn deserialize<D: serde::Deserializer<'de>>(_d: D) -> Result<Self, D::Error> {
        Err(serde::de::Error::custom("this type refuses every value"))
    }
}

/// Answer requests of caller `c` as `how` until its result arrives.
/// how: 0 = matching response, 1 = error response (ec 7) under its id, 2 = no answer.
fn serve_until(s: &mut Session, c: usize, how: u8, wd: Duration) -> Option<Result<Value, RepeError>> {
    if let Some(p) = s.stash.iter().position(|x| x.0 == c) {
        return Some(s.stash.remove(p).1);
    }
    let deadline = Instant::now() + wd;
    loop {
        let pending: Vec<RawFrame> = std::mem::take(&mut s.req_stash);
        for f in pending {
            if caller_of(&f) == Some(c) && f.h.notify == 0 {
                match how {
                    0 => s.send(Cmd::Send(vec![response_v(f.h.id, false, c as i64, c as i64, variant_of(&f))])),
                    1 => s.send(Cmd::Send(vec![swept_error_response(f.h.id, c)])),
                    _ => {}
                }
            } else {
                s.req_stash.push(f);
            }
        }
        match s.ev.recv_timeout(deadline.saturating_duration_since(Instant::now()).min(Duration::from_millis(50))) {
            Ok(Event::Req(f)) => s.req_stash.push(f),
            Ok(Event::Res(x, r)) if x == c => return Some(r),
            Ok(Event::Res(x, r)) => s.stash.push((x, r)),
            Ok(e) => s.srv_stash.push_back(e),
            Err(_) if Instant::now() >= deadline => return None,
            Err(_) => {}
        }
    }
}

fn run_life_case(h: &H, out: &mut Out, idx: &str, kind: usize, seed: u64) {
    let kname = KINDS[kind];
    let op = format!("life {} {} {}", idx, kind, seed);
    out.begin(&op);
    if stop_now(out) {
        return;
    }
    let ops = [op.clone()];
    let Ok(mut s) = h.open(kind) else { return };
    s.send(Cmd::AutoRead);
    let _ = s.srv_done();
    let mut r = Rng::new(seed);
    let mut verdict = "ok".to_string();
    let mut next_c = 0usize;
    let mut fresh = |n: &mut usize| { *n += 1; *n };
    // after every step an ordinary call must be served as on a fresh client
    macro_rules! check_served {
        ($step:expr) => {{
            let c = fresh(&mut next_c);
            let v = r.below(NVARIANTS as u64) as usize;
            s.call_v(h, c, v, None);
            let got = serve_until(&mut s, c, 0, call_watchdog());
            if own(&got, c as i64) != "own" {
                out.oracle_fail(&format!("mux.{}.life.{}", kname, $step), &format!("after step `{}` a {} call on the same client returned {}", $step, variant_name(variant_for(kind, v)), own(&got, c as i64)), &ops);
                if own(&got, c as i64) == "HANG" { saw_hang(); }
                verdict = "bad".into();
            }
        }};
    }
    check_served!("connect");
    let mut steps: Vec<&str> = vec!["big_request", "big_response", "zero_timeout", "short_timeout", "error_response", "ser_err", "ser_panic", "de_err", "notifies", "batch", "cancel", "forward", "resubscribe", "oversize"];
    r.shuffle(&mut steps);
    for step in steps {
        match step {
            "zero_timeout" | "short_timeout" => {
                let c = fresh(&mut next_c);
                let t = if step == "zero_timeout" { Duration::ZERO } else { Duration::from_millis(20) };
                s.call_v(h, c, r.below(NVARIANTS as u64) as usize, Some(t));
                let got = serve_until(&mut s, c, 2, call_watchdog());
                if !matches!(&got, Some(Err(e)) if cls(e) == "Timeout") {
                    out.oracle_fail(&format!("mux.{}.life.{}", kname, step), &format!("an unanswered call with a {:?} timeout returned {}", t, own(&got, c as i64)), &ops);
                    verdict = "bad".into();
                }
                // its late answer
                let late: Vec<RawFrame> = std::mem::take(&mut s.req_stash);
                for f in late {
                    if caller_of(&f) == Some(c) {
                        s.send(Cmd::Send(vec![response_v(f.h.id, false, c as i64, c as i64, variant_of(&f))]));
                    } else {
                        s.req_stash.push(f);
                    }
                }
            }
            "big_request" => {
                // requests whose frame is exactly 8191 / 8192 / 8193 / 16384 / 65536 bytes (the write buffers are 8 KiB)
                for total in [8191usize, 8192, 8193, 16_384, 65_536] {
                    let c = fresh(&mut next_c);
                    let path = vpath(c, 12);
                    let body = vec![b' '; total - 48 - path.len()];
                    let tx = s.ev_tx.clone();
                    match s.cl.clone() {
                        Cl::B(cl) => { std::thread::spawn(move || { let r = cl.call_with_formats(&path, 1, Some(&body), 0).and_then(msg_to_value); let _ = tx.send(Event::Res(c, r)); }); }
                        Cl::A(cl) => { h.rt.spawn(async move { let r = cl.call_with_formats(&path, 1, Some(&body), 0).await.and_then(msg_to_value); let _ = tx.send(Event::Res(c, r)); }); }
                        Cl::W(cl) => { h.rt.spawn(async move { let r = cl.call_with_formats(&path, 1, Some(&body), 0).await.and_then(msg_to_value); let _ = tx.send(Event::Res(c, r)); }); }
                    }
                    let got = serve_until(&mut s, c, 0, call_watchdog());
                    if own(&got, c as i64) != "own" {
                        out.oracle_fail(&format!("mux.{}.life.big_request", kname), &format!("a call whose request frame is {} bytes returned {}", total, own(&got, c as i64)), &ops);
                        if own(&got, c as i64) == "HANG" { saw_hang(); }
                        verdict = "bad".into();
                    }
                }
            }
            "big_response" => {
                // awaited answers whose frame is 8191 / 8192 / 8193 bytes and 70 kB (the read buffers are 8 KiB)
                for total in [8191usize, 8192, 8193, 70_000, 200_000] {
                    let c = fresh(&mut next_c);
                    s.call_v(h, c, 0, None);
                    let deadline = Instant::now() + call_watchdog();
                    let mut got = None;
                    while Instant::now() < deadline && got.is_none() {
                        match s.ev.recv_timeout(Duration::from_millis(50)) {
                            Ok(Event::Req(f)) if caller_of(&f) == Some(c) => {
                                let base = serde_json::to_vec(&json!({"tag": c, "c": c, "pad": ""})).unwrap().len();
                                let pad = "p".repeat(total - 48 - 2 - base);
                                let body = serde_json::to_vec(&json!({"tag": c, "c": c, "pad": pad})).unwrap();
                                let frame = RawFrame::request(f.h.id, false, 1, b"/t", 2, &body).to_vec();
                                debug_assert_eq!(frame.len(), total);
                                s.send(Cmd::Send(vec![frame]));
                            }
                            Ok(Event::Req(f)) => s.req_stash.push(f),
                            Ok(Event::Res(x, r)) if x == c => got = Some(r),
                            Ok(Event::Res(x, r)) => s.stash.push((x, r)),
                            _ => {}
                        }
                    }
                    if own(&got, c as i64) != "own" {
                        out.oracle_fail(&format!("mux.{}.life.big_response", kname), &format!("a call answered with a {}-byte frame returned {}", total, own(&got, c as i64)), &ops);
                        verdict = "bad".into();
                    }
                }
            }
            "error_response" => {
                let c = fresh(&mut next_c);
                s.call_v(h, c, r.below(NVARIANTS as u64) as usize, None);
                let got = serve_until(&mut s, c, 1, call_watchdog());
                if !matches!(&got, Some(Err(RepeError::ServerError { .. }))) {
                    out.oracle_fail(&format!("mux.{}.life.{}", kname, step), &format!("a call answered with an error frame returned {}", own(&got, c as i64)), &ops);
                    verdict = "bad".into();
                }
            }
            "ser_err" | "ser_panic" => {
                // a user `Serialize` that fails / panics: nothing is sent, nothing stays behind
                for which in if step == "ser_err" { vec![0u8] } else { vec![1u8, 2, 3] } {
                    let outcome = match s.cl.clone() {
                        Cl::B(cl) => std::thread::spawn(move || cl.call_json("/t", &BadSer(which)).map(|_| ())).join().map_err(|_| ()),
                        Cl::A(cl) => h.rt.block_on(async { tokio::spawn(async move { cl.call_json("/t", &BadSer(which)).await.map(|_| ()) }).await }).map_err(|_| ()),
                        Cl::W(cl) => h.rt.block_on(async { tokio::spawn(async move { cl.call_json("/t", &BadSer(which)).await.map(|_| ()) }).await }).map_err(|_| ()),
                    };
                    out.count(&format!("mux.{}.life.badser.{}", kname, match &outcome { Ok(Ok(())) => "sent", Ok(Err(_)) => "err", Err(()) => "panicked" }));
                    if matches!(outcome, Ok(Ok(()))) {
                        out.oracle_fail(&format!("mux.{}.life.{}", kname, step), "a call whose body cannot be serialized reported success", &ops);
                        verdict = "bad".into();
                    }
                }
            }
            "de_err" => {
                let c = fresh(&mut next_c);
                let tx = s.ev_tx.clone();
                let path = vpath(c, 2);
                let body = req_body(c);
                match s.cl.clone() {
                    Cl::B(cl) => { std::thread::spawn(move || { let r = cl.call_typed_json::<&str, Value, BadDe>(&path, &body).map(|_| Value::Null); let _ = tx.send(Event::Res(c, r)); }); }
                    Cl::A(cl) => { h.rt.spawn(async move { let r = cl.call_typed_json::<&str, Value, BadDe>(&path, &body).await.map(|_| Value::Null); let _ = tx.send(Event::Res(c, r)); }); }
                    Cl::W(cl) => { h.rt.spawn(async move { let r = cl.call_typed_json::<&str, Value, BadDe>(&path, &body).await.map(|_| Value::Null); let _ = tx.send(Event::Res(c, r)); }); }
                }
                let got = serve_until(&mut s, c, 0, call_watchdog());
                if !matches!(&got, Some(Err(_))) {
                    out.oracle_fail(&format!("mux.{}.life.{}", kname, step), &format!("a response that the caller's type cannot decode gave {}", own(&got, c as i64)), &ops);
                    verdict = "bad".into();
                }
            }
            "notifies" => {
                let nb = json!({"n": 1});
                match s.cl.clone() {
                    Cl::B(cl) => { let _ = cl.notify_json("/n", &nb); let _ = cl.notify_typed_json("/n", &nb); let _ = cl.notify_typed_beve("/n", &nb); let _ = cl.notify_with_formats("/n", 1, None, 0); }
                    Cl::A(cl) => h.rt.block_on(async { let _ = cl.notify_json("/n", &nb).await; let _ = cl.notify_typed_json("/n", &nb).await; let _ = cl.notify_typed_beve("/n", &nb).await; let _ = cl.notify_with_formats("/n", 1, None, 0).await; }),
                    Cl::W(cl) => h.rt.block_on(async { let _ = cl.notify_json("/n", &nb).await; let _ = cl.notify_typed_json("/n", &nb).await; let _ = cl.notify_typed_beve("/n", &nb).await; let _ = cl.notify_with_formats("/n", 1, None, 0).await; }),
                }
            }
            "batch" => {
                let base = next_c + 1;
                next_c += 3;
                let reqs: Vec<(String, Value)> = (0..3).map(|j| (vpath(base + j, 0), req_body(base + j))).collect();
                let (btx, brx) = smpsc::channel::<Vec<Result<Value, RepeError>>>();
                match s.cl.clone() {
                    Cl::B(cl) => { std::thread::spawn(move || { let _ = btx.send(cl.batch_json(reqs)); }); }
                    Cl::A(cl) => { h.rt.spawn(async move { let _ = btx.send(cl.batch_json(reqs).await); }); }
                    Cl::W(cl) => { h.rt.spawn(async move { let _ = btx.send(cl.batch_json_with_timeout(reqs, CALL_TIMEOUT).await); }); }
                }
                let deadline = Instant::now() + call_watchdog();
                let mut res = None;
                while Instant::now() < deadline && res.is_none() {
                    if let Ok(x) = brx.try_recv() { res = Some(x); break; }
                    match s.ev.recv_timeout(Duration::from_millis(20)) {
                        Ok(Event::Req(f)) if f.h.notify == 0 => { let c = caller_of(&f).unwrap_or(0); s.send(Cmd::Send(vec![response_v(f.h.id, false, c as i64, c as i64, 0)])); }
                        Ok(Event::Res(x, r)) => s.stash.push((x, r)),
                        _ => {}
                    }
                }
                let ok = matches!(&res, Some(v) if v.len() == 3 && v.iter().enumerate().all(|(j, r)| matches!(r, Ok(val) if tag_of(val) == Some((base + j) as i64))));
                if !ok {
                    out.oracle_fail(&format!("mux.{}.life.batch", kname), "a batch of three on a used client was not answered slot by slot", &ops);
                    verdict = "bad".into();
                }
            }
            "cancel" if kind != 0 => {
                let c = fresh(&mut next_c);
                s.call_v(h, c, r.below(NVARIANTS as u64) as usize, None);
                // wait until the request is at the server, abort, then its late answer
                let deadline = Instant::now() + call_watchdog();
                let mut seen = None;
                while Instant::now() < deadline && seen.is_none() {
                    match s.ev.recv_timeout(Duration::from_millis(20)) {
                        Ok(Event::Req(f)) if caller_of(&f) == Some(c) => seen = Some(f),
                        Ok(Event::Req(f)) => s.req_stash.push(f),
                        Ok(Event::Res(x, r)) => s.stash.push((x, r)),
                        _ => {}
                    }
                }
                let _ = s.abort(h, c);
                if let Some(f) = seen {
                    s.send(Cmd::Send(vec![response_v(f.h.id, false, c as i64, c as i64, variant_of(&f))]));
                }
            }
            "forward" if kind == 1 => {
                let c = fresh(&mut next_c);
                s.fwd(h, c, 1_000_000 + c as u64, None);
                let got = match s.req_or_res(c, 1_000_000 + c as u64) {
                    Ok(()) => { s.send(Cmd::Send(vec![response(1_000_000 + c as u64, false, c as i64, c as i64)])); s.res_of(c, call_watchdog()) }
                    Err(r) => r,
                };
                if own(&got, c as i64) != "own" {
                    out.oracle_fail(&format!("mux.{}.life.forward", kname), &format!("forward_message on a used client returned {}", own(&got, c as i64)), &ops);
                    verdict = "bad".into();
                }
            }
            "resubscribe" if kind == 2 => {
                if let Cl::W(w) = &s.cl {
                    // the first receiver stays alive the whole time: only the explicit unsubscribe may free the slot
                    let mut rx1 = w.subscribe_notifies().ok();
                    let second = w.subscribe_notifies().is_err(); // a live subscription is not replaced silently
                    s.send(Cmd::Send(vec![response(77, true, 501, -1)]));
                    let got1 = match rx1.as_mut() {
                        Some(rx) => h.rt.block_on(async { tokio::time::timeout(call_watchdog(), rx.recv()).await.ok().flatten() }),
                        None => None,
                    };
                    w.unsubscribe_notifies();
                    s.send(Cmd::Send(vec![response(77, true, 502, -1)])); // nobody listens: dropped
                    let rx2 = w.subscribe_notifies();
                    s.send(Cmd::Send(vec![response(77, true, 503, -1)]));
                    let got2 = rx2.ok().and_then(|mut rx| h.rt.block_on(async {
                        // the notifications now go to the new subscriber (502 may or may not have been dropped before it attached)
                        tokio::time::timeout(call_watchdog(), rx.recv()).await.ok().flatten()
                    }));
                    drop(rx1);
                    let t1 = got1.and_then(|m| serde_json::from_slice::<Value>(&m.body).ok()).and_then(|v| tag_of(&v));
                    let t2 = got2.and_then(|m| serde_json::from_slice::<Value>(&m.body).ok()).and_then(|v| tag_of(&v));
                    if !second || t1 != Some(501) || !(t2 == Some(503) || t2 == Some(502)) {
                        out.oracle_fail("mux.ws.life.resubscribe", &format!("subscribe / unsubscribe / subscribe with the first receiver still alive: second live subscribe refused = {}, first subscriber got {:?}, the subscriber registered after unsubscribe got {:?}", second, t1, t2), &ops);
                        verdict = "bad".into();
                    }
                    w.unsubscribe_notifies();
                }
            }
            "oversize" if kind == 2 => {
                // exactly at the assumed peer frame limit is sent, one byte more is refused; nothing sticks
                if let Cl::W(w) = s.cl.clone() {
                    let limit = w.limits().assumed_peer_frame_limit.unwrap_or(16 << 20);
                    let c = fresh(&mut next_c);
                    let path = vpath(c, 12);
                    let overhead = 48 + path.len();
                    for (extra, expect_refused) in [(0usize, false), (1, true)] {
                        let body = vec![b' '; limit - overhead + extra];
                        let p2 = path.clone();
                        let w2 = w.clone();
                        let tx = s.ev_tx.clone();
                        h.rt.spawn(async move {
                            let r = w2.call_with_formats(&p2, 1, Some(&body), 0).await.and_then(msg_to_value);
                            let _ = tx.send(Event::Res(c, r));
                        });
                        let got = serve_until(&mut s, c, 0, call_watchdog());
                        let refused = matches!(&got, Some(Err(RepeError::MessageTooLarge { .. })));
                        if refused != expect_refused || (!expect_refused && own(&got, c as i64) != "own") {
                            out.oracle_fail("mux.ws.life.oversize", &format!("request of limit{:+} bytes: refused = {}, result {}", extra as i64, refused, own(&got, c as i64)), &ops);
                            verdict = "bad".into();
                        }
                    }
                }
            }
            _ => continue,
        }
        out.count(&format!("mux.{}.life.step.{}", kname, step));
        check_served!(step);
    }
    out.case(&op, &format!("{} {}", idx, verdict), true);
    s.send(Cmd::Close);
}

/// Drop paths: calls in flight are abandoned (tasks aborted) and every handle of the client is dropped while
/// the peer has answered nothing. Nothing is asserted about the peer's view (the property does not speak
/// about it); the run must simply get through, and a fresh client must work afterwards.
fn run_drops_case(h: &H, out: &mut Out, idx: &str, kind: usize) {
    let kname = KINDS[kind];
    let op = format!("drops {} {}", idx, kind);
    out.begin(&op);
    if stop_now(out) {
        return;
    }
    if kind != 0 {
        if let Ok(mut s) = h.open(kind) {
            for c in 0..3 {
                s.call_v(h, c, c * 5, None);
            }
            let seen = s.read(3).is_ok();
            for c in 0..3 {
                let _ = s.abort(h, c);
            }
            let Session { cl, cmd, ev, .. } = s;
            drop(cl);
            let _ = cmd.send(Cmd::Read(1));
            let closed = matches!(ev.recv_timeout(Duration::from_millis(700)), Ok(Event::SrvErr(_)));
            out.count(&format!("mux.{}.drops.requests_seen.{}", kname, seen));
            out.count(&format!("mux.{}.drops.peer_saw_close.{}", kname, closed));
            let _ = cmd.send(Cmd::Close);
        }
    }
    // a fresh client afterwards
    let mut verdict = "ok";
    if let Ok(mut s) = h.open(kind) {
        s.send(Cmd::AutoRead);
        let _ = s.srv_done();
        s.call_v(h, 0, 3, None);
        if own(&serve_until(&mut s, 0, 0, call_watchdog()), 0) != "own" {
            out.oracle_fail(&format!("mux.{}.fresh_client_after_drops", kname), "a fresh client after dropped ones was not served", &[op.clone()]);
            verdict = "bad";
        }
        s.send(Cmd::Close);
    }
    out.case(&op, &format!("{} {}", idx, verdict), true);
}

fn permutations(n: usize) -> Vec<Vec<usize>> {
    fn go(cur: &mut Vec<usize>, used: &mut Vec<bool>, n: usize, out: &mut Vec<Vec<usize>>) {
        if cur.len() == n {
            out.push(cur.clone());
            return;
        }
        for i in 0..n {
            if !used[i] {
                used[i] = true;
                cur.push(i);
                go(cur, used, n, out);
                cur.pop();
                used[i] = false;
            }
        }
    }
    let mut out = Vec::new();
    go(&mut Vec::new(), &mut vec![false; n], n, &mut out);
    out
}

fn random_script(r: &mut Rng, n: usize) -> Vec<String> {
    let mut perm: Vec<usize> = (0..n).collect();
    r.shuffle(&mut perm);
    let mut script: Vec<String> = perm.iter().map(|c| format!("r{c}")).collect();
    let extras = match r.below(4) {
        0 => 0,
        1 => r.range(1, 3),
        _ => r.range(1, (n as u64 / 2).max(3)),
    };
    for _ in 0..extras {
        let pos = r.below(script.len() as u64 + 1) as usize;
        let t = match r.below(12) {
            10 | 11 => format!("b{}", r.below(10)),
            9 => format!("v{}", r.below(n.max(1) as u64)),
            8 => format!("e{}", r.below(50)),
            0 | 1 => format!("u{}", r.below(50)),
            2 => format!("x{}", r.below(50)),
            3 | 4 => format!("r{}", r.below(n.max(1) as u64)), // duplicate (or early second copy)
            _ => format!("n{}", r.below(n.max(1) as u64)),
        };
        if n == 0 && (t.starts_with('r') || t.starts_with('n') || t.starts_with('v')) {
            continue;
        }
        script.insert(pos, t);
    }
    script
}

fn gen_mux(args: &Args, r: &mut Rng) -> (Vec<MuxCase>, Vec<BatchCase>) {
    let mut cases = Vec::new();
    let max_exh = if args.thorough() { 6 } else { 4 };
    for kind in 0..3 {
        for n in 1..=max_exh {
            for p in permutations(n) {
                let mut script: Vec<String> = p.iter().map(|c| format!("r{c}")).collect();
                // every permutation is also run with one adversarial frame at a position derived from the PRNG
                if n >= 2 && r.chance(1, 2) && n <= 4 {
                    let pos = r.below(script.len() as u64 + 1) as usize;
                    let t = match r.below(5) {
                        4 => format!("e{}", r.below(9)),
                        0 => format!("u{}", r.below(9)),
                        1 => format!("r{}", r.below(n as u64)),
                        2 => format!("n{}", r.below(n as u64)),
                        _ => format!("x{}", r.below(9)),
                    };
                    script.insert(pos, t);
                }
                let vars = (0..n).map(|_| r.below(NVARIANTS as u64) as usize).collect();
                let frag = match r.below(6) { 0 | 1 => 1 + r.below(1 << 30), 2 if n <= 3 => ONE_BYTE | (1 + r.below(1 << 30)), _ => 0 };
                cases.push(MuxCase { kind, n, script, vars, frag });
            }
        }
        // every single insertion position of each adversarial kind for N = 2 (all orders)
        for p in permutations(2) {
            for t in ["u0", "u1", "u2", "u3", "e0", "x0", "x1", "n0", "n1", "r0", "r1", "v0", "v1", "b0", "b1", "b2", "b3", "b4", "b5", "b6", "b7", "b8", "b9"] {
                for pos in 0..=2 {
                    // the ten large-body sizes take one position each per order (quick); all three in thorough
                    if t.starts_with('b') && !args.thorough() && pos != (t[1..].parse::<usize>().unwrap() + p[0]) % 3 {
                        continue;
                    }
                    let mut script: Vec<String> = p.iter().map(|c| format!("r{c}")).collect();
                    script.insert(pos, t.to_string());
                    let vars = vec![r.below(NVARIANTS as u64) as usize, r.below(NVARIANTS as u64) as usize];
                    let frag = if r.chance(1, 3) { 1 + r.below(1 << 30) } else { 0 };
                    cases.push(MuxCase { kind, n: 2, script, vars, frag });
                }
            }
        }
        // bursts: all N responses in one write (they sit together in the reader's buffer), sizes around 32/64
        for n in [31usize, 32, 33, 34, 48, 63, 64] {
            let mut script: Vec<String> = (0..n).map(|c| format!("r{c}")).collect();
            if n % 2 == 0 {
                script.push("u0".into()); // odd script length = coalesced write (TCP clients)
            }
            let vars: Vec<usize> = (0..n).map(|c| c % NVARIANTS).collect();
            cases.push(MuxCase { kind, n, script: script.clone(), vars: vars.clone(), frag: 0 });
            script.reverse();
            cases.push(MuxCase { kind, n, script, vars, frag: 1 + r.below(1 << 30) });
        }
        let nrand = if args.thorough() { 1000 } else { 30 };
        for _ in 0..nrand {
            let n = match r.below(5) {
                0 => r.range(1, 4),
                1 | 2 => r.range(5, 16),
                3 => r.range(17, 40),
                _ => r.range(41, 64),
            } as usize;
            let vars = (0..n).map(|_| r.below(NVARIANTS as u64) as usize).collect();
            let frag = if r.chance(1, 2) { 1 + r.below(1 << 30) } else { 0 };
            cases.push(MuxCase { kind, n, script: random_script(r, n), vars, frag });
        }
    }
    let mut batches = Vec::new();
    let nb = if args.thorough() { 150 } else { 8 };
    for kind in 0..3 {
        // boundary sizes (around the 32/64 wave / worker-pool sizes and a large one), two servers each:
        // windowed out-of-order, and strictly newest-first within the window (order = [usize::MAX] -> "rev")
        for n in [1usize, 2, 31, 32, 33, 34, 63, 64, 65, 100] {
            let w = n.min(4);
            let order: Vec<usize> = (0..n).map(|_| r.below(4) as usize).collect();
            batches.push(BatchCase { kind, n, w, order });
            batches.push(BatchCase { kind, n, w, order: vec![usize::MAX] });
        }
        for i in 0..nb {
            let n = if i == 0 { 1 } else { r.range(2, if i % 2 == 0 { 12 } else { 40 }) as usize };
            let w = n.min(r.range(1, 4) as usize);
            let order: Vec<usize> = (0..n).map(|_| r.below(4) as usize).collect();
            batches.push(BatchCase { kind, n, w, order });
        }
    }
    (cases, batches)
}

// ---------------------------------------------------------------------------------------------
// family `deadconn`
// ---------------------------------------------------------------------------------------------
#[derive(Clone, Debug)]
struct DeadCase {
    kind: usize,
    n: usize,
    tmo: bool,
    answered: usize,
    fault: String,
    when: String,
    cut: usize,
}

fn malformed(fault: &str, id: u64) -> Vec<u8> {
    let mut parts = fault.split('.');
    let fault = parts.next().unwrap_or("");
    let nflag: u8 = parts.clone().find_map(|p| p.strip_prefix('n').and_then(|x| x.parse().ok())).unwrap_or(0);
    let mut f = RawFrame::request(id, false, 1, b"/t", 2, b"{\"tag\":0,\"c\":0}");
    f.h.notify = nflag;
    match fault {
        "badspec" => f.h.spec = 0x1234,
        "badlen" => f.h.length += 7,
        "shortlen" => f.h.length = 40,
        "hugelen" => {
            // self-consistent header declaring 2^60 body bytes (the declared size cannot be allocated)
            f.h.body_length = 1 << 60;
            f.h.length = 48 + f.h.query_length + (1 << 60);
        }
        _ => {}
    }
    let mut v = f.to_vec();
    if fault == "hugelen" {
        v.truncate(48 + 2); // header and query only; nothing follows, the socket stays open
    }
    if fault == "trailing" {
        v.extend_from_slice(b"zz");
    }
    if fault == "shortmsg" {
        v.truncate(20);
    }
    v
}

fn run_dead_case(h: &H, out: &mut Out, idx: &str, case: &DeadCase) {
    let kname = KINDS[case.kind];
    let op = format!("dead {} {} {} {} {} {} {} {}", idx, case.kind, case.n, case.tmo as u8, case.answered, case.fault, case.when, case.cut);
    out.begin(&op);
    if stop_now(out) {
        return;
    }
    let ops = [op.clone()];
    let mut s = match h.open(case.kind) {
        Ok(s) => s,
        Err(e) => {
            eprintln!("setup failed: {e}");
            out.count("deadconn.setup_failed");
            return;
        }
    };
    let want_sub = !case.fault.ends_with(".s0");
    let mut sub = match &s.cl {
        Cl::W(w) if want_sub => w.subscribe_notifies().ok(),
        _ => None,
    };
    let tmo = if case.tmo { Some(CALL_TIMEOUT) } else { None };
    for c in 0..case.n {
        if case.when == "before" {
            s.call(h, c, req_body(c), tmo);
        } else {
            // entry point derived from the case (replay-exact)
            s.call_v(h, c, (case.n * 7 + c * 3 + case.cut + case.answered) % NVARIANTS, tmo);
        }
    }
    let mut outcomes: Vec<String> = vec!["HANG".into(); case.n];
    let mut ids: Vec<u64> = vec![0; case.n];
    let mut machinery: Option<String> = None;
    if case.when == "before" {
        s.send(Cmd::WaitUnread(case.n * req_wire_len(case.kind)));
        if let Err(e) = s.srv_done() {
            machinery = Some(e);
        }
    } else {
        match s.read(case.n) {
            Ok(frames) => {
                for f in &frames {
                    if let Some(c) = caller_of(f) {
                        if c < case.n {
                            ids[c] = f.h.id;
                        }
                    }
                }
                let answers: Vec<Vec<u8>> = (0..case.answered).map(|c| response_v(ids[c], false, c as i64, c as i64, variant_for(case.kind, (case.n * 7 + c * 3 + case.cut + case.answered) % NVARIANTS))).collect();
                if !answers.is_empty() {
                    s.send(Cmd::Send(answers));
                    if let Err(e) = s.srv_done() {
                        machinery = Some(e);
                    }
                    // the answered callers return before the fault is injected
                    for _ in 0..case.answered {
                        match s.res(WATCHDOG) {
                            Some((c, Ok(v))) => outcomes[c] = if tag_of(&v) == Some(c as i64) { "own".into() } else { "other".into() },
                            Some((c, Err(e))) => outcomes[c] = cls(&e),
                            None => break,
                        }
                    }
                }
            }
            Err(e) => machinery = Some(e),
        }
    }
    if let Some(e) = machinery {
        out.oracle_fail(&format!("deadconn.{}.setup", kname), &format!("requests did not reach the server: {}", e), &ops);
        return;
    }
    // the fault
    let victim = ids.get(case.answered).copied().unwrap_or(77);
    match case.fault.split('.').next().unwrap_or("") {
        "close" => s.send(Cmd::Close),
        "reset" => s.send(Cmd::Reset),
        "wsclose" => s.send(Cmd::SendWsClose),
        "text" => s.send(Cmd::SendText),
        "hugeframe" => {
            // one unfragmented 17 MiB binary message (the default inbound frame limit is 16 MiB)
            let mut raw = ws_frame(0x82, &vec![0u8; 17 << 20]);
            raw.truncate(1 << 20); // the limit is enforced on the declared length; no need to send it all
            s.send(Cmd::SendRaw(raw));
        }
        "cut" => {
            let mut full = response(victim, false, 0, 0);
            if case.kind == 2 {
                // unmasked server-to-client binary frame header, then part of the payload
                let mut wsf = vec![0x82u8, full.len() as u8];
                wsf.append(&mut full);
                full = wsf;
            }
            let k = case.cut.min(full.len() - 1).max(1);
            s.send(Cmd::SendRaw(full[..k].to_vec()));
            let _ = s.srv_done();
            s.send(Cmd::Close);
        }
        _ => {
            let bytes = malformed(&case.fault, victim);
            if case.kind == 2 {
                s.send(Cmd::Send(vec![bytes]));
            } else {
                s.send(Cmd::SendRaw(bytes));
            }
        }
    }
    let _ = s.srv();
    // every in-flight call must return
    let pending_calls = outcomes.iter().filter(|o| *o == "HANG").count();
    for _ in 0..pending_calls {
        match s.res(call_watchdog()) {
            Some((c, Ok(v))) => outcomes[c] = if tag_of(&v) == Some(c as i64) { "own".into() } else { "other".into() },
            Some((c, Err(e))) => {
                out.count(&format!("deadconn.{}.errkind.{}", kname, io_kind(&e)));
                outcomes[c] = cls(&e)
            }
            None => break,
        }
    }
    for (c, o) in outcomes.iter().enumerate() {
        let expect_own = c < case.answered;
        if o == "HANG" {
            out.oracle_fail(&format!("deadconn.{}.inflight_hang", kname), &format!("call {} still blocked {:?} after fault {} ({} in flight)", c, call_watchdog(), case.fault, case.n), &ops);
            saw_hang();
        } else if expect_own && o != "own" {
            out.oracle_fail(&format!("deadconn.{}.answered_call_lost", kname), &format!("call {} was answered before the fault but returned {}", c, o), &ops);
        } else if !expect_own && o != "Err" {
            out.oracle_fail(&format!("deadconn.{}.inflight_not_error", kname), &format!("call {} returned {} although the connection failed before it was answered", c, o), &ops);
        }
    }
    // one more call
    let late = case.n;
    s.call(h, late, req_body(late), tmo);
    let later = match s.res(call_watchdog()) {
        Some((_, Ok(_))) => "own".to_string(),
        Some((_, Err(e))) => {
            out.count(&format!("deadconn.{}.later_errkind.{}", kname, io_kind(&e)));
            cls(&e)
        }
        None => "HANG".to_string(),
    };
    if later == "HANG" {
        out.oracle_fail(&format!("deadconn.{}.later_hang", kname), &format!("a call made after fault {} blocked for {:?}", case.fault, call_watchdog()), &ops);
        saw_hang();
    } else if later != "Err" {
        out.oracle_fail(&format!("deadconn.{}.later_not_error", kname), &format!("a call made after fault {} returned {}", case.fault, later), &ops);
    }
    // subscriber end-of-stream
    let sub_s = match sub.as_mut() {
        None => "-".to_string(),
        Some(rx) => {
            let wd = call_watchdog();
            let r = h.rt.block_on(async {
                loop {
                    match tokio::time::timeout(wd, rx.recv()).await {
                        Ok(Some(_)) => continue,
                        Ok(None) => return "eof",
                        Err(_) => return "open",
                    }
                }
            });
            if r != "eof" {
                out.oracle_fail("deadconn.ws.subscriber_open", &format!("notify subscriber saw no end-of-stream {:?} after fault {}", wd, case.fault), &ops);
                saw_hang();
            }
            r.to_string()
        }
    };
    out.count(&format!("deadconn.{}.fault.{}.{}", kname, case.fault, case.when));
    out.count(&format!("deadconn.inflight.{}", case.n));
    let outs = if outcomes.is_empty() { "-".to_string() } else { outcomes.join(",") };
    out.case(&op, &format!("{} outcomes {} later {} sub {}", idx, outs, later, sub_s), case.n > 0);
    s.send(Cmd::Close);
}

fn timed_out(r: &Result<Value, RepeError>) -> bool {
    matches!(r, Err(e) if cls(e) == "Timeout")
}

/// After a timed-out / cancelled call with id `id`: on the async client, `forward_message` with the
/// same id is refused (`AlreadyExists`) iff the entry was left behind.
fn residue_probe(h: &H, s: &mut Session, id: u64) -> Option<u64> {
    let Cl::A(cl) = s.cl.clone() else { return None };
    let tx = s.ev_tx.clone();
    let msg = Message::builder().id(id).query_str("/t").body_json(&json!({"c": 555})).ok()?.build();
    h.rt.spawn(async move {
        let r = cl.forward_message_with_timeout(&msg, CALL_TIMEOUT).await;
        let _ = tx.send(Event::Fwd(r));
    });
    // one Read is outstanding until the probe's request (or a filler request) arrives; every server
    // reply is consumed here so that the scripted server is idle again when we return
    s.send(Cmd::Read(1));
    let deadline = Instant::now() + WATCHDOG;
    let mut residue = None;
    let (mut need_frames, mut need_done, mut fwd_seen) = (true, false, false);
    while !(fwd_seen && !need_frames && !need_done) {
        let left = deadline.saturating_duration_since(Instant::now());
        match s.ev.recv_timeout(left) {
            Ok(Event::Frames(f)) => {
                need_frames = false;
                if f[0].h.id == id && caller_of(&f[0]) == Some(455) {
                    // the probe was written: answer it (inert if the probe already returned)
                    s.send(Cmd::Send(vec![response(f[0].h.id, false, 555, 555)]));
                    need_done = true;
                }
            }
            Ok(Event::Done) => need_done = false,
            Ok(Event::Fwd(r)) => {
                fwd_seen = true;
                residue = match r {
                    Ok(_) => Some(0),
                    Err(RepeError::Io(e)) if e.kind() == std::io::ErrorKind::AlreadyExists => Some(1),
                    Err(_) => None,
                };
                if residue == Some(1) && need_frames {
                    // refused before writing: feed the waiting Read a filler request
                    s.call(h, 900, req_body(900), Some(Duration::from_millis(50)));
                }
            }
            Ok(Event::Res(900, _)) => {}
            Ok(Event::Res(c, r)) => s.stash.push((c, r)),
            Ok(_) => {}
            Err(_) => break,
        }
    }
    // the filler's own result
    if residue == Some(1) {
        let t0 = Instant::now();
        while t0.elapsed() < Duration::from_secs(2) {
            match s.ev.recv_timeout(Duration::from_millis(100)) {
                Ok(Event::Res(900, _)) => break,
                Ok(Event::Res(c, r)) => s.stash.push((c, r)),
                _ => {}
            }
        }
    }
    residue
}

fn run_tmo_case(h: &H, out: &mut Out, idx: &str, kind: usize, mode: &str, jitter_ms: u64) {
    let kname = KINDS[kind];
    let op = format!("tmo {} {} {}", idx, kind, mode);
    out.begin(&op);
    if stop_now(out) {
        return;
    }
    let ops = [format!("{} jitter_ms={}", op, jitter_ms)];
    let Ok(mut s) = h.open(kind) else { return };
    // `late.<v>` / `zero.<v>` / `early.<v>`: through the `_with_timeout` twin of entry point <v>
    let (mode, via) = match mode.split_once('.') {
        Some((m, v)) => (m, v.parse::<usize>().ok()),
        None => (mode, None),
    };
    let zero = mode == "zero";
    let mode = if zero { "late" } else { mode };
    let t_short = if zero { Duration::ZERO } else { Duration::from_millis(if mode == "race" { 60 } else if via.is_some() { 40 } else { 150 }) };
    let t0 = Instant::now();
    match via {
        Some(v) => s.call_v(h, 0, v, Some(if mode == "early" { CALL_TIMEOUT } else { t_short })),
        None => s.call(h, 0, req_body(0), Some(if mode == "early" { CALL_TIMEOUT } else { t_short })),
    }
    let id0 = match s.read(1) {
        Ok(f) => f[0].h.id,
        Err(e) => {
            out.oracle_fail(&format!("deadconn.{}.setup", kname), &e, &ops);
            return;
        }
    };
    let mut first_res = None;
    match mode {
        "late" => {
            // the response is held back until the caller has reported the timeout
            first_res = s.res(WATCHDOG);
            s.send(Cmd::Send(vec![response_q(id0, false, 0, 0, 1 + jitter_ms as usize)]));
            let _ = s.srv_done();
        }
        "early" => {
            s.send(Cmd::Send(vec![response_v(id0, false, 0, 0, via.map(|v| variant_for(kind, v)).unwrap_or(0))]));
            let _ = s.srv_done();
        }
        _ => {
            let target = t_short.saturating_sub(Duration::from_millis(3)) + Duration::from_micros(jitter_ms * 250);
            let wait = target.saturating_sub(t0.elapsed());
            s.send(Cmd::Sleep(wait));
            let _ = s.srv_done();
            s.send(Cmd::Send(vec![response(id0, false, 0, 0)]));
            let _ = s.srv_done();
        }
    }
    if first_res.is_none() {
        first_res = s.res(WATCHDOG);
    }
    let first = match &first_res {
        None => "HANG".to_string(),
        Some((_, r)) if timed_out(r) => "Timeout".into(),
        Some((_, Ok(v))) if tag_of(v) == Some(0) => "own".into(),
        Some((_, Ok(_))) => "other".into(),
        Some((_, Err(_))) => "Err".into(),
    };
    out.count(&format!("deadconn.{}.tmo.{}.{}", kname, mode, first));
    let first_ok = match mode {
        "late" => first == "Timeout",
        "early" => first == "own",
        _ => first == "Timeout" || first == "own",
    };
    if first == "HANG" {
        out.oracle_fail(&format!("deadconn.{}.timeout_hang", kname), "a call with a timeout did not return", &ops);
    } else if !first_ok {
        out.oracle_fail(&format!("deadconn.{}.timeout_outcome", kname), &format!("mode {}: call returned {}", mode, first), &ops);
    }
    // residue (async client: exact probe) and the client keeps serving
    let mut residue = None;
    if first == "Timeout" {
        residue = residue_probe(h, &mut s, id0);
        if residue == Some(1) {
            out.oracle_fail(&format!("deadconn.{}.timeout_residue", kname), &format!("pending entry of timed-out request {} is still registered", id0), &ops);
        }
    }
    let next = next_call(h, &mut s, out, kname, &ops, "timeout");
    let first_obs = if mode == "race" && first_ok { "racy".to_string() } else { first };
    let _ = residue;
    out.case(&op, &format!("{} first {} next {}", idx, first_obs, next), true);
    s.send(Cmd::Close);
}

/// One more call on the same client, answered by the server: must return its own reply.
fn next_call(h: &H, s: &mut Session, out: &mut Out, kname: &str, ops: &[String], after: &str) -> String {
    s.call(h, 1, req_body(1), None);
    let r = loop {
        match s.read(1) {
            Ok(f) => {
                if caller_of(&f[0]) != Some(1) {
                    continue; // a request of an abandoned call that was already on its way
                }
                s.send(Cmd::Send(vec![response(f[0].h.id, false, 1, 1)]));
                let _ = s.srv_done();
                break loop {
                    match s.res(call_watchdog()) {
                        Some((1, r)) => break Some((1, r)),
                        Some(_) => continue,
                        None => break None,
                    }
                };
            }
            Err(_) => break s.res(Duration::from_millis(200)),
        }
    };
    let next = match r {
        None => "HANG".to_string(),
        Some((_, Ok(v))) if tag_of(&v) == Some(1) => "own".into(),
        Some((_, Ok(_))) => "other".into(),
        Some((_, Err(e))) => cls(&e),
    };
    if next != "own" {
        out.oracle_fail(&format!("deadconn.{}.next_call_after_{}", kname, after), &format!("the call after a {} returned {}", after, next), ops);
    }
    next
}

fn run_cancel_case(h: &H, out: &mut Out, idx: &str, kind: usize, mode: &str) {
    let kname = KINDS[kind];
    let op = format!("cancel {} {} {}", idx, kind, mode);
    out.begin(&op);
    if stop_now(out) {
        return;
    }
    let ops = [op.clone()];
    let Ok(mut s) = h.open(kind) else { return };
    let mut residue: Option<u64> = None;
    let cancelled;
    if mode == "wait" {
        s.call(h, 0, req_body(0), None);
        let id0 = match s.read(1) {
            Ok(f) => f[0].h.id,
            Err(e) => {
                out.oracle_fail(&format!("deadconn.{}.setup", kname), &e, &ops);
                return;
            }
        };
        cancelled = s.abort(h, 0);
        residue = residue_probe(h, &mut s, id0);
        // the late response of the cancelled call (echoing a long non-ASCII query)
        s.send(Cmd::Send(vec![response_q(id0, false, 0, 0, 2)]));
        let _ = s.srv_done();
    } else {
        // a big call stalls in `write` (the server is not reading) and holds the writer lock;
        // the victim registers and waits for the lock; it is cancelled there
        let pad = "x".repeat(12 << 20);
        s.call(h, 7, json!({"c": 107, "pad": pad}), None);
        s.send(Cmd::WaitUnread(1 << 16));
        if let Err(e) = s.srv_done() {
            out.oracle_fail(&format!("deadconn.{}.setup", kname), &e, &ops);
            return;
        }
        s.call(h, 0, req_body(0), None);
        std::thread::sleep(Duration::from_millis(150));
        cancelled = s.abort(h, 0);
        // ids are consecutive from 1 on a fresh connection: the victim's id is 2 if it got that far
        if kind == 1 {
            // cannot probe while the writer is stalled; drain the big request first
        }
        match s.read(1) {
            Ok(f) => {
                s.send(Cmd::Send(vec![response(f[0].h.id, false, 7, 7)]));
                let _ = s.srv_done();
                match s.res(WATCHDOG) {
                    Some((7, Ok(_))) => {}
                    other => {
                        out.oracle_fail(&format!("deadconn.{}.stalled_call_lost", kname), &format!("the big call did not complete: {:?}", other.map(|x| x.1.map(|_| ()).map_err(|e| e.to_string()))), &ops);
                    }
                }
                if kind == 1 {
                    residue = residue_probe(h, &mut s, f[0].h.id + 1);
                }
            }
            Err(e) => {
                out.oracle_fail(&format!("deadconn.{}.setup", kname), &e, &ops);
                return;
            }
        }
    }
    if !cancelled {
        out.count("deadconn.cancel.not_cancelled");
    }
    if residue == Some(1) {
        out.oracle_fail(&format!("deadconn.{}.cancel_residue", kname), &format!("pending entry of the cancelled call ({}) is still registered", mode), &ops);
    }
    let next = next_call(h, &mut s, out, kname, &ops, "cancel");
    out.count(&format!("deadconn.{}.cancel.{}", kname, mode));
    out.case(&op, &format!("{} {} next {} residue {}", idx, if cancelled { "cancelled" } else { "not-cancelled" }, next, residue.unwrap_or(0)), true);
    s.send(Cmd::Close);
}

/// A caller is stalled inside `write_request` (the peer stopped reading, a 12 MiB request fills the
/// socket buffers) and so holds the writer lock; the peer then delivers a malformed frame / closes
/// its sending direction.  The other in-flight call must still be failed.
fn run_stall_case(h: &H, out: &mut Out, idx: &str, kind: usize, fault: &str) {
    let kname = KINDS[kind];
    let op = format!("stall {} {} {}", idx, kind, fault);
    out.begin(&op);
    if stop_now(out) {
        return;
    }
    let ops = [op.clone()];
    let Ok(mut s) = h.open(kind) else { return };
    // WebSocket: a subscriber that has already received pushes when the failure happens
    let mut sub = match &s.cl {
        Cl::W(w) => w.subscribe_notifies().ok(),
        _ => None,
    };
    if let Some(rx) = sub.as_mut() {
        s.send(Cmd::Send(vec![response(90, true, 1, -1), response(91, true, 2, -1)]));
        let _ = s.srv_done();
        let got = h.rt.block_on(async {
            let mut n = 0;
            while n < 2 {
                match tokio::time::timeout(call_watchdog(), rx.recv()).await {
                    Ok(Some(_)) => n += 1,
                    _ => break,
                }
            }
            n
        });
        if got != 2 {
            out.oracle_fail("deadconn.ws.pushes_lost", &format!("the subscriber received {} of 2 pushes", got), &ops);
        }
    }
    // A: small, written, never answered
    s.call(h, 0, req_body(0), None);
    s.send(Cmd::WaitUnread(req_wire_len(kind)));
    if let Err(e) = s.srv_done() {
        out.oracle_fail(&format!("deadconn.{}.setup", kname), &e, &ops);
        return;
    }
    // B: stalls in write
    let pad = "x".repeat(12 << 20);
    s.call(h, 7, json!({"c": 107, "pad": pad}), None);
    s.send(Cmd::WaitUnread(req_wire_len(kind) + (1 << 16)));
    if let Err(e) = s.srv_done() {
        out.oracle_fail(&format!("deadconn.{}.setup", kname), &e, &ops);
        return;
    }
    std::thread::sleep(Duration::from_millis(100));
    // the fault, while the peer keeps the connection open and does not read
    let bytes = malformed(fault, 1);
    if kind == 2 {
        s.send(Cmd::Send(vec![bytes]));
    } else {
        s.send(Cmd::SendRaw(bytes));
    }
    let _ = s.srv_done();
    let wd = Duration::from_secs(6);
    let mut a = "HANG".to_string();
    let mut b = "HANG".to_string();
    let t0 = Instant::now();
    while t0.elapsed() < wd && (a == "HANG") {
        match s.res(wd.saturating_sub(t0.elapsed())) {
            Some((0, r)) => a = match r { Ok(_) => "own".into(), Err(e) => cls(&e) },
            Some((7, r)) => b = match r { Ok(_) => "own".into(), Err(e) => cls(&e) },
            Some(_) => {}
            None => break,
        }
    }
    if a == "HANG" {
        out.oracle_fail(&format!("deadconn.{}.stalled_writer_blocks_failure", kname), &format!("the peer sent a malformed frame ({}) while another caller was stalled in write (peer not reading): the in-flight call was not failed within {:?}", fault, wd), &ops);
    }
    // the subscriber's stream ends although the writer is still stalled and the socket still up
    if let Some(rx) = sub.as_mut() {
        let r = h.rt.block_on(async {
            loop {
                match tokio::time::timeout(wd, rx.recv()).await {
                    Ok(Some(_)) => continue,
                    Ok(None) => return true,
                    Err(_) => return false,
                }
            }
        });
        if !r {
            out.oracle_fail("deadconn.ws.subscriber_open", &format!("the connection failed (malformed frame {}, writer stalled, socket kept open) but a subscriber that had received pushes saw no end-of-stream within {:?}", fault, wd), &ops);
            saw_hang();
        }
    }
    // the blocking client shuts the socket down outside the writer mutex: that must also release the
    // call that is stalled inside `write`, while the peer still keeps the socket open
    if kind == 0 && a != "HANG" && b == "HANG" {
        let t = Instant::now();
        while t.elapsed() < wd && b == "HANG" {
            match s.res(wd.saturating_sub(t.elapsed())) {
                Some((7, r)) => b = match r { Ok(_) => "own".into(), Err(e) => cls(&e) },
                Some(_) => {}
                None => break,
            }
        }
        if b == "HANG" {
            out.oracle_fail("deadconn.blocking.stalled_call_not_released", &format!("the connection failed (malformed frame {}) but the call stalled inside write did not return within {:?} while the peer kept the socket open", fault, wd), &ops);
            saw_hang();
        }
    }
    // a later call on the failed connection returns an error (all clients: it is refused or its write
    // fails; it must not queue behind the stalled writer for ever)
    let mut later = "-".to_string();
    if a != "HANG" && (kind != 0 || b != "HANG") {
        s.call(h, 1, req_body(1), None);
        let t = Instant::now();
        later = "HANG".into();
        while t.elapsed() < wd && later == "HANG" {
            match s.res(wd.saturating_sub(t.elapsed())) {
                Some((1, r)) => later = match r { Ok(_) => "own".into(), Err(e) => cls(&e) },
                Some((7, r)) => b = match r { Ok(_) => "own".into(), Err(e) => cls(&e) },
                Some(_) => {}
                None => break,
            }
        }
        if later == "HANG" && kind != 0 {
            // async / ws: a later call is refused at registration, before it could queue on the writer mutex
            out.oracle_fail(&format!("deadconn.{}.later_hang", kname), &format!("a call made after the failure (writer still stalled) did not return within {:?}", wd), &ops);
            saw_hang();
        } else if later == "HANG" {
            out.oracle_fail("deadconn.blocking.later_hang", &format!("a call made after the failure did not return within {:?} (blocked behind the stalled writer)", wd), &ops);
            saw_hang();
        }
    }
    // release: the peer goes away; now everything must return
    s.send(Cmd::Reset);
    let _ = s.srv();
    let t1 = Instant::now();
    while t1.elapsed() < WATCHDOG && (a == "HANG" || b == "HANG") {
        match s.res(WATCHDOG.saturating_sub(t1.elapsed())) {
            Some((0, r)) => a = match r { Ok(_) => "own".into(), Err(e) => format!("late-{}", cls(&e)) },
            Some((7, r)) => b = match r { Ok(_) => "own".into(), Err(e) => cls(&e) },
            Some(_) => {}
            None => break,
        }
    }
    if a == "HANG" || b == "HANG" {
        out.oracle_fail(&format!("deadconn.{}.inflight_hang", kname), &format!("calls still blocked after the peer reset the connection: small={} big={}", a, b), &ops);
    }
    out.count(&format!("deadconn.{}.stall.{}", kname, a));
    out.case(&op, &format!("{} small {} big {} later {}", idx, if a.starts_with("late-") { "Err" } else { a.as_str() }, b, later), true);
}


/// Seed C06-A's window: an async call is aborted while its large body write is parked (the peer is not
/// reading), so part of a frame is on the wire. Whatever the client then does with the connection, the
/// next call (no per-call timeout) must return — a response or an error — and never hang.
fn run_abandon_case(h: &H, out: &mut Out, idx: &str, kind: usize, mib: usize) {
    let kname = KINDS[kind];
    let op = format!("abandon {} {} {}", idx, kind, mib);
    out.begin(&op);
    if stop_now(out) {
        return;
    }
    let ops = [op.clone()];
    let Ok(mut s) = h.open(kind) else { return };
    let pad = "x".repeat(mib << 20);
    s.call(h, 7, json!({"c": 107, "pad": pad}), None);
    s.send(Cmd::WaitUnread(1 << 16));
    if let Err(e) = s.srv_done() {
        out.oracle_fail(&format!("deadconn.{}.setup", kname), &e, &ops);
        return;
    }
    std::thread::sleep(Duration::from_millis(100));
    let cancelled = s.abort(h, 7);
    // the peer resumes reading and answers every whole request it sees
    s.send(Cmd::AutoRead);
    let _ = s.srv_done();
    s.call(h, 1, req_body(1), None);
    let deadline = Instant::now() + call_watchdog();
    let mut next = "HANG".to_string();
    while Instant::now() < deadline {
        match s.ev.recv_timeout(Duration::from_millis(20)) {
            Ok(Event::Req(f)) => {
                if let Some(c) = caller_of(&f) {
                    s.send(Cmd::Send(vec![response(f.h.id, false, c as i64, c as i64)]));
                }
            }
            Ok(Event::Res(1, r)) => {
                next = match r {
                    Ok(v) if tag_of(&v) == Some(1) => "own".into(),
                    Ok(_) => "other".into(),
                    Err(e) => {
                        out.count(&format!("deadconn.{}.abandon.next.{}", kname, io_kind(&e)));
                        "Err".into()
                    }
                };
                break;
            }
            _ => {}
        }
    }
    if next == "HANG" {
        out.oracle_fail(&format!("deadconn.{}.next_call_hangs_after_abandoned_write", kname), &format!("a {} MiB call was aborted while its write was parked (peer not reading); the next call, made without a timeout after the peer resumed reading, did not return within {:?}", mib, call_watchdog()), &ops);
        saw_hang();
    } else if next == "other" {
        out.oracle_fail(&format!("deadconn.{}.next_call_after_abandoned_write_wrong", kname), "the next call returned another call's response", &ops);
    }
    if !cancelled {
        out.count("deadconn.abandon.not_cancelled");
    }
    out.count(&format!("deadconn.{}.abandon.{}", kname, next));
    out.case(&op, &format!("{} next {}", idx, if next == "HANG" { "HANG" } else { "returned" }), true);
    s.send(Cmd::Close);
}

/// Seed C06-C's window: blocking client with a write timeout, `n` small calls in flight and unanswered,
/// then a large call whose write times out mid-frame against a peer that neither reads nor closes.
/// Every call in flight must return an error while the peer stays silent and keeps the socket open.
fn run_wtmo_case(h: &H, out: &mut Out, idx: &str, n: usize, mib: usize) {
    let kname = KINDS[0];
    let op = format!("wtmo {} 0 {} {}", idx, n, mib);
    out.begin(&op);
    if stop_now(out) {
        return;
    }
    let ops = [op.clone()];
    let Ok(mut s) = h.open(0) else { return };
    if let Cl::B(cl) = &s.cl {
        let _ = cl.set_write_timeout(Some(Duration::from_millis(150)));
    }
    for c in 0..n {
        s.call(h, c, req_body(c), None);
    }
    s.send(Cmd::WaitUnread(n * req_wire_len(0)));
    if let Err(e) = s.srv_done() {
        out.oracle_fail(&format!("deadconn.{}.setup", kname), &e, &ops);
        return;
    }
    let pad = "x".repeat(mib << 20);
    s.call(h, 7, json!({"c": 107, "pad": pad}), None);
    let mut small: Vec<String> = vec!["HANG".into(); n];
    let mut big = "HANG".to_string();
    let deadline = Instant::now() + call_watchdog();
    while Instant::now() < deadline && (big == "HANG" || small.iter().any(|x| x == "HANG")) {
        match s.res(deadline.saturating_duration_since(Instant::now())) {
            Some((7, r)) => big = match r { Ok(_) => "own".into(), Err(_) => "Err".into() },
            Some((c, r)) if c < n => small[c] = match r { Ok(_) => "own".into(), Err(_) => "Err".into() },
            Some(_) => {}
            None => break,
        }
    }
    if big == "HANG" {
        out.oracle_fail(&format!("deadconn.{}.write_timeout_hang", kname), "the large call did not return although a write timeout is configured", &ops);
        saw_hang();
    }
    if small.iter().any(|x| x != "Err") {
        out.oracle_fail(&format!("deadconn.{}.inflight_hang_after_write_timeout", kname), &format!("a request write timed out mid-frame (peer silent, socket open): in-flight calls ended {:?} instead of all returning an error within {:?}", small, call_watchdog()), &ops);
        if small.iter().any(|x| x == "HANG") {
            saw_hang();
        }
    }
    out.count(&format!("deadconn.{}.wtmo", kname));
    out.case(&op, &format!("{} small {} big {}", idx, small.join(","), big), true);
    s.send(Cmd::Close);
}


/// `k` frames nobody waits for arrive back to back — late responses of timed-out calls, unknown ids, or
/// duplicates of an answered call — while one call is still pending; then that call's reply, then a
/// later call. Nothing but the pending call's own reply may affect it.
/// Consume the reply of the last `Send`/`SendRaw` if one is outstanding.
fn strays_sent_guard(s: &mut Session) -> bool {
    s.srv_done().is_ok()
}
fn run_lates_case(h: &H, out: &mut Out, idx: &str, kind: usize, k: usize, shape: &str) {
    run_lates_case_in(h, out, "deadconn", idx, kind, k, shape)
}
fn run_lates_case_in(h: &H, out: &mut Out, fam: &str, idx: &str, kind: usize, k: usize, shape: &str) {
    let kname_s = format!("{}", KINDS[kind]);
    let kname = kname_s.as_str();
    let op = format!("{} {} {} {} {}", if fam == "mux" { "mlates" } else { "lates" }, idx, kind, k, shape);
    out.begin(&op);
    if stop_now(out) {
        return;
    }
    let ops = [op.clone()];
    let Ok(mut s) = h.open(kind) else { return };
    s.send(Cmd::AutoRead);
    let _ = s.srv_done();
    // wait for the request of caller `c`
    fn req_of(s: &mut Session, c: usize) -> Option<RawFrame> {
        let deadline = Instant::now() + call_watchdog();
        loop {
            if let Some(p) = s.req_stash.iter().position(|f| caller_of(f) == Some(c)) {
                return Some(s.req_stash.remove(p));
            }
            match s.ev.recv_timeout(deadline.saturating_duration_since(Instant::now())) {
                Ok(Event::Req(f)) => s.req_stash.push(f),
                Ok(Event::Res(x, r)) => s.stash.push((x, r)),
                Ok(e) => s.srv_stash.push_back(e),
                Err(_) => return None,
            }
        }
    }
    let v0 = (k * 3 + kind) % NVARIANTS;
    s.call_v(h, 0, v0, None);
    let Some(p) = req_of(&mut s, 0) else {
        out.oracle_fail(&format!("{}.{}.setup", fam, kname), "pending call's request not seen", &ops);
        return;
    };
    let mut strays: Vec<Vec<u8>> = Vec::new();
    match shape {
        "late" => {
            for c in 1..=k {
                s.call_v(h, c, (c * 7) % NVARIANTS, Some(Duration::from_millis(30)));
            }
            for c in 1..=k {
                let Some(f) = req_of(&mut s, c) else {
                    out.oracle_fail(&format!("{}.{}.setup", fam, kname), &format!("request of call {} not seen", c), &ops);
                    return;
                };
                // every fourth late answer is a large one
                strays.push(if c % 4 == 0 { stray_response(f.h.id, 8 + c % 2) } else { response_v(f.h.id, false, c as i64, c as i64, variant_of(&f)) });
            }
            for c in 1..=k {
                let r = s.res_of(c, call_watchdog());
                if !matches!(&r, Some(Err(e)) if cls(e) == "Timeout") {
                    out.oracle_fail(&format!("{}.{}.timeout_outcome", fam, kname), &format!("unanswered call {} with a 30 ms timeout returned {}", c, own(&r, c as i64)), &ops);
                }
            }
        }
        "cancel" if kind != 0 => {
            // k calls aborted while waiting; their answers arrive afterwards, in a row
            for c in 1..=k {
                s.call_v(h, c, (c * 5) % NVARIANTS, None);
            }
            for c in 1..=k {
                let Some(f) = req_of(&mut s, c) else { return };
                strays.push(response_v(f.h.id, false, c as i64, c as i64, variant_of(&f)));
            }
            for c in 1..=k {
                let _ = s.abort(h, c);
            }
        }
        "errs" => {
            // k calls each answered with an error frame (their own id, ec 7), in a row: each fails alone
            for c in 1..=k {
                s.call_v(h, c, (c * 3) % NVARIANTS, None);
            }
            let mut errs = Vec::new();
            for c in 1..=k {
                let Some(f) = req_of(&mut s, c) else { return };
                errs.push(swept_error_response(f.h.id, c));
            }
            if kind == 2 { s.send(Cmd::Send(errs)); } else { s.send(Cmd::SendRaw(errs.concat())); }
            let _ = s.srv_done();
            for c in 1..=k {
                let r = s.res_of(c, call_watchdog());
                if !matches!(&r, Some(Err(RepeError::ServerError { .. }))) {
                    out.oracle_fail(&format!("{}.{}.error_response_outcome", fam, kname), &format!("call {} answered with an error frame returned {}", c, own(&r, c as i64)), &ops);
                }
            }
        }
        "push" if kind == 2 => {
            // k server pushes in a row (a subscriber is listening): all delivered, in order
            for j in 0..k {
                strays.push(response(3_000_000_000 + j as u64, true, j as i64, -1));
            }
        }
        "dup" => {
            s.call_v(h, 1, 0, None);
            let Some(f) = req_of(&mut s, 1) else { return };
            s.send(Cmd::Send(vec![response_v(f.h.id, false, 1, 1, 0)]));
            let r = s.res_of(1, call_watchdog());
            if own(&r, 1) != "own" {
                out.oracle_fail(&format!("{}.{}.setup", fam, kname), &format!("answered call returned {}", own(&r, 1)), &ops);
            }
            for j in 0..k {
                strays.push(if j % 4 == 3 { stray_response(f.h.id, 8) } else { response_v(f.h.id, false, 1, 1, 0) });
            }
        }
        _ => {
            for j in 0..k {
                strays.push(if j % 3 == 2 { stray_response(2_000_000_000 + j as u64, j) } else { response_q(2_000_000_000 + j as u64, false, -1, -1, j) });
            }
        }
    }
    let mut sub = match (&s.cl, shape) {
        (Cl::W(w), "push") => w.subscribe_notifies().ok(),
        _ => None,
    };
    // back to back, nothing matched in between
    if !strays.is_empty() {
        if kind == 2 {
            s.send(Cmd::Send(strays));
        } else {
            s.send(Cmd::SendRaw(strays.concat()));
        }
        let _ = strays_sent_guard(&mut s);
    }
    if let Some(rx) = sub.as_mut() {
        let want: Vec<i64> = (0..k as i64).collect();
        let got = h.rt.block_on(async {
            let mut v = Vec::new();
            while v.len() < k {
                match tokio::time::timeout(call_watchdog(), rx.recv()).await {
                    Ok(Some(m)) => v.push(serde_json::from_slice::<Value>(&m.body).ok().and_then(|x| tag_of(&x)).unwrap_or(-2)),
                    _ => break,
                }
            }
            v
        });
        if got != want {
            out.oracle_fail(&format!("{}.{}.pushes_lost", fam, kname), &format!("{} pushes in a row: the subscriber saw {} of them ({:?}…)", k, got.len(), &got[..got.len().min(5)]), &ops);
        }
    }
    s.send(Cmd::Send(vec![response_v(p.h.id, false, 0, 0, variant_of(&p))]));
    let r = s.res_of(0, call_watchdog());
    let pending = own(&r, 0);
    if pending != "own" {
        out.oracle_fail(&format!("{}.{}.pending_call_hit_by_unawaited_frames", fam, kname), &format!("{} {} frames in a row that nobody waited for, then the pending call's reply: it returned {}", k, shape, pending), &ops);
        if pending == "HANG" { saw_hang(); }
    }
    let late = k + 2;
    s.call_v(h, late, 1, None);
    let later = match req_of(&mut s, late) {
        Some(f) => {
            s.send(Cmd::Send(vec![response_v(f.h.id, false, late as i64, late as i64, variant_of(&f))]));
            own(&s.res_of(late, call_watchdog()), late as i64)
        }
        None => own(&s.res_of(late, Duration::from_millis(200)), late as i64),
    };
    if later != "own" {
        out.oracle_fail(&format!("{}.{}.later_call_after_unawaited_frames", fam, kname), &format!("after {} {} frames in a row a later call returned {}", k, shape, later), &ops);
        if later == "HANG" { saw_hang(); }
    }
    out.count(&format!("{}.{}.lates.{}", fam, kname, shape));
    let canon = |x: &str| if x == "own" { "own".to_string() } else if x == "HANG" { "HANG".to_string() } else { "Err".to_string() };
    out.case(&op, &format!("{} pending {} later {}", idx, canon(&pending), canon(&later)), true);
    s.send(Cmd::Close);
}

/// Seed C06-S's window: a batch with a per-entry timeout and more entries than batch workers; the peer is
/// silent for longer than the timeout, then answers whatever arrives. On a healthy connection every entry
/// ends as its own answer or as a timeout of its own — never as a connection error because ANOTHER entry
/// timed out.
fn run_batchtmo_case(h: &H, out: &mut Out, idx: &str, kind: usize, n: usize) {
    let kname = KINDS[kind];
    let op = format!("batchtmo {} {} {}", idx, kind, n);
    out.begin(&op);
    if stop_now(out) {
        return;
    }
    let ops = [op.clone()];
    let Ok(mut s) = h.open(kind) else { return };
    s.send(Cmd::AutoRead);
    let _ = s.srv_done();
    let reqs: Vec<(String, Value)> = (0..n).map(|j| (vpath(j, 0), req_body(j))).collect();
    let (btx, brx) = smpsc::channel::<Vec<Result<Value, RepeError>>>();
    let t = Duration::from_millis(150);
    match s.cl.clone() {
        Cl::B(cl) => { std::thread::spawn(move || { let _ = btx.send(cl.batch_json_with_timeout(reqs, t)); }); }
        Cl::A(cl) => { h.rt.spawn(async move { let _ = btx.send(cl.batch_json_with_timeout(reqs, t).await); }); }
        Cl::W(cl) => { h.rt.spawn(async move { let _ = btx.send(cl.batch_json_with_timeout(reqs, t).await); }); }
    }
    // silent for 400 ms after the first request, then every request that arrives is answered at once
    let mut first: Option<Instant> = None;
    let mut held: Vec<RawFrame> = Vec::new();
    let deadline = Instant::now() + call_watchdog() + Duration::from_secs(5);
    let mut res = None;
    while Instant::now() < deadline && res.is_none() {
        if let Ok(x) = brx.try_recv() {
            res = Some(x);
            break;
        }
        let silent = first.map(|f| f.elapsed() < Duration::from_millis(400)).unwrap_or(true);
        if !silent && !held.is_empty() {
            // late answers to the entries that have timed out meanwhile: inert
            let late: Vec<Vec<u8>> = held.drain(..).map(|f| { let c = caller_of(&f).unwrap_or(0); response_v(f.h.id, false, c as i64, c as i64, 0) }).collect();
            s.send(Cmd::Send(late));
        }
        match s.ev.recv_timeout(Duration::from_millis(10)) {
            Ok(Event::Req(f)) if f.h.notify == 0 => {
                if first.is_none() { first = Some(Instant::now()); }
                if first.unwrap().elapsed() < Duration::from_millis(400) {
                    held.push(f);
                } else {
                    let c = caller_of(&f).unwrap_or(0);
                    s.send(Cmd::Send(vec![response_v(f.h.id, false, c as i64, c as i64, 0)]));
                }
            }
            _ => {}
        }
    }
    let (mut owns, mut tmos, mut bad) = (0usize, 0usize, Vec::new());
    match &res {
        None => {
            out.oracle_fail(&format!("deadconn.{}.batch_hang", kname), "batch_json_with_timeout did not return", &ops);
            saw_hang();
        }
        Some(v) => {
            for (j, r) in v.iter().enumerate() {
                match r {
                    Ok(val) if tag_of(val) == Some(j as i64) => owns += 1,
                    Err(e) if cls(e) == "Timeout" => tmos += 1,
                    Ok(val) => bad.push(format!("slot {} holds tag {:?}", j, tag_of(val))),
                    Err(e) => bad.push(format!("slot {}: {}", j, io_kind(e))),
                }
            }
            if v.len() != n || !bad.is_empty() {
                out.oracle_fail(&format!("deadconn.{}.batch_entry_failed_on_healthy_connection", kname), &format!("batch of {} with a 150 ms per-entry timeout against a peer that was silent for 400 ms and then answered: {} own, {} timed out, and {} entries ended otherwise: {:?}", n, owns, tmos, bad.len(), &bad[..bad.len().min(4)]), &ops);
            }
        }
    }
    out.count(&format!("deadconn.{}.batchtmo.{}", kname, if owns > 0 && tmos > 0 { "mixed" } else if tmos > 0 { "all_timed_out" } else { "all_own" }));
    out.case(&op, &format!("{} {}", idx, if res.is_some() && bad.is_empty() { "ok" } else { "bad" }), true);
    s.send(Cmd::Close);
}

/// Two knobs at once (blocking client): a short write timeout is configured and the calls carry a generous
/// per-call timeout; the peer answers later than the write timeout is long. The write timeout is about
/// writes only: the calls get their answers.
fn run_knobs_case(h: &H, out: &mut Out, idx: &str, n: usize) {
    let op = format!("knobs {} 0 {}", idx, n);
    out.begin(&op);
    if stop_now(out) {
        return;
    }
    let ops = [op.clone()];
    let Ok(mut s) = h.open(0) else { return };
    if let Cl::B(cl) = &s.cl {
        let _ = cl.set_write_timeout(Some(Duration::from_millis(100)));
    }
    s.send(Cmd::AutoRead);
    let _ = s.srv_done();
    for c in 0..n {
        s.call_v(h, c, c * 2, Some(CALL_TIMEOUT));
    }
    // collect the requests, answer them 300 ms later
    let t0 = Instant::now();
    let mut reqs: Vec<RawFrame> = Vec::new();
    while reqs.len() < n && t0.elapsed() < call_watchdog() {
        match s.ev.recv_timeout(Duration::from_millis(20)) {
            Ok(Event::Req(f)) => reqs.push(f),
            Ok(Event::Res(x, r)) => s.stash.push((x, r)),
            _ => {}
        }
    }
    std::thread::sleep(Duration::from_millis(300));
    let answers: Vec<Vec<u8>> = reqs.iter().map(|f| { let c = caller_of(f).unwrap_or(0); response_v(f.h.id, false, c as i64, c as i64, variant_of(f)) }).collect();
    s.send(Cmd::Send(answers));
    let mut verdict = "ok";
    for c in 0..n {
        let r = s.res_of(c, call_watchdog());
        if own(&r, c as i64) != "own" {
            out.oracle_fail("deadconn.blocking.write_timeout_affects_wait", &format!("write timeout 100 ms configured, per-call timeout 9 s, the peer answered after 300 ms: call {} returned {}", c, own(&r, c as i64)), &ops);
            verdict = "bad";
        }
    }
    // a zero write timeout is rejected by the OS (InvalidInput), `None` switches it off: neither breaks the client
    if let Cl::B(cl) = &s.cl {
        let _ = cl.set_write_timeout(Some(Duration::ZERO));
        let _ = cl.set_write_timeout(None);
    }
    s.call_v(h, n, 1, None);
    if own(&serve_until(&mut s, n, 0, call_watchdog()), n as i64) != "own" {
        out.oracle_fail("deadconn.blocking.later_call_after_knobs", "a call after reconfiguring the write timeout was not served", &ops);
        verdict = "bad";
    }
    out.case(&op, &format!("{} {}", idx, verdict), true);
    s.send(Cmd::Close);
}

/// Seed C06-T's window: a call with a per-call timeout whose request is larger than the socket buffers,
/// while the peer does not read for longer than that timeout; the peer then reads and answers. The call
/// itself may return its answer or a timeout; the small call in flight before it and a later call must get
/// their own answers (one slow write is not a connection failure).
fn run_slowpeer_case(h: &H, out: &mut Out, idx: &str, kind: usize, mib: usize) {
    let kname = KINDS[kind];
    let op = format!("slowpeer {} {} {}", idx, kind, mib);
    out.begin(&op);
    if stop_now(out) {
        return;
    }
    let ops = [op.clone()];
    let Ok(mut s) = h.open(kind) else { return };
    s.call_v(h, 0, 0, None);
    s.send(Cmd::WaitUnread(48));
    let _ = s.srv_done();
    // the big call, through the `_with_timeout` twin (150 ms)
    let pad = "x".repeat(mib << 20);
    s.call(h, 7, json!({"c": 107, "pad": pad}), Some(Duration::from_millis(150)));
    s.send(Cmd::WaitUnread(1 << 16));
    let _ = s.srv_done();
    std::thread::sleep(Duration::from_millis(400));
    s.send(Cmd::AutoRead);
    let _ = s.srv_done();
    let (mut small, mut big) = (None, None);
    let deadline = Instant::now() + call_watchdog() + Duration::from_secs(5);
    while Instant::now() < deadline && (small.is_none() || big.is_none()) {
        match s.ev.recv_timeout(Duration::from_millis(50)) {
            Ok(Event::Req(f)) => { let c = caller_of(&f).unwrap_or(99); s.send(Cmd::Send(vec![response_v(f.h.id, false, c as i64, c as i64, variant_of(&f))])); }
            Ok(Event::Res(0, r)) => small = Some(r),
            Ok(Event::Res(7, r)) => big = Some(r),
            Ok(Event::Res(x, r)) => s.stash.push((x, r)),
            _ => {}
        }
    }
    let b = match &big { None => "HANG".to_string(), Some(Ok(v)) if tag_of(v) == Some(7) => "own".into(), Some(Err(e)) if cls(e) == "Timeout" => "Timeout".into(), Some(Ok(_)) => "other".into(), Some(Err(e)) => format!("Err({})", io_kind(e)) };
    let a = own(&small, 0);
    out.count(&format!("deadconn.{}.slowpeer.big.{}", kname, b.split('(').next().unwrap()));
    if b != "own" && b != "Timeout" {
        out.oracle_fail(&format!("deadconn.{}.slow_write_call", kname), &format!("a {} MiB call with a 150 ms timeout against a peer that read late returned {}", mib, b), &ops);
        if b == "HANG" { saw_hang(); }
    }
    if a != "own" {
        out.oracle_fail(&format!("deadconn.{}.inflight_call_lost_to_slow_write", kname), &format!("the call in flight while another call's large write was slow returned {} although the peer answered it", a), &ops);
        if a == "HANG" { saw_hang(); }
    }
    s.call_v(h, 1, 1, None);
    let later = own(&serve_until(&mut s, 1, 0, call_watchdog()), 1);
    if later != "own" {
        out.oracle_fail(&format!("deadconn.{}.later_call_lost_to_slow_write", kname), &format!("a call made after a slow large write (big call ended {}) returned {}", b, later), &ops);
        if later == "HANG" { saw_hang(); }
    }
    let canon = |x: &str| if x == "own" { "own" } else if x == "HANG" { "HANG" } else { "Err" };
    out.case(&op, &format!("{} small {} big {} later {}", idx, canon(&a), if b == "own" || b == "Timeout" { "ok" } else { "bad" }, canon(&later)), true);
    s.send(Cmd::Close);
}

/// A response that arrives in two halves with a pause of `ms` between them, while the call waits without
/// a timeout (and a second call waits with a generous one): a slow peer is not a dead one; both calls get
/// their answers whatever the pause.
fn run_stallfrag_case(h: &H, out: &mut Out, idx: &str, kind: usize, ms: u64) {
    run_stallfrag_case_in(h, out, "deadconn", idx, kind, ms)
}
fn run_stallfrag_case_in(h: &H, out: &mut Out, fam: &str, idx: &str, kind: usize, ms: u64) {
    let kname = KINDS[kind];
    let op = format!("{} {} {} {}", if fam == "mux" { "mstallfrag" } else { "stallfrag" }, idx, kind, ms);
    out.begin(&op);
    if stop_now(out) {
        return;
    }
    let ops = [op.clone()];
    let Ok(mut s) = h.open(kind) else { return };
    // call 0 takes its answer as a raw message (its body is opaque bytes, see below)
    {
        let tx = s.ev_tx.clone();
        let path = vpath(0, 12);
        let ok = |r: Result<Message, RepeError>| r.map(|m| json!({"tag": 0, "c": 0, "len": m.body.len()}));
        match s.cl.clone() {
            Cl::B(cl) => { std::thread::spawn(move || { let r = ok(cl.call_with_formats(&path, 1, Some(b"{}"), 2)); let _ = tx.send(Event::Res(0, r)); }); }
            Cl::A(cl) => { h.rt.spawn(async move { let r = ok(cl.call_with_formats(&path, 1, Some(b"{}"), 2).await); let _ = tx.send(Event::Res(0, r)); }); }
            Cl::W(cl) => { h.rt.spawn(async move { let r = ok(cl.call_with_formats(&path, 1, Some(b"{}"), 2).await); let _ = tx.send(Event::Res(0, r)); }); }
        }
    }
    s.call_v(h, 1, 3, Some(Duration::from_millis(ms * 3 + 5000)));
    let frames = match s.read(2) {
        Ok(f) => f,
        Err(e) => {
            out.oracle_fail(&format!("{}.{}.setup", fam, kname), &e, &ops);
            return;
        }
    };
    let id_of = |c: usize| frames.iter().find(|f| caller_of(f) == Some(c)).map(|f| f.h.id).unwrap_or(0);
    // The answer to call 0 carries, after 100 bytes of padding, a complete well-formed frame addressed to
    // call 1 (tag 999). The first pause falls exactly in front of it: a reader that loses its place in the
    // stream during the pause would parse the embedded frame and hand call 1 somebody else's bytes.
    let embedded = response(id_of(1), false, 999, 1);
    let mut body = vec![0x20u8; 100];
    body.extend_from_slice(&embedded);
    let a_frame = RawFrame::request(id_of(0), false, 1, b"/t", 0, &body).to_vec();
    let b_frame = response_v(id_of(1), false, 1, 1, 3);
    let hdr = if kind == 2 { 4 } else { 0 }; // WebSocket frame header of a 126..65535-byte message
    let mut wire = Vec::new();
    wire.extend(if kind == 2 { ws_frame(0x82, &a_frame) } else { a_frame.clone() });
    wire.extend(if kind == 2 { ws_frame(0x82, &b_frame) } else { b_frame });
    // first piece ends right in front of the embedded frame, second inside the second frame's body
    let cut1 = hdr + 48 + 2 + 100;
    let cut2 = wire.len() - 9;
    s.send(Cmd::SendRaw(wire[..cut1].to_vec()));
    let _ = s.srv_done();
    s.send(Cmd::Sleep(Duration::from_millis(ms)));
    let _ = s.srv_done();
    s.send(Cmd::SendRaw(wire[cut1..cut2].to_vec()));
    let _ = s.srv_done();
    s.send(Cmd::Sleep(Duration::from_millis(ms)));
    let _ = s.srv_done();
    s.send(Cmd::SendRaw(wire[cut2..].to_vec()));
    let _ = s.srv_done();
    let a = own(&s.res_of(0, call_watchdog()), 0);
    let b = own(&s.res_of(1, call_watchdog()), 1);
    if a != "own" || b != "own" {
        out.oracle_fail(&format!("{}.{}.slow_delivery_taken_for_failure", fam, kname), &format!("responses delivered in three pieces {} ms apart: the calls returned {} and {}", ms, a, b), &ops);
        if a == "HANG" || b == "HANG" { saw_hang(); }
    }
    let canon = |x: &str| if x == "own" { "own" } else if x == "HANG" { "HANG" } else { "Err" };
    out.case(&op, &format!("{} got {},{}", idx, canon(&a), canon(&b)), true);
    s.send(Cmd::Close);
}

/// The response to call 0 arrives in two pieces 300 ms apart; inside the gap call 1 times out (`tmo`) or is
/// aborted (`abort`, async/ws). Abandoning one call must not disturb the frame that is being read for
/// another: call 0 gets its answer, a later call too.
fn run_gap_case(h: &H, out: &mut Out, idx: &str, kind: usize, how: &str) {
    let kname = KINDS[kind];
    let op = format!("gap {} {} {}", idx, kind, how);
    out.begin(&op);
    if stop_now(out) {
        return;
    }
    let ops = [op.clone()];
    let Ok(mut s) = h.open(kind) else { return };
    s.call_v(h, 0, 0, None);
    s.call_v(h, 1, 2, if how == "tmo" { Some(Duration::from_millis(100)) } else { None });
    let frames = match s.read(2) {
        Ok(f) => f,
        Err(e) => {
            out.oracle_fail(&format!("deadconn.{}.setup", kname), &e, &ops);
            return;
        }
    };
    let f0 = frames.iter().find(|f| caller_of(f) == Some(0)).cloned();
    let f1 = frames.iter().find(|f| caller_of(f) == Some(1)).cloned();
    let (Some(f0), Some(f1)) = (f0, f1) else { return };
    let m = response_v(f0.h.id, false, 0, 0, 0);
    let wire = if kind == 2 { ws_frame(0x82, &m) } else { m };
    let cut = wire.len() / 2;
    s.send(Cmd::SendRaw(wire[..cut].to_vec()));
    let _ = s.srv_done();
    s.send(Cmd::Sleep(Duration::from_millis(150)));
    let _ = s.srv_done();
    if how == "abort" {
        let _ = s.abort(h, 1);
    }
    s.send(Cmd::Sleep(Duration::from_millis(150)));
    let _ = s.srv_done();
    s.send(Cmd::SendRaw(wire[cut..].to_vec()));
    let _ = s.srv_done();
    let a = own(&s.res_of(0, call_watchdog()), 0);
    if a != "own" {
        out.oracle_fail(&format!("deadconn.{}.abandoned_call_disturbs_frame_in_transit", kname), &format!("call 1 was abandoned ({}) while the response to call 0 was half delivered: call 0 returned {}", how, a), &ops);
        if a == "HANG" { saw_hang(); }
    }
    // the abandoned call's late answer, then a later call
    s.send(Cmd::Send(vec![response_v(f1.h.id, false, 1, 1, 2)]));
    let _ = s.srv_done();
    s.send(Cmd::AutoRead);
    let _ = s.srv_done();
    s.call_v(h, 2, 1, None);
    let later = own(&serve_until(&mut s, 2, 0, call_watchdog()), 2);
    if later != "own" {
        out.oracle_fail(&format!("deadconn.{}.later_call_after_gap", kname), &format!("a later call returned {}", later), &ops);
        if later == "HANG" { saw_hang(); }
    }
    let canon = |x: &str| if x == "own" { "own" } else if x == "HANG" { "HANG" } else { "Err" };
    out.case(&op, &format!("{} got {} later {}", idx, canon(&a), canon(&later)), true);
    s.send(Cmd::Close);
}

fn gen_dead(args: &Args, r: &mut Rng) -> Vec<DeadCase> {
    let mut v = Vec::new();
    let resp_len = response(1, false, 0, 0).len();
    let cuts = [1usize, 8, 24, 47, 48, 49, resp_len - 1];
    for kind in 0..3 {
        let faults: Vec<&str> = if kind == 2 {
            vec!["close", "reset", "wsclose", "text", "badspec", "badlen", "shortlen", "hugelen", "trailing", "shortmsg", "cut"]
        } else {
            vec!["close", "reset", "badspec", "badlen", "shortlen", "hugelen", "cut"]
        };
        for fault in &faults {
            let reps = if args.thorough() { 40 } else { 3 };
            for rep in 0..reps {
                let n = match rep {
                    0 => 0,
                    1 => 1,
                    2 => r.range(2, 16) as usize,
                    _ => r.range(0, 16) as usize,
                };
                let when = if matches!(*fault, "close" | "reset") && r.chance(1, 2) { "before" } else { "after" };
                let answered = if when == "after" && n > 0 && r.chance(1, 2) { r.below(n as u64) as usize } else { 0 };
                let cut = if *fault == "cut" { cuts[(rep + r.below(7) as usize) % cuts.len()] + if kind == 2 { 2 } else { 0 } } else { 0 };
                v.push(DeadCase { kind, n, tmo: r.chance(1, 2), answered, fault: fault.to_string(), when: when.to_string(), cut });
            }
        }
        // the failure arrives while MANY calls are pending (ids in arrival, i.e. no particular, order)
        for (j, fault) in ["close", "reset", "badspec", "cut"].iter().enumerate() {
            let n = [40usize, 64, 33, 48][j];
            v.push(DeadCase { kind, n, tmo: j % 2 == 1, answered: if j == 2 { 7 } else { 0 }, fault: fault.to_string(), when: "after".into(), cut: if *fault == "cut" { 24 + if kind == 2 { 2 } else { 0 } } else { 0 } });
        }
        if kind == 2 {
            // a binary message beyond the client's own inbound frame limit (C17's refusal path): the calls in flight get errors
            v.push(DeadCase { kind, n: 3, tmo: false, answered: 0, fault: "hugeframe".into(), when: "after".into(), cut: 0 });
        }
        if kind == 2 {
            // malformed binary messages whose header byte 11 (notify) is set, with and without a subscriber
            for fault in ["badspec", "badlen", "shortlen", "trailing", "shortmsg"] {
                for (nflag, sub) in [(1u8, false), (2, false), (255, false), (1, true), (255, true)] {
                    let n = 1 + r.below(3) as usize;
                    let f = format!("{}.n{}{}", fault, nflag, if sub { "" } else { ".s0" });
                    v.push(DeadCase { kind, n, tmo: false, answered: 0, fault: f, when: "after".into(), cut: 0 });
                }
            }
        }
        if args.thorough() {
            for cut in cuts {
                for n in [1usize, 16] {
                    v.push(DeadCase { kind, n, tmo: false, answered: 0, fault: "cut".into(), when: "after".into(), cut: cut + if kind == 2 { 2 } else { 0 } });
                }
            }
        }
    }
    v
}


// ---------------------------------------------------------------------------------------------
// family `sched`: probe-forced schedules (needs /repo's `verif-hooks` probe points)
// ---------------------------------------------------------------------------------------------
// Actions of a schedule (one op line = one schedule, executed on a fresh connection):
//   S<c>[t]  start call c (t: with a 30 ms timeout): alloc + register; the caller parks at `client.before_write`
//   W<c>     let c write its request (until the server has read it, or the call returned)
//   F<tok>   the server sends a frame (r<c> response, n<c> notify-flagged with c's id, u<k> unknown id);
//            the reader parks at `reader.after_match` / `reader.unmatched` / `reader.notify`
//   D        the reader delivers (parks again at `reader.after_dispatch`)
//   T<c>     wait until c's timer fired (c parks at `timeout.before_remove` / `guard.before_remove`)
//   C<c>     c removes its entry and returns
//   X        the server sends a malformed header; the reader parks at `failall.enter`
//   A        the reader executes the next statement of fail_all_pending (parks at the next `failall.*`
//            gate, finally at `reader.exit`)
#[cfg(feature = "hooks")]
mod sched {
    use super::*;
    use std::collections::{HashMap, HashSet};
    use std::sync::{Arc, Condvar, Mutex, OnceLock};

    #[derive(Clone, Copy, PartialEq, Eq, Hash, Debug)]
    pub enum Party {
        Caller(usize),
        Reader,
    }

    #[derive(Default)]
    struct St {
        gate: bool,
        hold_exit: bool,
        /// party -> (point, value, ticket of that park)
        parked: HashMap<Party, (&'static str, u64, u64)>,
        /// tickets allowed to leave
        release: HashSet<u64>,
        epoch: u64,
        next_ticket: u64,
        timeout_callers: HashSet<usize>,
        ids: HashMap<usize, u64>,
        enters: u64,
        fired: u64,
        trace: Vec<String>,
    }

    pub struct Ctl {
        st: Mutex<St>,
        cv: Condvar,
    }

    static CTL: OnceLock<Arc<Ctl>> = OnceLock::new();

    pub fn ctl() -> &'static Arc<Ctl> {
        CTL.get_or_init(|| {
            let c = Arc::new(Ctl { st: Mutex::new(St::default()), cv: Condvar::new() });
            let c2 = c.clone();
            repe::verif_hooks::set_probe(Some(Arc::new(move |point, value| c2.probe(point, value))));
            c
        })
    }

    impl Ctl {
        fn probe(&self, point: &'static str, value: u64) {
            let party = if point.starts_with("reader.") || point.starts_with("failall.") {
                Party::Reader
            } else {
                match current_caller() {
                    Some(c) => Party::Caller(c),
                    None => return,
                }
            };
            {
                let mut st = self.st.lock().unwrap();
                st.fired += 1;
                if st.trace.len() < 200 {
                    let t = format!("{:?}:{}={}", party, point, value);
                    st.trace.push(t);
                }
                if point == "client.after_register" {
                    if let Party::Caller(c) = party {
                        st.ids.insert(c, value);
                    }
                    return;
                }
                if point == "failall.enter" {
                    st.enters += 1;
                    if st.enters > 2 {
                        // a reader that keeps re-entering the failure path (already reported): do not let it burn a core
                        drop(st);
                        std::thread::sleep(Duration::from_millis(20));
                        return;
                    }
                }
                let parks = match point {
                    "reader.exit" => st.gate || st.hold_exit,
                    _ if !st.gate => false,
                    "client.before_write" => true,
                    "timeout.before_remove" | "guard.before_remove" => matches!(party, Party::Caller(c) if st.timeout_callers.contains(&c)),
                    "reader.after_match" | "reader.unmatched" | "reader.notify" | "reader.after_dispatch" => true,
                    "failall.enter" | "failall.after_shutdown" | "failall.after_take_notify" | "failall.after_drain" | "failall.after_send" | "failall.done" => true,
                    _ => false,
                };
                if !parks {
                    return;
                }
            }
            // Park. `block_in_place` hands this worker's run queue (and LIFO slot) to another thread, so
            // tasks woken by the parked task keep running; outside a runtime it just runs the closure.
            tokio::task::block_in_place(|| {
                let mut st = self.st.lock().unwrap();
                // a park belongs to the case (epoch) it started in and has its own ticket, so that a
                // thread of an earlier case that wakes up late can neither take a release meant for the
                // current case nor erase the current party's entry
                let epoch = st.epoch;
                st.next_ticket += 1;
                let ticket = st.next_ticket;
                st.parked.insert(party, (point, value, ticket));
                self.cv.notify_all();
                loop {
                    if st.release.remove(&ticket) {
                        break;
                    }
                    let held = st.epoch == epoch && if point == "reader.exit" { st.gate || st.hold_exit } else { st.gate };
                    if !held {
                        break;
                    }
                    st = self.cv.wait(st).unwrap();
                }
                if st.parked.get(&party).map(|x| x.2) == Some(ticket) {
                    st.parked.remove(&party);
                }
                self.cv.notify_all();
            });
        }
        pub fn reset(&self, timeout_callers: HashSet<usize>) {
            let mut st = self.st.lock().unwrap();
            st.epoch += 1;
            st.gate = true;
            st.hold_exit = false;
            st.parked.clear();
            st.release.clear();
            st.ids.clear();
            st.enters = 0;
            st.trace.clear();
            st.timeout_callers = timeout_callers;
        }
        pub fn trace(&self) -> String {
            self.st.lock().unwrap().trace.join(" ")
        }
        pub fn fired(&self) -> u64 {
            self.st.lock().unwrap().fired
        }
        pub fn parked(&self, p: Party) -> Option<(&'static str, u64)> {
            self.st.lock().unwrap().parked.get(&p).map(|x| (x.0, x.1))
        }
        pub fn id_of(&self, c: usize) -> Option<u64> {
            self.st.lock().unwrap().ids.get(&c).copied()
        }
        pub fn enters(&self) -> u64 {
            self.st.lock().unwrap().enters
        }
        /// Let `p` leave the gate it is parked at; returns once it has left.
        pub fn release(&self, p: Party) -> bool {
            let mut st = self.st.lock().unwrap();
            let Some(ticket) = st.parked.get(&p).map(|x| x.2) else { return false };
            st.release.insert(ticket);
            self.cv.notify_all();
            let deadline = Instant::now() + Duration::from_secs(5);
            while st.parked.get(&p).map(|x| x.2) == Some(ticket) {
                let (g, _) = self.cv.wait_timeout(st, Duration::from_millis(50)).unwrap();
                st = g;
                if Instant::now() > deadline {
                    return false;
                }
            }
            true
        }
        /// Everything runs freely from now on, except that the reader is held at `reader.exit`.
        pub fn free_run(&self, hold_exit: bool) {
            let mut st = self.st.lock().unwrap();
            st.gate = false;
            st.hold_exit = hold_exit;
            st.release.clear();
            self.cv.notify_all();
        }
    }

    pub struct Run<'a> {
        pub h: &'a H,
        pub s: Session,
        pub n: usize,
        pub done: Vec<Option<String>>,
        pub req_seen: Vec<bool>,
        pub ftags: Vec<(Option<usize>, bool)>, // per F: (caller whose id it carries, notify)
        pub gates: Vec<char>,
        pub reader_finished: bool,
        pub failed: bool,
        pub problems: Vec<(String, String)>,
    }

    impl<'a> Run<'a> {
        /// Move everything that arrived into the stashes.
        fn pump(&mut self) {
            while let Ok(e) = self.s.ev.try_recv() {
                match e {
                    Event::Res(c, r) => {
                        if c < self.n && self.done[c].is_none() {
                            self.done[c] = Some(match &r {
                                Ok(v) => tag_of(v).map(|t| t.to_string()).unwrap_or("?".into()),
                                Err(e) if cls(e) == "Timeout" => "T".into(),
                                Err(_) => "E".into(),
                            });
                        }
                    }
                    Event::Req(f) => {
                        if let Some(c) = caller_of(&f) {
                            if c < self.n {
                                self.req_seen[c] = true;
                            }
                        }
                    }
                    e => self.s.srv_stash.push_back(e),
                }
            }
        }
        /// Poll until `cond` holds (true) or the watchdog expires (false).
        fn until(&mut self, mut cond: impl FnMut(&mut Self) -> bool) -> bool {
            let deadline = Instant::now() + call_watchdog().min(Duration::from_secs(8));
            let mut spins = 0u32;
            loop {
                self.pump();
                if cond(self) {
                    return true;
                }
                if Instant::now() > deadline {
                    return false;
                }
                spins += 1;
                if spins < 200 {
                    std::thread::yield_now();
                } else {
                    std::thread::sleep(Duration::from_micros(200));
                }
            }
        }
        fn srv_done(&mut self) -> bool {
            self.until(|r| {
                if let Some(p) = r.s.srv_stash.iter().position(|e| matches!(e, Event::Done | Event::SrvErr(_))) {
                    r.s.srv_stash.remove(p);
                    true
                } else {
                    false
                }
            })
        }
        fn reader_gate(&self) -> Option<&'static str> {
            ctl().parked(Party::Reader).map(|x| x.0)
        }
        /// The reader must be reading: release it from `reader.after_dispatch` if it is parked there.
        fn reader_to_read(&mut self) {
            if self.reader_gate() == Some("reader.after_dispatch") {
                ctl().release(Party::Reader);
            }
        }
        pub fn act(&mut self, a: &str) -> Result<(), String> {
            let kind = &a[..1];
            let rest = &a[1..];
            match kind {
                "S" => {
                    let tmo = rest.ends_with('t');
                    let c: usize = rest.trim_end_matches('t').parse().map_err(|_| "bad S")?;
                    self.s.call(self.h, c, req_body(c), if tmo { Some(Duration::from_millis(30)) } else { None });
                    let ok = self.until(|r| r.done[c].is_some() || ctl().parked(Party::Caller(c)).map(|x| x.0) == Some("client.before_write"));
                    if !ok { return Err(format!("S{c}: neither parked before the write nor returned")); }
                }
                "V" => {
                    // V<c>i<id>: `forward_message` with the caller-chosen id (AsyncClient)
                    let (c, id) = rest.split_once('i').ok_or("bad V")?;
                    let c: usize = c.parse().map_err(|_| "bad V")?;
                    let id: u64 = id.parse().map_err(|_| "bad V")?;
                    self.s.fwd(self.h, c, id, None);
                    let ok = self.until(|r| r.done[c].is_some() || ctl().parked(Party::Caller(c)).map(|x| x.0) == Some("client.before_write"));
                    if !ok { return Err(format!("V{c}: neither parked before the write nor returned")); }
                }
                "K" => {
                    // K<c>: the call's future is dropped (task aborted)
                    let c: usize = rest.parse().map_err(|_| "bad K")?;
                    if self.done[c].is_none() {
                        let gone = self.s.abort(self.h, c);
                        self.pump();
                        if self.done[c].is_none() {
                            self.done[c] = Some(if gone { "K".into() } else { "?".into() });
                        }
                    }
                }
                "W" => {
                    let c: usize = rest.parse().map_err(|_| "bad W")?;
                    if self.done[c].is_some() { return Ok(()); }
                    if !ctl().release(Party::Caller(c)) { return Err(format!("W{c}: caller not parked before the write")); }
                    let ok = self.until(|r| r.done[c].is_some() || r.req_seen[c]);
                    if !ok { return Err(format!("W{c}: request neither reached the server nor failed")); }
                }
                "F" => {
                    self.reader_to_read();
                    let k: usize = rest[1..].parse().map_err(|_| "bad F")?;
                    let (id, notify, who) = match &rest[..1] {
                        "r" => (ctl().id_of(k).ok_or(format!("F: id of caller {k} unknown"))?, false, Some(k)),
                        "n" => (ctl().id_of(k).ok_or(format!("F: id of caller {k} unknown"))?, true, Some(k)),
                        _ => (1_000_000_000 + k as u64, false, None),
                    };
                    let tag = self.ftags.len();
                    self.ftags.push((who, notify));
                    self.s.send(Cmd::Send(vec![response(id, notify, tag as i64, who.map(|x| x as i64).unwrap_or(-1))]));
                    if !self.srv_done() { return Err("F: server could not send".into()); }
                    let ok = self.until(|r| matches!(r.reader_gate(), Some("reader.after_match" | "reader.unmatched" | "reader.notify")));
                    if !ok { return Err(format!("F{rest}: the reader did not process the frame")); }
                    let g = match self.reader_gate() { Some("reader.after_match") => 'm', Some("reader.notify") => 'n', _ => 'u' };
                    self.gates.push(g);
                    // residue: a response for a call that has already returned must not find an entry
                    if let Some(c) = who {
                        self.pump();
                        if g == 'm' && self.done[c].is_some() {
                            self.problems.push(("residue_late_response_matched".into(), format!("frame #{tag} carries the id of call {c}, which had already returned ({}), and still found a pending entry", self.done[c].clone().unwrap())));
                        }
                        if g == 'm' && notify && self.s.kind == 2 {
                            self.problems.push(("notify_matched".into(), format!("notify frame #{tag} was matched against the pending map")));
                        }
                    }
                }
                "D" => {
                    if !matches!(self.reader_gate(), Some("reader.after_match" | "reader.unmatched" | "reader.notify")) { return Err("D: reader holds nothing".into()); }
                    ctl().release(Party::Reader);
                    let ok = self.until(|r| r.reader_gate() == Some("reader.after_dispatch"));
                    if !ok { return Err("D: reader did not finish the dispatch".into()); }
                }
                "T" => {
                    let c: usize = rest.parse().map_err(|_| "bad T")?;
                    let ok = self.until(|r| matches!(ctl().parked(Party::Caller(c)).map(|x| x.0), Some("timeout.before_remove" | "guard.before_remove")));
                    if !ok { return Err(format!("T{c}: the timeout did not fire")); }
                }
                "C" => {
                    let c: usize = rest.parse().map_err(|_| "bad C")?;
                    if !ctl().release(Party::Caller(c)) { return Err(format!("C{c}: caller not parked in its timeout path")); }
                    let ok = self.until(|r| r.done[c].is_some());
                    if !ok { return Err(format!("C{c}: timed-out call did not return")); }
                }
                "X" => {
                    self.reader_to_read();
                    let bytes = malformed("badspec", 1);
                    if self.s.kind == 2 { self.s.send(Cmd::Send(vec![bytes])); } else { self.s.send(Cmd::SendRaw(bytes)); }
                    if !self.srv_done() { return Err("X: server could not send".into()); }
                    self.failed = true;
                    let ok = self.until(|r| r.reader_gate() == Some("failall.enter"));
                    if !ok { return Err("X: the reader did not enter fail_all_pending".into()); }
                }
                "A" => {
                    if self.reader_finished || !self.failed { return Ok(()); }
                    let before = ctl().enters();
                    let from = self.reader_gate();
                    if !ctl().release(Party::Reader) { return Err("A: reader not parked in the failure path".into()); }
                    let ok = self.until(|r| r.reader_gate().map(|g| g.starts_with("failall.") || g == "reader.exit").unwrap_or(false));
                    if !ok { return Err(format!("A: the reader did not reach its next step after {:?}", from)); }
                    if self.reader_gate() == Some("reader.exit") {
                        self.reader_finished = true;
                    } else if ctl().enters() > before {
                        self.problems.push(("reader_continues_after_failure".into(), "the response loop went on reading after fail_all_pending and entered it again".into()));
                        self.reader_finished = true;
                    }
                }
                _ => return Err(format!("unknown action {a}")),
            }
            Ok(())
        }
    }

    /// Does this tree have the probe points? (one call against an echoing server)
    pub fn probes_present(h: &H) -> bool {
        ctl().reset(HashSet::new());
        ctl().free_run(false);
        let before = ctl().fired();
        if let Ok(mut s) = h.open(0) {
            s.send(Cmd::Echo(1));
            s.call(h, 0, req_body(0), Some(Duration::from_secs(5)));
            let _ = s.res(Duration::from_secs(6));
            s.send(Cmd::Close);
        }
        ctl().fired() > before
    }

    pub fn run_sched_case(h: &H, out: &mut Out, idx: &str, kind: usize, n: usize, actions: &[String]) {
        let kname = KINDS[kind];
        let op = format!("sched {} {} {} {}", idx, kind, n, actions.join(","));
        out.begin(&op);
    if stop_now(out) {
        return;
    }
        let ops = [op.clone()];
        let tmo: HashSet<usize> = actions.iter().filter(|a| a.starts_with('S') && a.ends_with('t')).filter_map(|a| a[1..a.len() - 1].parse().ok()).collect();
        ctl().reset(tmo);
        let s = match h.open(kind) {
            Ok(s) => s,
            Err(e) => {
                eprintln!("setup failed: {e}");
                ctl().free_run(false);
                return;
            }
        };
        let _sub = match &s.cl {
            Cl::W(w) => w.subscribe_notifies().ok(),
            _ => None,
        };
        let mut run = Run { h, s, n, done: vec![None; n], req_seen: vec![false; n], ftags: vec![], gates: vec![], reader_finished: false, failed: false, problems: vec![] };
        run.s.send(Cmd::AutoRead);
        let _ = run.srv_done();
        let mut stuck = None;
        for (k, a) in actions.iter().enumerate() {
            if let Err(e) = run.act(a) {
                stuck = Some(format!("action #{k} {a}: {e}"));
                break;
            }
            out.count(&format!("sched.action.{}", &a[..1]));
        }
        // everything else runs freely now; every started call must return
        ctl().free_run(true);
        let started: Vec<usize> = actions.iter().filter(|a| a.starts_with('S') || a.starts_with('V')).filter_map(|a| a[1..].split('i').next().unwrap().trim_end_matches('t').parse().ok()).collect();
        let all = run.until(|r| started.iter().all(|c| r.done[*c].is_some()));
        if let Some(e) = &stuck {
            out.oracle_fail(&format!("sched.{}.stuck", kname), &format!("forced schedule could not proceed: {}; probe trace: {}", e, ctl().trace()), &ops);
            saw_hang();
        }
        if !all {
            let hung: Vec<usize> = started.iter().copied().filter(|c| run.done[*c].is_none()).collect();
            out.oracle_fail(&format!("sched.{}.hang", kname), &format!("calls {:?} never returned under this schedule{}; probe trace: {}", hung, if run.failed { " although the connection had failed" } else { "" }, ctl().trace()), &ops);
            saw_hang();
        }
        for (sig, detail) in &run.problems {
            out.oracle_fail(&format!("sched.{}.{}", kname, sig), detail, &ops);
        }
        // own response / errors after a failure
        for c in started.iter().copied() {
            if let Some(o) = &run.done[c] {
                if let Ok(t) = o.parse::<usize>() {
                    if run.ftags.get(t).map(|f| f.0) != Some(Some(c)) {
                        out.oracle_fail(&format!("sched.{}.wrong_response", kname), &format!("call {} returned frame #{} which does not carry its id", c, t), &ops);
                    } else if kind == 2 && run.ftags[t].1 {
                        out.oracle_fail(&format!("sched.{}.notify_delivered_to_caller", kname), &format!("call {} returned the notify frame #{}", c, t), &ops);
                    }
                }
            }
        }
        let got: Vec<String> = (0..n).map(|c| run.done[c].clone().unwrap_or_else(|| if started.contains(&c) { "HANG".into() } else { "-".into() })).collect();
        let gates: String = if run.gates.is_empty() { "-".into() } else { run.gates.iter().map(|g| g.to_string()).collect::<Vec<_>>().join(",") };
        if stuck.is_none() {
            out.case(&op, &format!("{} got {} gates {}", idx, got.join(","), gates), true);
        } else {
            out.count("sched.stuck");
        }
        out.count(&format!("sched.{}", kname));
        // teardown: the reader must have left its loop before the next case installs its gates
        run.s.send(Cmd::Close);
        let Run { s, .. } = run;
        drop(s);
        let t0 = Instant::now();
        while t0.elapsed() < Duration::from_secs(3) {
            if ctl().parked(Party::Reader).map(|x| x.0) == Some("reader.exit") {
                break;
            }
            std::thread::sleep(Duration::from_micros(300));
        }
        ctl().free_run(false);
    }

    // ---------------- generation -----------------------------------------------------------------
    /// Abstract tracker that keeps generated schedules executable (it does not predict outcomes).
    #[derive(Clone)]
    struct Trk {
        started: Vec<bool>,
        written: Vec<bool>,
        timed: Vec<bool>,     // T done
        cleaned: Vec<bool>,   // C done
        tmo: Vec<bool>,
        pending: Vec<bool>,   // has an entry the reader could match
        got: Vec<bool>,       // something was delivered
        holding: Option<Option<usize>>, // reader parked after a frame (Some(c) = matched c)
        failed: bool,
    }
    impl Trk {
        fn new(n: usize) -> Trk {
            Trk { started: vec![false; n], written: vec![false; n], timed: vec![false; n], cleaned: vec![false; n], tmo: vec![false; n], pending: vec![false; n], got: vec![false; n], holding: None, failed: false }
        }
        fn can(&self, a: &str, kind: usize) -> bool {
            let num = |s: &str| s.trim_end_matches('t').parse::<usize>().unwrap();
            match &a[..1] {
                "S" => !self.started[num(&a[1..])],
                "W" => { let c = num(&a[1..]); self.started[c] && !self.written[c] }
                "T" => { let c = num(&a[1..]); self.tmo[c] && self.written[c] && !self.timed[c] && !self.got[c] && !self.failed }
                "C" => { let c = num(&a[1..]); self.timed[c] && !self.cleaned[c] }
                "F" => {
                    if self.failed || self.holding.is_some() { return false; }
                    match &a[1..2] { "r" | "n" => self.started[num(&a[2..])], _ => true }
                }
                "D" => match self.holding {
                    // a timeout caller's matched response is not delivered before its timer fired
                    Some(Some(c)) => !(self.tmo[c] && !self.timed[c]),
                    Some(None) => true,
                    None => false,
                },
                "X" => !self.failed && self.holding.is_none(),
                "A" => self.failed,
                _ => { let _ = kind; false }
            }
        }
        fn apply(&mut self, a: &str, kind: usize) {
            let num = |s: &str| s.trim_end_matches('t').parse::<usize>().unwrap();
            match &a[..1] {
                "S" => { let c = num(&a[1..]); self.started[c] = true; self.tmo[c] = a.ends_with('t'); self.pending[c] = true; }
                "W" => { let c = num(&a[1..]); self.written[c] = true; }
                "T" => { let c = num(&a[1..]); self.timed[c] = true; }
                "C" => { let c = num(&a[1..]); self.cleaned[c] = true; self.pending[c] = false; }
                "F" => {
                    let m = match &a[1..2] {
                        "r" => { let c = num(&a[2..]); if self.pending[c] { Some(c) } else { None } }
                        "n" => { let c = num(&a[2..]); if kind != 2 && self.pending[c] { Some(c) } else { None } }
                        _ => None,
                    };
                    if let Some(c) = m { self.pending[c] = false; }
                    self.holding = Some(m);
                }
                "D" => { if let Some(Some(c)) = self.holding { if !self.timed[c] { self.got[c] = true; } } self.holding = None; }
                "X" => self.failed = true,
                _ => {}
            }
        }
    }

    /// Random merge of the threads' action lists that the tracker accepts, followed by a completion
    /// phase so that every call gets an answer (or the failure path runs to its end).
    fn merge(r: &mut Rng, kind: usize, n: usize, threads: &[Vec<String>]) -> Vec<String> {
        let mut pos = vec![0usize; threads.len()];
        let mut t = Trk::new(n);
        let mut out = Vec::new();
        loop {
            let enabled: Vec<usize> = (0..threads.len()).filter(|i| pos[*i] < threads[*i].len() && t.can(&threads[*i][pos[*i]], kind)).collect();
            if enabled.is_empty() {
                break;
            }
            let i = *r.pick(&enabled);
            let a = threads[i][pos[i]].clone();
            t.apply(&a, kind);
            out.push(a);
            pos[i] += 1;
        }
        complete(&mut t, kind, n, &mut out);
        out
    }
    fn complete(t: &mut Trk, kind: usize, n: usize, out: &mut Vec<String>) {
        let mut push = |t: &mut Trk, a: String, out: &mut Vec<String>| { if t.can(&a, kind) { t.apply(&a, kind); out.push(a); } };
        if t.holding.is_some() {
            // a held response of a timeout caller waits for the timer
            if let Some(Some(c)) = t.holding { if t.tmo[c] && !t.timed[c] { if !t.written[c] { push(t, format!("W{c}"), out); } push(t, format!("T{c}"), out); } }
            push(t, "D".into(), out);
        }
        for c in 0..n {
            if t.started[c] && !t.written[c] { push(t, format!("W{c}"), out); }
        }
        for c in 0..n {
            if t.tmo[c] && t.written[c] && !t.timed[c] && !t.got[c] && !t.failed { push(t, format!("T{c}"), out); }
            if t.timed[c] && !t.cleaned[c] { push(t, format!("C{c}"), out); }
        }
        if t.failed {
            for _ in 0..10 { out.push("A".into()); }
        } else {
            for c in 0..n {
                if t.started[c] && !t.got[c] && !t.timed[c] {
                    push(t, format!("Fr{c}"), out);
                    push(t, "D".into(), out);
                }
            }
        }
    }

    pub fn gen(args: &Args, r: &mut Rng, prop: &str) -> Vec<(usize, usize, Vec<String>)> {
        let mut v = Vec::new();
        let th = args.thorough();
        for kind in 0..3 {
            let sv = |xs: &[&str]| xs.iter().map(|x| x.to_string()).collect::<Vec<String>>();
            if prop == "c04" {
                // responses in every order against every interleaving of two / three callers
                let nrand = if th { 1500 } else { 120 };
                for i in 0..nrand {
                    let n = if i % 3 == 2 { 3 } else { 2 };
                    let mut frames: Vec<String> = (0..n).map(|c| format!("r{c}")).collect();
                    r.shuffle(&mut frames);
                    for _ in 0..r.below(3) {
                        let pos = r.below(frames.len() as u64 + 1) as usize;
                        let t = match r.below(3) { 0 => format!("u{}", r.below(9)), 1 => format!("r{}", r.below(n as u64)), _ => format!("n{}", r.below(n as u64)) };
                        frames.insert(pos, t);
                    }
                    let mut threads: Vec<Vec<String>> = (0..n).map(|c| vec![format!("S{c}"), format!("W{c}")]).collect();
                    threads.push(frames.iter().flat_map(|f| vec![format!("F{f}"), "D".to_string()]).collect());
                    v.push((kind, n, merge(r, kind, n, &threads)));
                }
                // narrow windows, fixed: response arriving between register and write; duplicate while the first is held
                v.push((kind, 2, sv(&["S0", "S1", "Fr0", "D", "W0", "W1", "Fr1", "D"])));
                v.push((kind, 2, sv(&["S0", "W0", "Fr0", "S1", "W1", "D", "Fr0", "D", "Fr1", "D"])));
                v.push((kind, 2, sv(&["S0", "W0", "S1", "W1", "Fn0", "D", "Fr1", "D", "Fr0", "D"])));
            } else {
                // timeouts: the timer fires before / between match and deliver / after the late response
                for tail in [sv(&["S0t", "W0", "T0", "C0", "Fr0", "D"]), sv(&["S0t", "W0", "Fr0", "T0", "C0", "D"]), sv(&["S0t", "W0", "Fr0", "T0", "D", "C0"]), sv(&["S0t", "W0", "T0", "Fr0", "D", "C0"]), sv(&["S0t", "W0", "T0", "Fr0", "C0", "D"])] {
                    let mut a = tail.clone();
                    a.extend(sv(&["S1", "W1", "Fr1", "D", "Fr0", "D"]));
                    v.push((kind, 2, a));
                }
                let nt = if th { 1000 } else { 60 };
                for _ in 0..nt {
                    let threads = vec![sv(&["S0t", "W0", "T0", "C0"]), sv(&["S1", "W1"]),
                        if r.chance(1, 2) { sv(&["Fr0", "D", "Fr1", "D", "Fr0", "D"]) } else { sv(&["Fr1", "D", "Fr0", "D", "Fr0", "D"]) }];
                    v.push((kind, 2, merge(r, kind, 2, &threads)));
                }
                // failure path: a late caller after k statements of fail_all_pending, k = 0..7
                for k in 0..8 {
                    let mut a = sv(&["S0", "W0", "X"]);
                    for _ in 0..k { a.push("A".into()); }
                    a.extend(sv(&["S1", "W1"]));
                    for _ in 0..10 { a.push("A".into()); }
                    v.push((kind, 2, a));
                    // the late caller registers early and writes late
                    let mut b = sv(&["S0", "W0", "S1", "X"]);
                    for _ in 0..k { b.push("A".into()); }
                    b.push("W1".into());
                    for _ in 0..10 { b.push("A".into()); }
                    v.push((kind, 2, b));
                }
                let nf = if th { 1000 } else { 60 };
                for i in 0..nf {
                    let n = if i % 2 == 0 { 2 } else { 3 };
                    let mut threads: Vec<Vec<String>> = (0..n).map(|c| vec![format!("S{c}"), format!("W{c}")]).collect();
                    let mut rd = if r.chance(1, 2) { sv(&["Fr0", "D", "X"]) } else { sv(&["X"]) };
                    for _ in 0..r.range(0, 7) { rd.push("A".into()); }
                    threads.push(rd);
                    v.push((kind, n, merge(r, kind, n, &threads)));
                }
            }
        }
        v
    }
}

fn main() {
    let args = Args::parse();
    quiet_panics();
    let fam = args.extra.first().cloned().unwrap_or_else(|| "mux".into());
    let mut out = Out::new(&args.out);
    let rt = tokio::runtime::Builder::new_multi_thread().worker_threads(8).enable_all().build().unwrap();
    let srv_rt = tokio::runtime::Builder::new_multi_thread().worker_threads(2).enable_all().build().unwrap();
    let h = H { rt, srv_rt };
    let h1 = H {
        rt: tokio::runtime::Builder::new_multi_thread().worker_threads(1).max_blocking_threads(1).enable_all().build().unwrap(),
        srv_rt: tokio::runtime::Builder::new_multi_thread().worker_threads(1).enable_all().build().unwrap(),
    };
    let mut rng = Rng::new(args.seed);
    entry_point_audit(&mut out);
    if let Some(ops) = args.replay_ops() {
        for (k, l) in ops.iter().enumerate() {
            let w = words(l);
            let idx = format!("r{k}");
            match w.first().copied() {
                Some("case") if w.len() >= 6 => {
                    let script = if w[5] == "-" { vec![] } else { w[5].split(',').map(|s| s.to_string()).collect() };
                    let vars = w.get(6).filter(|x| **x != "-").map(|x| x.split(',').filter_map(|y| y.parse().ok()).collect()).unwrap_or_default();
                    let frag = w.get(7).and_then(|x| x.parse().ok()).unwrap_or(0);
                    run_mux_case(&h, &mut out, &idx, &MuxCase { kind: w[2].parse().unwrap(), n: w[3].parse().unwrap(), script, vars, frag });
                }
                Some("seq") if w.len() >= 5 => run_seq_case(&h, &mut out, &idx, w[2].parse().unwrap(), w[3].parse().unwrap(), w[4].parse().unwrap(), 0),
                Some("seqbig") if w.len() >= 6 => run_seq_case(&h, &mut out, &idx, w[2].parse().unwrap(), w[3].parse().unwrap(), w[4].parse().unwrap(), w[5].parse().unwrap()),
                Some("drops") if w.len() >= 3 => run_drops_case(&h, &mut out, &idx, w[2].parse().unwrap()),
                Some("life") if w.len() >= 4 => run_life_case(&h, &mut out, &idx, w[2].parse().unwrap(), w[3].parse().unwrap()),
                Some("fwd") if w.len() >= 4 => run_fwd_case(&h, &mut out, &idx, w[3]),
                Some("batch") if w.len() >= 6 => {
                    run_batch_case(&h, &mut out, &idx, &BatchCase { kind: w[2].parse().unwrap(), n: w[3].parse().unwrap(), w: w[4].parse().unwrap(), order: if w[5] == "rev" { vec![usize::MAX] } else { w[5].split(',').filter_map(|x| x.parse().ok()).collect() } });
                }
                Some("dead") if w.len() >= 9 => {
                    run_dead_case(&h, &mut out, &idx, &DeadCase { kind: w[2].parse().unwrap(), n: w[3].parse().unwrap(), tmo: w[4] == "1", answered: w[5].parse().unwrap(), fault: w[6].into(), when: w[7].into(), cut: w[8].parse().unwrap() });
                }
                Some("tmo") if w.len() >= 4 => {
                    let jitter = w.iter().find_map(|x| x.strip_prefix("jitter_ms=")).and_then(|x| x.parse().ok()).unwrap_or(0);
                    run_tmo_case(&h, &mut out, &idx, w[2].parse().unwrap(), w[3], jitter);
                }
                Some("cancel") if w.len() >= 4 => run_cancel_case(&h, &mut out, &idx, w[2].parse().unwrap(), w[3]),
                #[cfg(feature = "hooks")]
                Some("sched") if w.len() >= 5 => {
                    let actions: Vec<String> = w[4].split(',').map(|x| x.to_string()).collect();
                    if sched::probes_present(&h) {
                        sched::run_sched_case(&h, &mut out, &idx, w[2].parse().unwrap(), w[3].parse().unwrap(), &actions);
                    }
                }
                Some("fwdres") => run_fwd_residue_case(&h, &mut out, &idx),
                Some("gap") if w.len() >= 4 => run_gap_case(&h, &mut out, &idx, w[2].parse().unwrap(), w[3]),
                Some("mstallfrag") if w.len() >= 4 => run_stallfrag_case_in(&h, &mut out, "mux", &idx, w[2].parse().unwrap(), w[3].parse().unwrap()),
                Some("stallfrag") if w.len() >= 4 => run_stallfrag_case(&h, &mut out, &idx, w[2].parse().unwrap(), w[3].parse().unwrap()),
                Some("knobs") if w.len() >= 4 => run_knobs_case(&h, &mut out, &idx, w[3].parse().unwrap()),
                Some("batchtmo") if w.len() >= 4 => run_batchtmo_case(&h, &mut out, &idx, w[2].parse().unwrap(), w[3].parse().unwrap()),
                Some("slowpeer") if w.len() >= 4 => run_slowpeer_case(&h, &mut out, &idx, w[2].parse().unwrap(), w[3].parse().unwrap()),
                Some("mlates") if w.len() >= 5 => run_lates_case_in(&h, &mut out, "mux", &idx, w[2].parse().unwrap(), w[3].parse().unwrap(), w[4]),
                Some("lates") if w.len() >= 5 => run_lates_case(&h, &mut out, &idx, w[2].parse().unwrap(), w[3].parse().unwrap(), w[4]),
                Some("abandon") if w.len() >= 4 => run_abandon_case(&h, &mut out, &idx, w[2].parse().unwrap(), w[3].parse().unwrap()),
                Some("wtmo") if w.len() >= 5 => run_wtmo_case(&h, &mut out, &idx, w[3].parse().unwrap(), w[4].parse().unwrap()),
                Some("stall") if w.len() >= 4 => run_stall_case(&h, &mut out, &idx, w[2].parse().unwrap(), w[3]),
                _ => {}
            }
        }
    } else if fam == "sched" {
        let prop = args.extra.get(1).cloned().unwrap_or_else(|| "c04".into());
        out.rule = "probe-forced schedules (verif-hooks): an action list over S<c> start+register, W<c> write, F<frame> match, D deliver, T<c> timer fired, C<c> cleanup, X malformed frame, A next statement of fail_all_pending is forced on the real client by parking callers and the reader at the probe points; random valid merges of the callers' and the reader's programs for 2-3 callers plus fixed schedules for the narrow windows (response between register and write, timer between match and deliver, late response after timeout, late caller after each statement of fail_all_pending). Every case is non-trivial".into();
        #[cfg(feature = "hooks")]
        {
            if sched::probes_present(&h) {
                out.extra.insert("probes".into(), json!(true));
                let cases = sched::gen(&args, &mut rng, &prop);
                for (i, (kind, n, actions)) in cases.iter().enumerate() {
                    sched::run_sched_case(&h, &mut out, &format!("s{i}"), *kind, *n, actions);
                    if out.oracle_failures >= 25 {
                        break; // enough failing inputs; the rest would only repeat them slowly
                    }
                }
            } else {
                out.extra.insert("probes".into(), json!(false));
                out.extra.insert("skipped".into(), json!("the tree under test has no probe points (hooks/mux.diff not applied)"));
            }
        }
        #[cfg(not(feature = "hooks"))]
        {
            let _ = prop;
            out.extra.insert("probes".into(), json!(false));
            out.extra.insert("skipped".into(), json!("harness built without the hooks feature"));
        }
    } else if fam == "mux" {
        out.rule = "N concurrent calls on clones of one client (blocking/async/WebSocket) against a scripted raw server that first collects all N requests, then emits a script: every permutation of the N responses for N<=4 (thorough: <=6), each adversarial frame kind (unknown id, unknown-id notify, duplicate, notify re-using an in-flight id) at every position for N=2, random scripts with several such frames for N<=64; batch_json with a windowed out-of-order server; T workers x K back-to-back calls answered the instant they are read. Distinct by op line; non-trivial = at least two concurrent callers or an adversarial frame (batch: the server finished out of request order)".into();
        let (cases, batches) = gen_mux(&args, &mut rng);
        for (i, c) in cases.iter().enumerate() {
            run_mux_case(&h, &mut out, &format!("m{i}"), c);
            if out.oracle_failures >= 12 {
                break; // enough failing inputs: on a broken tree the rest only repeats them, slowly
            }
        }
        for (i, b) in batches.iter().enumerate() {
            if out.oracle_failures >= 12 {
                break;
            }
            run_batch_case(&h, &mut out, &format!("b{i}"), b);
        }
        let mut q = 0;
        for kind in 0..3 {
            for (t, k) in if args.thorough() { vec![(1, 2000), (4, 1000), (16, 300)] } else { vec![(1, 300), (4, 150)] } {
                run_seq_case(&h, &mut out, &format!("q{q}"), kind, t, k, 0);
                q += 1;
            }
        }
        // WebSocket client: oversized (locally refused) requests racing id allocation of other callers
        for (t, k, nbig) in if args.thorough() { vec![(8, 1500, 24), (4, 2000, 24)] } else { vec![(8, 500, 8)] } {
            run_seq_case(&h, &mut out, &format!("q{q}"), 2, t, k, nbig);
            q += 1;
        }
        for kind in 0..3 {
            for _ in 0..(if args.thorough() { 12 } else { 2 }) {
                run_life_case(&h, &mut out, &format!("l{q}"), kind, rng.next() % 1_000_000);
                q += 1;
            }
        }
        for kind in 0..3 {
            let mut shapes = vec![(31usize, "unknown"), (32, "unknown"), (33, "unknown"), (64, "dup"), (65, "unknown"), (32, "dup"), (33, "late"), (17, "errs")];
            if args.thorough() {
                shapes.extend([(256, "unknown"), (1000, "dup"), (257, "late")]);
            }
            for (k, shape) in shapes {
                if out.oracle_failures >= 12 { break; }
                run_lates_case_in(&h, &mut out, "mux", &format!("k{q}"), kind, k, shape);
                q += 1;
            }
        }
        for kind in 0..3 {
            run_drops_case(&h, &mut out, &format!("dr{q}"), kind);
            q += 1;
        }
        // (l) the async clients on a runtime with ONE worker thread: callers, the reader task and their timers share it
        for kind in 1..3 {
            run_seq_case(&h1, &mut out, &format!("q{q}"), kind, 4, if args.thorough() { 600 } else { 120 }, 0);
            q += 1;
            run_lates_case_in(&h1, &mut out, "mux", &format!("k{q}"), kind, 33, "late");
            q += 1;
        }
        if args.thorough() {
            // a response interrupted for 5.5 s right in front of a well-formed frame embedded in its body: a reader
            // that loses its place hands the embedded frame to the other call
            for kind in 0..3 {
                run_stallfrag_case_in(&h, &mut out, "mux", &format!("sf{q}"), kind, 5500);
                q += 1;
            }
        }
        for mode in ["ids", "dup", "reuse"] {
            run_fwd_case(&h, &mut out, &format!("f{q}"), mode);
            q += 1;
        }
    } else {
        out.rule = "per client: each fault kind (FIN, RST via SO_LINGER 0, close with unread requests, each malformed header / WebSocket message kind, response cut at a header/body byte-offset class, WebSocket close) with 0..16 calls in flight, before or after the requests were read, optionally after answering some calls, with and without per-call timeouts; then one more call and the notify subscriber; timeouts racing the response (late / early / timed race); cancellation before write (writer stalled by a 12 MiB request) and during wait; a malformed frame delivered while another caller is stalled in write (peer not reading); an async call aborted while its large write is parked, then another call; a blocking write timing out mid-frame with calls in flight against a silent peer. Non-trivial = at least one call in flight / every timeout and cancel scenario".into();
        let cases = gen_dead(&args, &mut rng);
        for (i, c) in cases.iter().enumerate() {
            run_dead_case(&h, &mut out, &format!("d{i}"), c);
            if out.oracle_failures >= 12 {
                break; // enough failing inputs: on a broken tree the rest only repeats them, slowly
            }
        }
        let mut t = 0;
        for kind in 0..3 {
            for mode in ["late", "early"] {
                run_tmo_case(&h, &mut out, &format!("t{t}"), kind, mode, 0);
                t += 1;
            }
            // every `_with_timeout` twin: an unanswered call times out (also with a zero duration), an
            // answered one returns its answer
            for v in (1..18).step_by(2) {
                if kind == 2 && (6..10).contains(&v) {
                    continue;
                }
                for m in [["late", "zero"][(v / 2 + kind) % 2], "early"] {
                    run_tmo_case(&h, &mut out, &format!("t{t}"), kind, &format!("{}.{}", m, v), 0);
                    t += 1;
                }
            }
            let races = if args.thorough() { 120 } else { 8 };
            for _ in 0..races {
                run_tmo_case(&h, &mut out, &format!("t{t}"), kind, "race", rng.below(25));
                t += 1;
            }
        }
        let mut c = 0;
        for kind in 1..3 {
            let reps = if args.thorough() { 20 } else { 2 };
            for _ in 0..reps {
                run_cancel_case(&h, &mut out, &format!("c{c}"), kind, "wait");
                c += 1;
            }
            run_cancel_case(&h, &mut out, &format!("c{c}"), kind, "prewrite");
            c += 1;
        }
        run_fwd_residue_case(&h, &mut out, "fr0");
        // a call abandoned while another call's response is half delivered
        for kind in 0..3 {
            run_gap_case(&h, &mut out, &format!("g{kind}t"), kind, "tmo");
            if kind != 0 {
                run_gap_case(&h, &mut out, &format!("g{kind}a"), kind, "abort");
            }
        }
        // responses delivered in pieces with pauses longer than any plausible internal timer
        for kind in 0..3 {
            for ms in if args.thorough() { vec![300u64, 600, 1100, 2500, 5500, 11_000] } else { vec![300, 600, 1100] } {
                run_stallfrag_case(&h, &mut out, &format!("sf{kind}_{ms}"), kind, ms);
            }
        }
        // a batch with a timeout and more entries than workers; a slow large write under a per-call timeout
        for kind in 0..3 {
            if out.oracle_failures >= 12 { break; }
            if kind == 0 {
                run_knobs_case(&h, &mut out, "kn0", 3);
            }
            run_batchtmo_case(&h, &mut out, &format!("bt{kind}"), kind, 100);
            run_slowpeer_case(&h, &mut out, &format!("sp{kind}"), kind, 12);
        }
        // many frames in a row that nobody waits for, with a call still pending
        let mut lq = 0;
        for kind in 0..3 {
            let mut shapes = vec![(1usize, "late"), (2, "late"), (7, "late"), (8, "late"), (9, "late"), (16, "late"), (17, "late"), (64, "late"), (65, "late"), (8, "unknown"), (9, "unknown"), (64, "unknown"), (9, "dup"), (16, "dup"), (65, "dup"),
                (8, "errs"), (33, "errs"), (9, "cancel"), (33, "cancel"), (9, "push"), (65, "push")];
            if args.thorough() {
                shapes.extend([(256, "late"), (256, "unknown"), (1000, "unknown"), (1000, "dup"), (256, "errs"), (256, "cancel"), (1000, "push")]);
            }
            for (k, shape) in shapes {
                if (shape == "cancel" && kind == 0) || (shape == "push" && kind != 2) {
                    continue;
                }
                if out.oracle_failures >= 12 {
                    break;
                }
                run_lates_case(&h, &mut out, &format!("k{lq}"), kind, k, shape);
                lq += 1;
            }
        }
        // a call abandoned while its large write is parked; a write timing out mid-frame with calls in flight
        let reps = if args.thorough() { 6 } else { 2 };
        for j in 0..reps {
            run_abandon_case(&h, &mut out, &format!("a{j}"), 1, if j % 2 == 0 { 12 } else { 20 });
            run_wtmo_case(&h, &mut out, &format!("w{j}"), 3 + j % 2, 12);
        }
        // a writer stalled by a peer that stopped reading must not keep the failure from the other calls
        let mut k = 0;
        for kind in 0..3 {
            let faults: &[&str] = if args.thorough() { &["badspec", "badlen", "shortlen"] } else { &["badspec"] };
            for f in faults {
                run_stall_case(&h, &mut out, &format!("s{k}"), kind, f);
                k += 1;
            }
        }
    }
    out.finish();
    std::process::exit(0);
}
