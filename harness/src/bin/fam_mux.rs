//! Families `mux` (C04) and `deadconn` (C06): the three multiplexing clients (`Client`, `AsyncClient`,
//! `WebSocketClient`) against a scripted fake server (raw TCP / raw WebSocket) that is driven command
//! by command from the main thread, so every step advances on an observable event.
//!
//! `fam_mux mux …`      concurrent calls on clones of one client, adversarial reply scripts, batch_json
//! `fam_mux deadconn …` connection faults with calls in flight, timeouts racing responses, cancellation
use futures_util::{SinkExt, StreamExt};
use repe::{AsyncClient, Client, Message, RepeError, WebSocketClient};
use repe_verif_harness::frames::RawFrame;
use repe_verif_harness::*;
use serde_json::{json, Value};
use std::os::fd::AsRawFd;
use std::sync::mpsc as smpsc;
use std::time::{Duration, Instant};
use tokio::io::{AsyncReadExt, AsyncWriteExt};
use tokio::sync::mpsc as tmpsc;
use tokio_tungstenite::tungstenite::Message as WsMsg;

const WATCHDOG: Duration = Duration::from_secs(15);
/// Once a hang was reported the remaining cases use a short watchdog for *call results and the
/// subscriber* (the report is already made; this only bounds the run time of a failing run).
static SAW_HANG: std::sync::atomic::AtomicBool = std::sync::atomic::AtomicBool::new(false);
fn call_watchdog() -> Duration {
    if SAW_HANG.load(std::sync::atomic::Ordering::Relaxed) { Duration::from_secs(2) } else { WATCHDOG }
}
fn saw_hang() {
    SAW_HANG.store(true, std::sync::atomic::Ordering::Relaxed);
}
const CALL_TIMEOUT: Duration = Duration::from_secs(9);
const KINDS: [&str; 3] = ["blocking", "async", "ws"];

// ---------------------------------------------------------------------------------------------
// scripted server
// ---------------------------------------------------------------------------------------------
enum Cmd {
    /// read `k` more whole request frames
    Read(usize),
    /// read one more request frame if it arrives within the given time (reply: `Frames` with 0 or 1 frame)
    TryRead(Duration),
    /// read `k` request frames, answering each the moment it is read (tag = the caller's tag)
    Echo(usize),
    /// send each element as one frame (TCP: one write; WebSocket: one binary message)
    Send(Vec<Vec<u8>>),
    /// raw bytes on the TCP stream (WebSocket: beneath the WebSocket layer)
    SendRaw(Vec<u8>),
    SendText,
    SendWsClose,
    /// wait until at least `n` bytes sit unread in the socket's receive queue
    WaitUnread(usize),
    Sleep(Duration),
    Close,
    Reset,
}

enum Event {
    Frames(Vec<RawFrame>),
    Done,
    SrvErr(String),
    Res(usize, Result<Value, RepeError>),
    Fwd(Result<Option<Message>, RepeError>),
}

enum Conn {
    Tcp(tokio::net::TcpStream, Vec<u8>),
    Ws(Box<tokio_tungstenite::WebSocketStream<tokio::net::TcpStream>>),
}

impl Conn {
    fn raw(&mut self) -> &mut tokio::net::TcpStream {
        match self {
            Conn::Tcp(s, _) => s,
            Conn::Ws(w) => w.get_mut(),
        }
    }
    async fn read_frame(&mut self) -> Result<RawFrame, String> {
        match self {
            Conn::Tcp(s, buf) => loop {
                if let Some((f, n)) = RawFrame::parse_prefix(buf) {
                    buf.drain(..n);
                    return Ok(f);
                }
                let mut tmp = vec![0u8; 1 << 16];
                match s.read(&mut tmp).await {
                    Ok(0) => return Err("eof".into()),
                    Ok(n) => buf.extend_from_slice(&tmp[..n]),
                    Err(e) => return Err(format!("read:{:?}", e.kind())),
                }
            },
            Conn::Ws(w) => loop {
                match w.next().await {
                    None => return Err("eof".into()),
                    Some(Err(e)) => return Err(format!("ws:{e}")),
                    Some(Ok(WsMsg::Binary(b))) => match RawFrame::parse_prefix(&b) {
                        Some((f, n)) if n == b.len() => return Ok(f),
                        _ => return Err("malformed-request".into()),
                    },
                    Some(Ok(WsMsg::Close(_))) => return Err("ws-close".into()),
                    Some(Ok(_)) => {}
                }
            },
        }
    }
    async fn send_frame(&mut self, bytes: Vec<u8>) -> Result<(), String> {
        match self {
            Conn::Tcp(s, _) => s.write_all(&bytes).await.map_err(|e| format!("write:{:?}", e.kind())),
            Conn::Ws(w) => w.send(WsMsg::Binary(bytes)).await.map_err(|e| format!("ws-send:{e}")),
        }
    }
}

fn unread(fd: i32) -> usize {
    let mut n: libc::c_int = 0;
    // SAFETY-free call: FIONREAD writes one int
    let r = unsafe_ioctl(fd, &mut n);
    if r < 0 { 0 } else { n as usize }
}

#[allow(unsafe_code)]
fn unsafe_ioctl(fd: i32, n: &mut libc::c_int) -> i32 {
    unsafe { libc::ioctl(fd, libc::FIONREAD, n as *mut libc::c_int) }
}

async fn server_task(is_ws: bool, listener: tokio::net::TcpListener, mut cmds: tmpsc::UnboundedReceiver<Cmd>, ev: smpsc::Sender<Event>) {
    let (stream, _) = match listener.accept().await {
        Ok(x) => x,
        Err(e) => {
            let _ = ev.send(Event::SrvErr(format!("accept:{e}")));
            return;
        }
    };
    stream.set_nodelay(true).ok();
    let mut conn = if is_ws {
        match tokio_tungstenite::accept_async(stream).await {
            Ok(w) => Conn::Ws(Box::new(w)),
            Err(e) => {
                let _ = ev.send(Event::SrvErr(format!("ws-accept:{e}")));
                return;
            }
        }
    } else {
        Conn::Tcp(stream, Vec::new())
    };
    while let Some(cmd) = cmds.recv().await {
        match cmd {
            Cmd::Read(k) => {
                let mut out = Vec::new();
                let mut err = None;
                for _ in 0..k {
                    match conn.read_frame().await {
                        Ok(f) => out.push(f),
                        Err(e) => {
                            err = Some(e);
                            break;
                        }
                    }
                }
                let _ = match err {
                    Some(e) => ev.send(Event::SrvErr(e)),
                    None => ev.send(Event::Frames(out)),
                };
            }
            Cmd::TryRead(d) => {
                let _ = match tokio::time::timeout(d, conn.read_frame()).await {
                    Ok(Ok(f)) => ev.send(Event::Frames(vec![f])),
                    Ok(Err(e)) => ev.send(Event::SrvErr(e)),
                    Err(_) => ev.send(Event::Frames(Vec::new())),
                };
            }
            Cmd::Echo(k) => {
                let mut r = Ok(());
                for _ in 0..k {
                    r = match conn.read_frame().await {
                        Ok(f) => {
                            let c = caller_of(&f).map(|c| c as i64).unwrap_or(-1);
                            conn.send_frame(response(f.h.id, false, c, c)).await
                        }
                        Err(e) => Err(e),
                    };
                    if r.is_err() {
                        break;
                    }
                }
                let _ = match r {
                    Ok(()) => ev.send(Event::Done),
                    Err(e) => ev.send(Event::SrvErr(e)),
                };
            }
            Cmd::Send(frames) => {
                let mut r = Ok(());
                for f in frames {
                    r = conn.send_frame(f).await;
                    if r.is_err() {
                        break;
                    }
                }
                let _ = match r {
                    Ok(()) => ev.send(Event::Done),
                    Err(e) => ev.send(Event::SrvErr(e)),
                };
            }
            Cmd::SendRaw(bytes) => {
                let r = conn.raw().write_all(&bytes).await;
                let _ = conn.raw().flush().await;
                let _ = match r {
                    Ok(()) => ev.send(Event::Done),
                    Err(e) => ev.send(Event::SrvErr(format!("raw:{:?}", e.kind()))),
                };
            }
            Cmd::SendText => {
                let r = match &mut conn {
                    Conn::Ws(w) => w.send(WsMsg::Text("not binary".into())).await.map_err(|e| e.to_string()),
                    Conn::Tcp(..) => Err("text on tcp".into()),
                };
                let _ = match r {
                    Ok(()) => ev.send(Event::Done),
                    Err(e) => ev.send(Event::SrvErr(e)),
                };
            }
            Cmd::SendWsClose => {
                if let Conn::Ws(w) = &mut conn {
                    let _ = w.send(WsMsg::Close(None)).await;
                }
                let _ = ev.send(Event::Done);
            }
            Cmd::WaitUnread(n) => {
                let fd = conn.raw().as_raw_fd();
                let t0 = Instant::now();
                let mut ok = true;
                while unread(fd) < n {
                    if t0.elapsed() > WATCHDOG {
                        ok = false;
                        break;
                    }
                    tokio::time::sleep(Duration::from_millis(2)).await;
                }
                let _ = if ok { ev.send(Event::Done) } else { ev.send(Event::SrvErr("wait-unread".into())) };
            }
            Cmd::Sleep(d) => {
                tokio::time::sleep(d).await;
                let _ = ev.send(Event::Done);
            }
            Cmd::Close => {
                drop(conn);
                let _ = ev.send(Event::Done);
                return;
            }
            Cmd::Reset => {
                #[allow(deprecated)]
                let _ = conn.raw().set_linger(Some(Duration::ZERO));
                drop(conn);
                let _ = ev.send(Event::Done);
                return;
            }
        }
    }
}

// ---------------------------------------------------------------------------------------------
// clients
// ---------------------------------------------------------------------------------------------
#[derive(Clone)]
enum Cl {
    B(Client),
    A(AsyncClient),
    W(WebSocketClient),
}

struct Session {
    kind: usize,
    cl: Cl,
    cmd: tmpsc::UnboundedSender<Cmd>,
    ev_tx: smpsc::Sender<Event>,
    ev: smpsc::Receiver<Event>,
    /// results that arrived while waiting for something else
    stash: Vec<(usize, Result<Value, RepeError>)>,
    /// server replies that arrived while waiting for a call result
    srv_stash: std::collections::VecDeque<Event>,
    handles: Vec<(usize, tokio::task::JoinHandle<()>)>,
}

struct H {
    rt: tokio::runtime::Runtime,
}

impl H {
    fn open(&self, kind: usize) -> Result<Session, String> {
        let (cmd, cmd_rx) = tmpsc::unbounded_channel();
        let (ev_tx, ev) = smpsc::channel();
        let listener = self.rt.block_on(tokio::net::TcpListener::bind("127.0.0.1:0")).map_err(|e| e.to_string())?;
        let addr = listener.local_addr().map_err(|e| e.to_string())?;
        self.rt.spawn(server_task(kind == 2, listener, cmd_rx, ev_tx.clone()));
        let cl = match kind {
            0 => Cl::B(Client::connect(addr).map_err(|e| e.to_string())?),
            1 => Cl::A(self.rt.block_on(AsyncClient::connect(addr)).map_err(|e| e.to_string())?),
            _ => Cl::W(self.rt.block_on(WebSocketClient::connect(&format!("ws://{}/", addr))).map_err(|e| e.to_string())?),
        };
        Ok(Session { kind, cl, cmd, ev_tx, ev, stash: Vec::new(), srv_stash: Default::default(), handles: Vec::new() })
    }
}

impl Session {
    /// Start one call tagged `c`; its result arrives as `Event::Res(c, ..)`.
    fn call(&mut self, h: &H, c: usize, body: Value, timeout: Option<Duration>) {
        let tx = self.ev_tx.clone();
        match self.cl.clone() {
            Cl::B(cl) => {
                std::thread::spawn(move || {
                    let r = match timeout {
                        Some(t) => cl.call_json_with_timeout("/t", &body, t),
                        None => cl.call_json("/t", &body),
                    };
                    let _ = tx.send(Event::Res(c, r));
                });
            }
            Cl::A(cl) => {
                let jh = h.rt.spawn(async move {
                    let r = match timeout {
                        Some(t) => cl.call_json_with_timeout("/t", &body, t).await,
                        None => cl.call_json("/t", &body).await,
                    };
                    let _ = tx.send(Event::Res(c, r));
                });
                self.handles.push((c, jh));
            }
            Cl::W(cl) => {
                let jh = h.rt.spawn(async move {
                    let r = match timeout {
                        Some(t) => cl.call_json_with_timeout("/t", &body, t).await,
                        None => cl.call_json("/t", &body).await,
                    };
                    let _ = tx.send(Event::Res(c, r));
                });
                self.handles.push((c, jh));
            }
        }
    }
    /// Abort the task running call `c` and wait until it is gone.
    fn abort(&mut self, h: &H, c: usize) -> bool {
        if let Some(p) = self.handles.iter().position(|(x, _)| *x == c) {
            let (_, jh) = self.handles.remove(p);
            jh.abort();
            let r = h.rt.block_on(async { tokio::time::timeout(WATCHDOG, jh).await });
            matches!(r, Ok(Err(e)) if e.is_cancelled())
        } else {
            false
        }
    }
    fn send(&self, c: Cmd) {
        let _ = self.cmd.send(c);
    }
    /// Next server reply (Frames / Done / SrvErr); call results arriving meanwhile are stashed.
    fn srv(&mut self) -> Result<Event, String> {
        if let Some(e) = self.srv_stash.pop_front() {
            return match e {
                Event::SrvErr(e) => Err(e),
                e => Ok(e),
            };
        }
        let deadline = Instant::now() + WATCHDOG;
        loop {
            let left = deadline.saturating_duration_since(Instant::now());
            match self.ev.recv_timeout(left) {
                Ok(Event::Res(c, r)) => self.stash.push((c, r)),
                Ok(Event::SrvErr(e)) => return Err(e),
                Ok(e) => return Ok(e),
                Err(_) => return Err("server-watchdog".into()),
            }
        }
    }
    fn srv_done(&mut self) -> Result<(), String> {
        match self.srv()? {
            Event::Done => Ok(()),
            _ => Err("unexpected server reply".into()),
        }
    }
    fn read(&mut self, k: usize) -> Result<Vec<RawFrame>, String> {
        self.send(Cmd::Read(k));
        match self.srv()? {
            Event::Frames(f) => Ok(f),
            _ => Err("unexpected server reply".into()),
        }
    }
    /// Next call result, waiting at most `wd`.
    fn res(&mut self, wd: Duration) -> Option<(usize, Result<Value, RepeError>)> {
        if !self.stash.is_empty() {
            return Some(self.stash.remove(0));
        }
        let deadline = Instant::now() + wd;
        loop {
            let left = deadline.saturating_duration_since(Instant::now());
            match self.ev.recv_timeout(left) {
                Ok(Event::Res(c, r)) => return Some((c, r)),
                Ok(e) => self.srv_stash.push_back(e),
                Err(_) => return None,
            }
        }
    }
}

fn req_body(c: usize) -> Value {
    json!({ "c": 100 + c })
}
fn caller_of(f: &RawFrame) -> Option<usize> {
    let v: Value = serde_json::from_slice(&f.body).ok()?;
    Some((v.get("c")?.as_u64()? as usize).checked_sub(100)?)
}
fn response(id: u64, notify: bool, tag: i64, c: i64) -> Vec<u8> {
    let body = serde_json::to_vec(&json!({ "tag": tag, "c": c })).unwrap();
    RawFrame::request(id, notify, 1, b"/t", 2, &body).to_vec()
}
fn tag_of(v: &Value) -> Option<i64> {
    v.get("tag")?.as_i64()
}
fn cls(e: &RepeError) -> String {
    match e {
        RepeError::Io(io) if io.kind() == std::io::ErrorKind::TimedOut => "Timeout".into(),
        _ => "Err".into(),
    }
}
/// wire size of one request with `req_body` (TCP) / plus the client-to-server WebSocket framing
fn req_wire_len(kind: usize) -> usize {
    let n = RawFrame::request(1, false, 1, b"/t", 2, &serde_json::to_vec(&req_body(0)).unwrap()).to_vec().len();
    if kind == 2 { n + 6 } else { n }
}

// ---------------------------------------------------------------------------------------------
// family `mux`
// ---------------------------------------------------------------------------------------------
#[derive(Clone, Debug)]
struct MuxCase {
    kind: usize,
    n: usize,
    script: Vec<String>,
}

fn run_mux_case(h: &H, out: &mut Out, idx: &str, case: &MuxCase) {
    let kname = KINDS[case.kind];
    let script_s = if case.script.is_empty() { "-".to_string() } else { case.script.join(",") };
    let op_of = |ids: &str| format!("case {} {} {} {} {}", idx, case.kind, case.n, ids, script_s);
    out.begin(&op_of("?"));
    let fail = |out: &mut Out, sig: &str, detail: String, ids: &str| {
        out.oracle_fail(&format!("mux.{}.{}", kname, sig), &detail, &[op_of(ids)]);
    };
    let mut s = match h.open(case.kind) {
        Ok(s) => s,
        Err(e) => {
            out.count("mux.setup_failed");
            eprintln!("setup failed: {e}");
            return;
        }
    };
    let mut sub = match &s.cl {
        Cl::W(w) => w.subscribe_notifies().ok(),
        _ => None,
    };
    for c in 0..case.n {
        s.call(h, c, req_body(c), None);
    }
    let frames = match s.read(case.n) {
        Ok(f) => f,
        Err(e) => {
            fail(out, "requests_missing", format!("server did not receive {} requests: {}", case.n, e), "?");
            return;
        }
    };
    let mut ids: Vec<Option<u64>> = vec![None; case.n];
    for f in &frames {
        match caller_of(f) {
            Some(c) if c < case.n && ids[c].is_none() => ids[c] = Some(f.h.id),
            _ => {
                fail(out, "request_garbled", format!("unexpected request body {:?}", String::from_utf8_lossy(&f.body)), "?");
                return;
            }
        }
    }
    let ids: Vec<u64> = ids.into_iter().map(|x| x.unwrap()).collect();
    let ids_s = if ids.is_empty() { "-".to_string() } else { ids.iter().map(|x| x.to_string()).collect::<Vec<_>>().join(",") };
    // oracle: ids pairwise distinct
    let mut sorted = ids.clone();
    sorted.sort();
    if sorted.windows(2).any(|w| w[0] == w[1]) {
        fail(out, "ids_not_distinct", format!("request ids seen by the server: {:?}", ids), &ids_s);
    }
    // frames of the script
    let unknown_base = ids.iter().max().copied().unwrap_or(0) + 1_000_000_000;
    let mut wire = Vec::new();
    let mut meta: Vec<(Option<usize>, bool)> = Vec::new(); // (caller whose id is used, notify)
    for (pos, t) in case.script.iter().enumerate() {
        let k: usize = t[1..].parse().unwrap();
        let (id, notify, who) = match &t[..1] {
            "r" => (ids[k], false, Some(k)),
            "n" => (ids[k], true, Some(k)),
            "u" => (unknown_base + k as u64, false, None),
            _ => (unknown_base + k as u64, true, None),
        };
        wire.push(response(id, notify, pos as i64, who.map(|x| x as i64).unwrap_or(-1)));
        meta.push((who, notify));
        out.count(&format!("mux.frame.{}", &t[..1]));
    }
    let n_notify = meta.iter().filter(|m| m.1).count();
    if case.kind == 2 {
        wire.push(response(unknown_base + 999_999, true, -1, -1)); // end marker for the subscriber
    }
    // one write per frame on even cases, one coalesced write on odd ones (TCP only)
    if case.kind != 2 && case.script.len() % 2 == 1 {
        s.send(Cmd::SendRaw(wire.concat()));
    } else {
        s.send(Cmd::Send(wire));
    }
    if let Err(e) = s.srv_done() {
        fail(out, "server_send_failed", e, &ids_s);
        return;
    }
    // results
    let mut got: Vec<String> = vec!["HANG".into(); case.n];
    for _ in 0..case.n {
        match s.res(call_watchdog()) {
            None => break,
            Some((c, Ok(v))) => {
                let tag = tag_of(&v).unwrap_or(-2);
                got[c] = tag.to_string();
                let ok_frame = tag >= 0 && (tag as usize) < meta.len() && meta[tag as usize].0 == Some(c);
                if !ok_frame {
                    fail(out, "wrong_response", format!("caller {} (id {}) returned frame #{} = {:?}, which does not carry its id", c, ids[c], tag, case.script.get(tag as usize)), &ids_s);
                } else if case.kind == 2 && meta[tag as usize].1 {
                    fail(out, "notify_delivered_to_caller", format!("caller {} returned the notify frame #{}", c, tag), &ids_s);
                }
            }
            Some((c, Err(e))) => {
                got[c] = "E".into();
                fail(out, "call_failed", format!("caller {} failed: {}", c, io_kind(&e)), &ids_s);
            }
        }
    }
    for (c, g) in got.iter().enumerate() {
        if g == "HANG" {
            fail(out, "hang", format!("caller {} did not return within {:?}", c, call_watchdog()), &ids_s);
            saw_hang();
        }
    }
    // subscriber
    let mut subs: Vec<i64> = Vec::new();
    if let Some(rx) = sub.as_mut() {
        let r = h.rt.block_on(async {
            let mut v = Vec::new();
            loop {
                match tokio::time::timeout(WATCHDOG, rx.recv()).await {
                    Ok(Some(m)) => {
                        let t = serde_json::from_slice::<Value>(&m.body).ok().and_then(|v| tag_of(&v)).unwrap_or(-2);
                        if t == -1 {
                            return Ok(v);
                        }
                        v.push(t);
                    }
                    Ok(None) => return Err("subscriber stream ended"),
                    Err(_) => return Err("subscriber watchdog"),
                }
            }
        });
        match r {
            Ok(v) => subs = v,
            Err(e) => fail(out, "subscriber_lost", e.to_string(), &ids_s),
        }
        let want: Vec<i64> = meta.iter().enumerate().filter(|(_, m)| m.1).map(|(i, _)| i as i64).collect();
        if subs != want {
            fail(out, "subscriber_mismatch", format!("subscriber saw {:?}, notify frames were {:?}", subs, want), &ids_s);
        }
    }
    let sub_s = if subs.is_empty() { "-".to_string() } else { subs.iter().map(|x| x.to_string()).collect::<Vec<_>>().join(",") };
    let extras = case.script.iter().filter(|t| !t.starts_with('r')).count() + (case.script.len() - n_notify).saturating_sub(case.n);
    out.case(&op_of(&ids_s), &format!("{} got {} sub {}", idx, if got.is_empty() { "".to_string() } else { got.join(",") }, sub_s), case.n >= 2 || extras > 0);
    out.count(&format!("mux.{}.n.{}", kname, if case.n <= 6 { case.n.to_string() } else if case.n <= 16 { "7-16".into() } else { "17-64".into() }));
    s.send(Cmd::Close);
}

#[derive(Clone, Debug)]
struct BatchCase {
    kind: usize,
    n: usize,
    w: usize,
    order: Vec<usize>,
}

fn run_batch_case(h: &H, out: &mut Out, idx: &str, case: &BatchCase) {
    let kname = KINDS[case.kind];
    let rev = case.order == [usize::MAX];
    let op = format!("batch {} {} {} {} {}", idx, case.kind, case.n, case.w, if rev { "rev".to_string() } else { case.order.iter().map(|x| x.to_string()).collect::<Vec<_>>().join(",") });
    out.begin(&op);
    let mut s = match h.open(case.kind) {
        Ok(s) => s,
        Err(e) => {
            eprintln!("setup failed: {e}");
            out.count("mux.setup_failed");
            return;
        }
    };
    let reqs: Vec<(String, Value)> = (0..case.n).map(|j| ("/t".to_string(), req_body(j))).collect();
    let (btx, brx) = smpsc::channel::<Vec<Result<Value, RepeError>>>();
    match s.cl.clone() {
        Cl::B(cl) => {
            std::thread::spawn(move || {
                let _ = btx.send(cl.batch_json(reqs));
            });
        }
        Cl::A(cl) => {
            h.rt.spawn(async move {
                let _ = btx.send(cl.batch_json(reqs).await);
            });
        }
        Cl::W(cl) => {
            h.rt.spawn(async move {
                let _ = btx.send(cl.batch_json(reqs).await);
            });
        }
    }
    // windowed release: hold up to `w` requests, answer the one the script picks
    let mut held: Vec<RawFrame> = Vec::new();
    let mut received = 0usize;
    let mut answered = 0usize;
    let mut finish_order: Vec<usize> = Vec::new();
    let mut ids = Vec::new();
    while answered < case.n {
        // never make the client wait for an answer we are holding: block for a request only when
        // nothing is held, otherwise take one more only if it is already on its way
        while held.len() < case.w && received < case.n {
            if held.is_empty() {
                s.send(Cmd::Read(1));
            } else {
                s.send(Cmd::TryRead(Duration::from_millis(30)));
            }
            match s.srv() {
                Ok(Event::Frames(mut f)) if !f.is_empty() => {
                    ids.push(f[0].h.id);
                    held.push(f.remove(0));
                    received += 1;
                }
                Ok(Event::Frames(_)) => break,
                Ok(_) => break,
                Err(e) => {
                    out.oracle_fail(&format!("mux.{}.batch_requests_missing", kname), &e, &[op.clone()]);
                    return;
                }
            }
        }
        let pick = if rev { held.len() - 1 } else { case.order[answered % case.order.len().max(1)] % held.len() };
        let f = held.remove(pick);
        let c = caller_of(&f).unwrap_or(usize::MAX);
        finish_order.push(c);
        s.send(Cmd::Send(vec![response(f.h.id, false, c as i64, c as i64)]));
        if let Err(e) = s.srv_done() {
            out.oracle_fail(&format!("mux.{}.batch_server_send_failed", kname), &e, &[op.clone()]);
            return;
        }
        answered += 1;
    }
    let mut sorted = ids.clone();
    sorted.sort();
    if sorted.windows(2).any(|w| w[0] == w[1]) {
        out.oracle_fail(&format!("mux.{}.ids_not_distinct", kname), &format!("batch request ids {:?}", ids), &[op.clone()]);
    }
    let obs = match brx.recv_timeout(WATCHDOG) {
        Err(_) => {
            out.oracle_fail(&format!("mux.{}.batch_hang", kname), "batch_json did not return", &[op.clone()]);
            "HANG".to_string()
        }
        Ok(results) => {
            let tags: Vec<String> = results.iter().map(|r| match r {
                Ok(v) => tag_of(v).map(|t| t.to_string()).unwrap_or("?".into()),
                Err(_) => "E".into(),
            }).collect();
            if results.len() != case.n {
                out.oracle_fail(&format!("mux.{}.batch_len", kname), &format!("{} results for {} requests", results.len(), case.n), &[op.clone()]);
            }
            for (j, t) in tags.iter().enumerate() {
                if *t != j.to_string() {
                    out.oracle_fail(&format!("mux.{}.batch_misaligned", kname), &format!("result slot {} holds the answer to request {} (server finish order {:?})", j, t, finish_order), &[op.clone()]);
                    break;
                }
            }
            format!("out {}", tags.join(","))
        }
    };
    let reordered = finish_order.windows(2).any(|w| w[0] > w[1]);
    out.count(&format!("mux.{}.batch.{}", kname, if reordered { "reordered" } else { "in_order" }));
    out.case(&op, &format!("{} {}", idx, obs), reordered);
    s.send(Cmd::Close);
}

/// `k` calls one after the other from `t` threads/tasks, each answered the instant the server has read
/// it: the response races the caller's own bookkeeping after the write.
fn run_seq_case(h: &H, out: &mut Out, idx: &str, kind: usize, t: usize, k: usize) {
    let kname = KINDS[kind];
    let op = format!("seq {} {} {} {}", idx, kind, t, k);
    out.begin(&op);
    let ops = [op.clone()];
    let Ok(mut s) = h.open(kind) else { return };
    s.send(Cmd::Echo(t * k));
    let (dtx, drx) = smpsc::channel::<(usize, usize, String)>();
    for w in 0..t {
        let dtx = dtx.clone();
        let cl = s.cl.clone();
        let body = move |j: usize| req_body(w * k + j);
        let check = move |j: usize, r: Result<Value, RepeError>| -> Option<String> {
            match r {
                Ok(v) if tag_of(&v) == Some((w * k + j) as i64) => None,
                Ok(v) => Some(format!("call {} of worker {} returned tag {:?}", j, w, tag_of(&v))),
                Err(e) => Some(format!("call {} of worker {} failed: {}", j, w, io_kind(&e))),
            }
        };
        match cl {
            Cl::B(cl) => {
                std::thread::spawn(move || {
                    for j in 0..k {
                        if let Some(e) = check(j, cl.call_json("/t", &body(j))) {
                            let _ = dtx.send((w, j, e));
                            return;
                        }
                    }
                    let _ = dtx.send((w, k, String::new()));
                });
            }
            Cl::A(cl) => {
                h.rt.spawn(async move {
                    for j in 0..k {
                        if let Some(e) = check(j, cl.call_json("/t", &body(j)).await) {
                            let _ = dtx.send((w, j, e));
                            return;
                        }
                    }
                    let _ = dtx.send((w, k, String::new()));
                });
            }
            Cl::W(cl) => {
                h.rt.spawn(async move {
                    for j in 0..k {
                        if let Some(e) = check(j, cl.call_json("/t", &body(j)).await) {
                            let _ = dtx.send((w, j, e));
                            return;
                        }
                    }
                    let _ = dtx.send((w, k, String::new()));
                });
            }
        }
    }
    let mut done = 0usize;
    let mut okc = 0usize;
    while done < t {
        match drx.recv_timeout(call_watchdog()) {
            Ok((_, j, e)) => {
                done += 1;
                if e.is_empty() {
                    okc += j;
                } else {
                    out.oracle_fail(&format!("mux.{}.seq_wrong", kname), &e, &ops);
                }
            }
            Err(_) => {
                out.oracle_fail(&format!("mux.{}.hang", kname), &format!("a call answered immediately never returned ({} of {} workers finished): its response was lost", done, t), &ops);
                saw_hang();
                break;
            }
        }
    }
    out.count(&format!("mux.{}.seq", kname));
    out.case(&op, &format!("{} ok {}", idx, okc), true);
    s.send(Cmd::Close);
}

fn permutations(n: usize) -> Vec<Vec<usize>> {
    fn go(cur: &mut Vec<usize>, used: &mut Vec<bool>, n: usize, out: &mut Vec<Vec<usize>>) {
        if cur.len() == n {
            out.push(cur.clone());
            return;
        }
        for i in 0..n {
            if !used[i] {
                used[i] = true;
                cur.push(i);
                go(cur, used, n, out);
                cur.pop();
                used[i] = false;
            }
        }
    }
    let mut out = Vec::new();
    go(&mut Vec::new(), &mut vec![false; n], n, &mut out);
    out
}

fn random_script(r: &mut Rng, n: usize) -> Vec<String> {
    let mut perm: Vec<usize> = (0..n).collect();
    r.shuffle(&mut perm);
    let mut script: Vec<String> = perm.iter().map(|c| format!("r{c}")).collect();
    let extras = match r.below(4) {
        0 => 0,
        1 => r.range(1, 3),
        _ => r.range(1, (n as u64 / 2).max(3)),
    };
    for _ in 0..extras {
        let pos = r.below(script.len() as u64 + 1) as usize;
        let t = match r.below(8) {
            0 | 1 => format!("u{}", r.below(50)),
            2 => format!("x{}", r.below(50)),
            3 | 4 => format!("r{}", r.below(n.max(1) as u64)), // duplicate (or early second copy)
            _ => format!("n{}", r.below(n.max(1) as u64)),
        };
        if n == 0 && (t.starts_with('r') || t.starts_with('n')) {
            continue;
        }
        script.insert(pos, t);
    }
    script
}

fn gen_mux(args: &Args, r: &mut Rng) -> (Vec<MuxCase>, Vec<BatchCase>) {
    let mut cases = Vec::new();
    let max_exh = if args.thorough() { 6 } else { 4 };
    for kind in 0..3 {
        for n in 1..=max_exh {
            for p in permutations(n) {
                let mut script: Vec<String> = p.iter().map(|c| format!("r{c}")).collect();
                // every permutation is also run with one adversarial frame at a position derived from the PRNG
                if n >= 2 && r.chance(1, 2) && n <= 4 {
                    let pos = r.below(script.len() as u64 + 1) as usize;
                    let t = match r.below(4) {
                        0 => format!("u{}", r.below(9)),
                        1 => format!("r{}", r.below(n as u64)),
                        2 => format!("n{}", r.below(n as u64)),
                        _ => format!("x{}", r.below(9)),
                    };
                    script.insert(pos, t);
                }
                cases.push(MuxCase { kind, n, script });
            }
        }
        // every single insertion position of each adversarial kind for N = 2 (all orders)
        for p in permutations(2) {
            for t in ["u0", "x0", "n0", "n1", "r0", "r1"] {
                for pos in 0..=2 {
                    let mut script: Vec<String> = p.iter().map(|c| format!("r{c}")).collect();
                    script.insert(pos, t.to_string());
                    cases.push(MuxCase { kind, n: 2, script });
                }
            }
        }
        let nrand = if args.thorough() { 1000 } else { 30 };
        for _ in 0..nrand {
            let n = match r.below(5) {
                0 => r.range(1, 4),
                1 | 2 => r.range(5, 16),
                3 => r.range(17, 40),
                _ => r.range(41, 64),
            } as usize;
            cases.push(MuxCase { kind, n, script: random_script(r, n) });
        }
    }
    let mut batches = Vec::new();
    let nb = if args.thorough() { 150 } else { 8 };
    for kind in 0..3 {
        // boundary sizes (around the 32/64 wave / worker-pool sizes and a large one), two servers each:
        // windowed out-of-order, and strictly newest-first within the window (order = [usize::MAX] -> "rev")
        for n in [1usize, 2, 31, 32, 33, 34, 63, 64, 65, 100] {
            let w = n.min(4);
            let order: Vec<usize> = (0..n).map(|_| r.below(4) as usize).collect();
            batches.push(BatchCase { kind, n, w, order });
            batches.push(BatchCase { kind, n, w, order: vec![usize::MAX] });
        }
        for i in 0..nb {
            let n = if i == 0 { 1 } else { r.range(2, if i % 2 == 0 { 12 } else { 40 }) as usize };
            let w = n.min(r.range(1, 4) as usize);
            let order: Vec<usize> = (0..n).map(|_| r.below(4) as usize).collect();
            batches.push(BatchCase { kind, n, w, order });
        }
    }
    (cases, batches)
}

// ---------------------------------------------------------------------------------------------
// family `deadconn`
// ---------------------------------------------------------------------------------------------
#[derive(Clone, Debug)]
struct DeadCase {
    kind: usize,
    n: usize,
    tmo: bool,
    answered: usize,
    fault: String,
    when: String,
    cut: usize,
}

fn malformed(fault: &str, id: u64) -> Vec<u8> {
    let mut f = RawFrame::request(id, false, 1, b"/t", 2, b"{\"tag\":0,\"c\":0}");
    match fault {
        "badspec" => f.h.spec = 0x1234,
        "badlen" => f.h.length += 7,
        "shortlen" => f.h.length = 40,
        _ => {}
    }
    let mut v = f.to_vec();
    if fault == "trailing" {
        v.extend_from_slice(b"zz");
    }
    if fault == "shortmsg" {
        v.truncate(20);
    }
    v
}

fn run_dead_case(h: &H, out: &mut Out, idx: &str, case: &DeadCase) {
    let kname = KINDS[case.kind];
    let op = format!("dead {} {} {} {} {} {} {} {}", idx, case.kind, case.n, case.tmo as u8, case.answered, case.fault, case.when, case.cut);
    out.begin(&op);
    let ops = [op.clone()];
    let mut s = match h.open(case.kind) {
        Ok(s) => s,
        Err(e) => {
            eprintln!("setup failed: {e}");
            out.count("deadconn.setup_failed");
            return;
        }
    };
    let mut sub = match &s.cl {
        Cl::W(w) => w.subscribe_notifies().ok(),
        _ => None,
    };
    let tmo = if case.tmo { Some(CALL_TIMEOUT) } else { None };
    for c in 0..case.n {
        s.call(h, c, req_body(c), tmo);
    }
    let mut outcomes: Vec<String> = vec!["HANG".into(); case.n];
    let mut ids: Vec<u64> = vec![0; case.n];
    let mut machinery: Option<String> = None;
    if case.when == "before" {
        s.send(Cmd::WaitUnread(case.n * req_wire_len(case.kind)));
        if let Err(e) = s.srv_done() {
            machinery = Some(e);
        }
    } else {
        match s.read(case.n) {
            Ok(frames) => {
                for f in &frames {
                    if let Some(c) = caller_of(f) {
                        if c < case.n {
                            ids[c] = f.h.id;
                        }
                    }
                }
                let answers: Vec<Vec<u8>> = (0..case.answered).map(|c| response(ids[c], false, c as i64, c as i64)).collect();
                if !answers.is_empty() {
                    s.send(Cmd::Send(answers));
                    if let Err(e) = s.srv_done() {
                        machinery = Some(e);
                    }
                    // the answered callers return before the fault is injected
                    for _ in 0..case.answered {
                        match s.res(WATCHDOG) {
                            Some((c, Ok(v))) => outcomes[c] = if tag_of(&v) == Some(c as i64) { "own".into() } else { "other".into() },
                            Some((c, Err(e))) => outcomes[c] = cls(&e),
                            None => break,
                        }
                    }
                }
            }
            Err(e) => machinery = Some(e),
        }
    }
    if let Some(e) = machinery {
        out.oracle_fail(&format!("deadconn.{}.setup", kname), &format!("requests did not reach the server: {}", e), &ops);
        return;
    }
    // the fault
    let victim = ids.get(case.answered).copied().unwrap_or(77);
    match case.fault.as_str() {
        "close" => s.send(Cmd::Close),
        "reset" => s.send(Cmd::Reset),
        "wsclose" => s.send(Cmd::SendWsClose),
        "text" => s.send(Cmd::SendText),
        "cut" => {
            let mut full = response(victim, false, 0, 0);
            if case.kind == 2 {
                // unmasked server-to-client binary frame header, then part of the payload
                let mut wsf = vec![0x82u8, full.len() as u8];
                wsf.append(&mut full);
                full = wsf;
            }
            let k = case.cut.min(full.len() - 1).max(1);
            s.send(Cmd::SendRaw(full[..k].to_vec()));
            let _ = s.srv_done();
            s.send(Cmd::Close);
        }
        f => {
            let bytes = malformed(f, victim);
            if case.kind == 2 {
                s.send(Cmd::Send(vec![bytes]));
            } else {
                s.send(Cmd::SendRaw(bytes));
            }
        }
    }
    let _ = s.srv();
    // every in-flight call must return
    let pending_calls = outcomes.iter().filter(|o| *o == "HANG").count();
    for _ in 0..pending_calls {
        match s.res(call_watchdog()) {
            Some((c, Ok(v))) => outcomes[c] = if tag_of(&v) == Some(c as i64) { "own".into() } else { "other".into() },
            Some((c, Err(e))) => {
                out.count(&format!("deadconn.{}.errkind.{}", kname, io_kind(&e)));
                outcomes[c] = cls(&e)
            }
            None => break,
        }
    }
    for (c, o) in outcomes.iter().enumerate() {
        let expect_own = c < case.answered;
        if o == "HANG" {
            out.oracle_fail(&format!("deadconn.{}.inflight_hang", kname), &format!("call {} still blocked {:?} after fault {} ({} in flight)", c, call_watchdog(), case.fault, case.n), &ops);
            saw_hang();
        } else if expect_own && o != "own" {
            out.oracle_fail(&format!("deadconn.{}.answered_call_lost", kname), &format!("call {} was answered before the fault but returned {}", c, o), &ops);
        } else if !expect_own && o != "Err" {
            out.oracle_fail(&format!("deadconn.{}.inflight_not_error", kname), &format!("call {} returned {} although the connection failed before it was answered", c, o), &ops);
        }
    }
    // one more call
    let late = case.n;
    s.call(h, late, req_body(late), tmo);
    let later = match s.res(call_watchdog()) {
        Some((_, Ok(_))) => "own".to_string(),
        Some((_, Err(e))) => {
            out.count(&format!("deadconn.{}.later_errkind.{}", kname, io_kind(&e)));
            cls(&e)
        }
        None => "HANG".to_string(),
    };
    if later == "HANG" {
        out.oracle_fail(&format!("deadconn.{}.later_hang", kname), &format!("a call made after fault {} blocked for {:?}", case.fault, call_watchdog()), &ops);
        saw_hang();
    } else if later != "Err" {
        out.oracle_fail(&format!("deadconn.{}.later_not_error", kname), &format!("a call made after fault {} returned {}", case.fault, later), &ops);
    }
    // subscriber end-of-stream
    let sub_s = match sub.as_mut() {
        None => "-".to_string(),
        Some(rx) => {
            let wd = call_watchdog();
            let r = h.rt.block_on(async {
                loop {
                    match tokio::time::timeout(wd, rx.recv()).await {
                        Ok(Some(_)) => continue,
                        Ok(None) => return "eof",
                        Err(_) => return "open",
                    }
                }
            });
            if r != "eof" {
                out.oracle_fail("deadconn.ws.subscriber_open", &format!("notify subscriber saw no end-of-stream {:?} after fault {}", wd, case.fault), &ops);
                saw_hang();
            }
            r.to_string()
        }
    };
    out.count(&format!("deadconn.{}.fault.{}.{}", kname, case.fault, case.when));
    out.count(&format!("deadconn.inflight.{}", case.n));
    let outs = if outcomes.is_empty() { "-".to_string() } else { outcomes.join(",") };
    out.case(&op, &format!("{} outcomes {} later {} sub {}", idx, outs, later, sub_s), case.n > 0);
    s.send(Cmd::Close);
}

fn timed_out(r: &Result<Value, RepeError>) -> bool {
    matches!(r, Err(e) if cls(e) == "Timeout")
}

/// After a timed-out / cancelled call with id `id`: on the async client, `forward_message` with the
/// same id is refused (`AlreadyExists`) iff the entry was left behind.
fn residue_probe(h: &H, s: &mut Session, id: u64) -> Option<u64> {
    let Cl::A(cl) = s.cl.clone() else { return None };
    let tx = s.ev_tx.clone();
    let msg = Message::builder().id(id).query_str("/t").body_json(&json!({"c": 555})).ok()?.build();
    h.rt.spawn(async move {
        let r = cl.forward_message_with_timeout(&msg, CALL_TIMEOUT).await;
        let _ = tx.send(Event::Fwd(r));
    });
    // one Read is outstanding until the probe's request (or a filler request) arrives; every server
    // reply is consumed here so that the scripted server is idle again when we return
    s.send(Cmd::Read(1));
    let deadline = Instant::now() + WATCHDOG;
    let mut residue = None;
    let (mut need_frames, mut need_done, mut fwd_seen) = (true, false, false);
    while !(fwd_seen && !need_frames && !need_done) {
        let left = deadline.saturating_duration_since(Instant::now());
        match s.ev.recv_timeout(left) {
            Ok(Event::Frames(f)) => {
                need_frames = false;
                if f[0].h.id == id && caller_of(&f[0]) == Some(455) {
                    // the probe was written: answer it (inert if the probe already returned)
                    s.send(Cmd::Send(vec![response(f[0].h.id, false, 555, 555)]));
                    need_done = true;
                }
            }
            Ok(Event::Done) => need_done = false,
            Ok(Event::Fwd(r)) => {
                fwd_seen = true;
                residue = match r {
                    Ok(_) => Some(0),
                    Err(RepeError::Io(e)) if e.kind() == std::io::ErrorKind::AlreadyExists => Some(1),
                    Err(_) => None,
                };
                if residue == Some(1) && need_frames {
                    // refused before writing: feed the waiting Read a filler request
                    s.call(h, 900, req_body(900), Some(Duration::from_millis(50)));
                }
            }
            Ok(Event::Res(900, _)) => {}
            Ok(Event::Res(c, r)) => s.stash.push((c, r)),
            Ok(_) => {}
            Err(_) => break,
        }
    }
    // the filler's own result
    if residue == Some(1) {
        let t0 = Instant::now();
        while t0.elapsed() < Duration::from_secs(2) {
            match s.ev.recv_timeout(Duration::from_millis(100)) {
                Ok(Event::Res(900, _)) => break,
                Ok(Event::Res(c, r)) => s.stash.push((c, r)),
                _ => {}
            }
        }
    }
    residue
}

fn run_tmo_case(h: &H, out: &mut Out, idx: &str, kind: usize, mode: &str, jitter_ms: u64) {
    let kname = KINDS[kind];
    let op = format!("tmo {} {} {}", idx, kind, mode);
    out.begin(&op);
    let ops = [format!("{} jitter_ms={}", op, jitter_ms)];
    let Ok(mut s) = h.open(kind) else { return };
    let t_short = Duration::from_millis(if mode == "race" { 60 } else { 150 });
    let t0 = Instant::now();
    s.call(h, 0, req_body(0), Some(if mode == "early" { CALL_TIMEOUT } else { t_short }));
    let id0 = match s.read(1) {
        Ok(f) => f[0].h.id,
        Err(e) => {
            out.oracle_fail(&format!("deadconn.{}.setup", kname), &e, &ops);
            return;
        }
    };
    let mut first_res = None;
    match mode {
        "late" => {
            // the response is held back until the caller has reported the timeout
            first_res = s.res(WATCHDOG);
            s.send(Cmd::Send(vec![response(id0, false, 0, 0)]));
            let _ = s.srv_done();
        }
        "early" => {
            s.send(Cmd::Send(vec![response(id0, false, 0, 0)]));
            let _ = s.srv_done();
        }
        _ => {
            let target = t_short.saturating_sub(Duration::from_millis(3)) + Duration::from_micros(jitter_ms * 250);
            let wait = target.saturating_sub(t0.elapsed());
            s.send(Cmd::Sleep(wait));
            let _ = s.srv_done();
            s.send(Cmd::Send(vec![response(id0, false, 0, 0)]));
            let _ = s.srv_done();
        }
    }
    if first_res.is_none() {
        first_res = s.res(WATCHDOG);
    }
    let first = match &first_res {
        None => "HANG".to_string(),
        Some((_, r)) if timed_out(r) => "Timeout".into(),
        Some((_, Ok(v))) if tag_of(v) == Some(0) => "own".into(),
        Some((_, Ok(_))) => "other".into(),
        Some((_, Err(_))) => "Err".into(),
    };
    out.count(&format!("deadconn.{}.tmo.{}.{}", kname, mode, first));
    let first_ok = match mode {
        "late" => first == "Timeout",
        "early" => first == "own",
        _ => first == "Timeout" || first == "own",
    };
    if first == "HANG" {
        out.oracle_fail(&format!("deadconn.{}.timeout_hang", kname), "a call with a timeout did not return", &ops);
    } else if !first_ok {
        out.oracle_fail(&format!("deadconn.{}.timeout_outcome", kname), &format!("mode {}: call returned {}", mode, first), &ops);
    }
    // residue (async client: exact probe) and the client keeps serving
    let mut residue = None;
    if first == "Timeout" {
        residue = residue_probe(h, &mut s, id0);
        if residue == Some(1) {
            out.oracle_fail(&format!("deadconn.{}.timeout_residue", kname), &format!("pending entry of timed-out request {} is still registered", id0), &ops);
        }
    }
    let next = next_call(h, &mut s, out, kname, &ops, "timeout");
    let first_obs = if mode == "race" && first_ok { "racy".to_string() } else { first };
    let _ = residue;
    out.case(&op, &format!("{} first {} next {}", idx, first_obs, next), true);
    s.send(Cmd::Close);
}

/// One more call on the same client, answered by the server: must return its own reply.
fn next_call(h: &H, s: &mut Session, out: &mut Out, kname: &str, ops: &[String], after: &str) -> String {
    s.call(h, 1, req_body(1), None);
    let r = loop {
        match s.read(1) {
            Ok(f) => {
                if caller_of(&f[0]) != Some(1) {
                    continue; // a request of an abandoned call that was already on its way
                }
                s.send(Cmd::Send(vec![response(f[0].h.id, false, 1, 1)]));
                let _ = s.srv_done();
                break loop {
                    match s.res(call_watchdog()) {
                        Some((1, r)) => break Some((1, r)),
                        Some(_) => continue,
                        None => break None,
                    }
                };
            }
            Err(_) => break s.res(Duration::from_millis(200)),
        }
    };
    let next = match r {
        None => "HANG".to_string(),
        Some((_, Ok(v))) if tag_of(&v) == Some(1) => "own".into(),
        Some((_, Ok(_))) => "other".into(),
        Some((_, Err(e))) => cls(&e),
    };
    if next != "own" {
        out.oracle_fail(&format!("deadconn.{}.next_call_after_{}", kname, after), &format!("the call after a {} returned {}", after, next), ops);
    }
    next
}

fn run_cancel_case(h: &H, out: &mut Out, idx: &str, kind: usize, mode: &str) {
    let kname = KINDS[kind];
    let op = format!("cancel {} {} {}", idx, kind, mode);
    out.begin(&op);
    let ops = [op.clone()];
    let Ok(mut s) = h.open(kind) else { return };
    let mut residue: Option<u64> = None;
    let cancelled;
    if mode == "wait" {
        s.call(h, 0, req_body(0), None);
        let id0 = match s.read(1) {
            Ok(f) => f[0].h.id,
            Err(e) => {
                out.oracle_fail(&format!("deadconn.{}.setup", kname), &e, &ops);
                return;
            }
        };
        cancelled = s.abort(h, 0);
        residue = residue_probe(h, &mut s, id0);
        // the late response of the cancelled call
        s.send(Cmd::Send(vec![response(id0, false, 0, 0)]));
        let _ = s.srv_done();
    } else {
        // a big call stalls in `write` (the server is not reading) and holds the writer lock;
        // the victim registers and waits for the lock; it is cancelled there
        let pad = "x".repeat(12 << 20);
        s.call(h, 7, json!({"c": 107, "pad": pad}), None);
        s.send(Cmd::WaitUnread(1 << 16));
        if let Err(e) = s.srv_done() {
            out.oracle_fail(&format!("deadconn.{}.setup", kname), &e, &ops);
            return;
        }
        s.call(h, 0, req_body(0), None);
        std::thread::sleep(Duration::from_millis(150));
        cancelled = s.abort(h, 0);
        // ids are consecutive from 1 on a fresh connection: the victim's id is 2 if it got that far
        if kind == 1 {
            // cannot probe while the writer is stalled; drain the big request first
        }
        match s.read(1) {
            Ok(f) => {
                s.send(Cmd::Send(vec![response(f[0].h.id, false, 7, 7)]));
                let _ = s.srv_done();
                match s.res(WATCHDOG) {
                    Some((7, Ok(_))) => {}
                    other => {
                        out.oracle_fail(&format!("deadconn.{}.stalled_call_lost", kname), &format!("the big call did not complete: {:?}", other.map(|x| x.1.map(|_| ()).map_err(|e| e.to_string()))), &ops);
                    }
                }
                if kind == 1 {
                    residue = residue_probe(h, &mut s, f[0].h.id + 1);
                }
            }
            Err(e) => {
                out.oracle_fail(&format!("deadconn.{}.setup", kname), &e, &ops);
                return;
            }
        }
    }
    if !cancelled {
        out.count("deadconn.cancel.not_cancelled");
    }
    if residue == Some(1) {
        out.oracle_fail(&format!("deadconn.{}.cancel_residue", kname), &format!("pending entry of the cancelled call ({}) is still registered", mode), &ops);
    }
    let next = next_call(h, &mut s, out, kname, &ops, "cancel");
    out.count(&format!("deadconn.{}.cancel.{}", kname, mode));
    out.case(&op, &format!("{} {} next {} residue {}", idx, if cancelled { "cancelled" } else { "not-cancelled" }, next, residue.unwrap_or(0)), true);
    s.send(Cmd::Close);
}

/// A caller is stalled inside `write_request` (the peer stopped reading, a 12 MiB request fills the
/// socket buffers) and so holds the writer lock; the peer then delivers a malformed frame / closes
/// its sending direction.  The other in-flight call must still be failed.
fn run_stall_case(h: &H, out: &mut Out, idx: &str, kind: usize, fault: &str) {
    let kname = KINDS[kind];
    let op = format!("stall {} {} {}", idx, kind, fault);
    out.begin(&op);
    let ops = [op.clone()];
    let Ok(mut s) = h.open(kind) else { return };
    // A: small, written, never answered
    s.call(h, 0, req_body(0), None);
    s.send(Cmd::WaitUnread(req_wire_len(kind)));
    if let Err(e) = s.srv_done() {
        out.oracle_fail(&format!("deadconn.{}.setup", kname), &e, &ops);
        return;
    }
    // B: stalls in write
    let pad = "x".repeat(12 << 20);
    s.call(h, 7, json!({"c": 107, "pad": pad}), None);
    s.send(Cmd::WaitUnread(req_wire_len(kind) + (1 << 16)));
    if let Err(e) = s.srv_done() {
        out.oracle_fail(&format!("deadconn.{}.setup", kname), &e, &ops);
        return;
    }
    std::thread::sleep(Duration::from_millis(100));
    // the fault, while the peer keeps the connection open and does not read
    let bytes = malformed(fault, 1);
    if kind == 2 {
        s.send(Cmd::Send(vec![bytes]));
    } else {
        s.send(Cmd::SendRaw(bytes));
    }
    let _ = s.srv_done();
    let wd = Duration::from_secs(6);
    let mut a = "HANG".to_string();
    let mut b = "HANG".to_string();
    let t0 = Instant::now();
    while t0.elapsed() < wd && (a == "HANG") {
        match s.res(wd.saturating_sub(t0.elapsed())) {
            Some((0, r)) => a = match r { Ok(_) => "own".into(), Err(e) => cls(&e) },
            Some((7, r)) => b = match r { Ok(_) => "own".into(), Err(e) => cls(&e) },
            Some(_) => {}
            None => break,
        }
    }
    if a == "HANG" {
        out.oracle_fail(&format!("deadconn.{}.stalled_writer_blocks_failure", kname), &format!("the peer sent a malformed frame ({}) while another caller was stalled in write (peer not reading): the in-flight call was not failed within {:?}", fault, wd), &ops);
    }
    // release: the peer goes away; now everything must return
    s.send(Cmd::Reset);
    let _ = s.srv();
    let t1 = Instant::now();
    while t1.elapsed() < WATCHDOG && (a == "HANG" || b == "HANG") {
        match s.res(WATCHDOG.saturating_sub(t1.elapsed())) {
            Some((0, r)) => a = match r { Ok(_) => "own".into(), Err(e) => format!("late-{}", cls(&e)) },
            Some((7, r)) => b = match r { Ok(_) => "own".into(), Err(e) => cls(&e) },
            Some(_) => {}
            None => break,
        }
    }
    if a == "HANG" || b == "HANG" {
        out.oracle_fail(&format!("deadconn.{}.inflight_hang", kname), &format!("calls still blocked after the peer reset the connection: small={} big={}", a, b), &ops);
    }
    out.count(&format!("deadconn.{}.stall.{}", kname, a));
    out.case(&op, &format!("{} small {} big {}", idx, if a.starts_with("late-") { "Err" } else { a.as_str() }, b), true);
}

fn gen_dead(args: &Args, r: &mut Rng) -> Vec<DeadCase> {
    let mut v = Vec::new();
    let resp_len = response(1, false, 0, 0).len();
    let cuts = [1usize, 8, 24, 47, 48, 49, resp_len - 1];
    for kind in 0..3 {
        let faults: Vec<&str> = if kind == 2 {
            vec!["close", "reset", "wsclose", "text", "badspec", "badlen", "shortlen", "trailing", "shortmsg", "cut"]
        } else {
            vec!["close", "reset", "badspec", "badlen", "shortlen", "cut"]
        };
        for fault in &faults {
            let reps = if args.thorough() { 40 } else { 3 };
            for rep in 0..reps {
                let n = match rep {
                    0 => 0,
                    1 => 1,
                    2 => r.range(2, 16) as usize,
                    _ => r.range(0, 16) as usize,
                };
                let when = if matches!(*fault, "close" | "reset") && r.chance(1, 2) { "before" } else { "after" };
                let answered = if when == "after" && n > 0 && r.chance(1, 2) { r.below(n as u64) as usize } else { 0 };
                let cut = if *fault == "cut" { cuts[(rep + r.below(7) as usize) % cuts.len()] + if kind == 2 { 2 } else { 0 } } else { 0 };
                v.push(DeadCase { kind, n, tmo: r.chance(1, 2), answered, fault: fault.to_string(), when: when.to_string(), cut });
            }
        }
        if args.thorough() {
            for cut in cuts {
                for n in [1usize, 16] {
                    v.push(DeadCase { kind, n, tmo: false, answered: 0, fault: "cut".into(), when: "after".into(), cut: cut + if kind == 2 { 2 } else { 0 } });
                }
            }
        }
    }
    v
}

fn main() {
    let args = Args::parse();
    quiet_panics();
    let fam = args.extra.first().cloned().unwrap_or_else(|| "mux".into());
    let mut out = Out::new(&args.out);
    let rt = tokio::runtime::Builder::new_multi_thread().worker_threads(4).enable_all().build().unwrap();
    let h = H { rt };
    let mut rng = Rng::new(args.seed);
    if let Some(ops) = args.replay_ops() {
        for (k, l) in ops.iter().enumerate() {
            let w = words(l);
            let idx = format!("r{k}");
            match w.first().copied() {
                Some("case") if w.len() >= 6 => {
                    let script = if w[5] == "-" { vec![] } else { w[5].split(',').map(|s| s.to_string()).collect() };
                    run_mux_case(&h, &mut out, &idx, &MuxCase { kind: w[2].parse().unwrap(), n: w[3].parse().unwrap(), script });
                }
                Some("seq") if w.len() >= 5 => run_seq_case(&h, &mut out, &idx, w[2].parse().unwrap(), w[3].parse().unwrap(), w[4].parse().unwrap()),
                Some("batch") if w.len() >= 6 => {
                    run_batch_case(&h, &mut out, &idx, &BatchCase { kind: w[2].parse().unwrap(), n: w[3].parse().unwrap(), w: w[4].parse().unwrap(), order: if w[5] == "rev" { vec![usize::MAX] } else { w[5].split(',').filter_map(|x| x.parse().ok()).collect() } });
                }
                Some("dead") if w.len() >= 9 => {
                    run_dead_case(&h, &mut out, &idx, &DeadCase { kind: w[2].parse().unwrap(), n: w[3].parse().unwrap(), tmo: w[4] == "1", answered: w[5].parse().unwrap(), fault: w[6].into(), when: w[7].into(), cut: w[8].parse().unwrap() });
                }
                Some("tmo") if w.len() >= 4 => {
                    let jitter = w.iter().find_map(|x| x.strip_prefix("jitter_ms=")).and_then(|x| x.parse().ok()).unwrap_or(0);
                    run_tmo_case(&h, &mut out, &idx, w[2].parse().unwrap(), w[3], jitter);
                }
                Some("cancel") if w.len() >= 4 => run_cancel_case(&h, &mut out, &idx, w[2].parse().unwrap(), w[3]),
                Some("stall") if w.len() >= 4 => run_stall_case(&h, &mut out, &idx, w[2].parse().unwrap(), w[3]),
                _ => {}
            }
        }
    } else if fam == "mux" {
        out.rule = "N concurrent calls on clones of one client (blocking/async/WebSocket) against a scripted raw server that first collects all N requests, then emits a script: every permutation of the N responses for N<=4 (thorough: <=6), each adversarial frame kind (unknown id, unknown-id notify, duplicate, notify re-using an in-flight id) at every position for N=2, random scripts with several such frames for N<=64; batch_json with a windowed out-of-order server; T workers x K back-to-back calls answered the instant they are read. Distinct by op line; non-trivial = at least two concurrent callers or an adversarial frame (batch: the server finished out of request order)".into();
        let (cases, batches) = gen_mux(&args, &mut rng);
        for (i, c) in cases.iter().enumerate() {
            run_mux_case(&h, &mut out, &format!("m{i}"), c);
        }
        for (i, b) in batches.iter().enumerate() {
            run_batch_case(&h, &mut out, &format!("b{i}"), b);
        }
        let mut q = 0;
        for kind in 0..3 {
            for (t, k) in if args.thorough() { vec![(1, 2000), (4, 1000), (16, 300)] } else { vec![(1, 300), (4, 150)] } {
                run_seq_case(&h, &mut out, &format!("q{q}"), kind, t, k);
                q += 1;
            }
        }
    } else {
        out.rule = "per client: each fault kind (FIN, RST via SO_LINGER 0, close with unread requests, each malformed header / WebSocket message kind, response cut at a header/body byte-offset class, WebSocket close) with 0..16 calls in flight, before or after the requests were read, optionally after answering some calls, with and without per-call timeouts; then one more call and the notify subscriber; timeouts racing the response (late / early / timed race); cancellation before write (writer stalled by a 12 MiB request) and during wait; a malformed frame delivered while another caller is stalled in write (peer not reading). Non-trivial = at least one call in flight / every timeout and cancel scenario".into();
        let cases = gen_dead(&args, &mut rng);
        for (i, c) in cases.iter().enumerate() {
            run_dead_case(&h, &mut out, &format!("d{i}"), c);
        }
        let mut t = 0;
        for kind in 0..3 {
            for mode in ["late", "early"] {
                run_tmo_case(&h, &mut out, &format!("t{t}"), kind, mode, 0);
                t += 1;
            }
            let races = if args.thorough() { 120 } else { 8 };
            for _ in 0..races {
                run_tmo_case(&h, &mut out, &format!("t{t}"), kind, "race", rng.below(25));
                t += 1;
            }
        }
        let mut c = 0;
        for kind in 1..3 {
            let reps = if args.thorough() { 20 } else { 2 };
            for _ in 0..reps {
                run_cancel_case(&h, &mut out, &format!("c{c}"), kind, "wait");
                c += 1;
            }
            run_cancel_case(&h, &mut out, &format!("c{c}"), kind, "prewrite");
            c += 1;
        }
        // a writer stalled by a peer that stopped reading must not keep the failure from the other calls
        let mut k = 0;
        for kind in 0..3 {
            let faults: &[&str] = if args.thorough() { &["badspec", "badlen", "shortlen"] } else { &["badspec"] };
            for f in faults {
                run_stall_case(&h, &mut out, &format!("s{k}"), kind, f);
                k += 1;
            }
        }
    }
    out.finish();
    std::process::exit(0);
}
