//! Family `router` (C07): registration orders of routes / mounts / middleware, mount matching at
//! '/' boundaries, struct-mount segment tokenisation, and the owned / borrowed / middleware /
//! blocking-wrapper twin differential.  Everything runs in-process on the real `repe::server::Router`.
//! Usage: fam_router --tier T --seed N --out DIR [--replay F]
//!
//! Op lines (strings are hex of UTF-8, "-" = empty):
//!   reset I | mw I N | route I <path> N | reg I <prefix> N | struct I <root> N      (state, no observation)
//!   get I <path>                       -> I none | I handler N mws a,b [ptr H | segs k t…]
//!   match I reg|struct <prefix> <path> -> I 0 | I 1 ptr H | I 1 segs k t…
//!   tok I <ptr>                        -> I segs k t…
//!   twin I <kind> <blocking> <nmw> <bfmt> <body> <hints jbsr> <ok|err> <code> <order> <voff> <qfmt> <query>
//!                                      -> I <ok|rej N|fail|-> exec <inline|offreader>
use repe::server::{Execution, HandlerErased, JsonTypedHandler, Middleware, Next, Router, TypedResponse};
use repe::{BodyFormat, CallContext, ErrorCode, Header, Message, MessageView, Registry, RepeError, RepeStruct, StructError};
use repe_verif_harness::*;
use serde::{Deserialize, Serialize};
use serde_json::{json, Value};
use std::collections::{BTreeMap, HashSet};
use std::sync::atomic::{AtomicU64, Ordering};
use std::sync::{Arc, Mutex};

// ------------------------------------------------------------------------------------------
// instrumentation
// ------------------------------------------------------------------------------------------
#[derive(Clone, Debug, PartialEq)]
enum Ev {
    Mw(u64),
    H(u64),
    Reg(u64, String),
    Seg(u64, Vec<String>),
}
type Log = Arc<Mutex<Vec<Ev>>>;

struct TraceMw {
    id: u64,
    log: Log,
}
/// id % 8: 0..4 forward; 5 forwards a rewritten copy of the request (other id, same query/body);
/// 6 answers itself without calling `next`; 7 returns `Err` without calling `next`.
impl Middleware for TraceMw {
    fn handle(&self, req: &Message, next: Next<'_>) -> Result<Message, RepeError> {
        self.log.lock().unwrap().push(Ev::Mw(self.id));
        match self.id % 8 {
            5 => {
                let mut copy = req.clone();
                copy.header.id = copy.header.id.wrapping_add(1);
                next.run(&copy)
            }
            6 => Ok(Message::builder().id(req.header.id).build()),
            7 => Err(RepeError::Io(std::io::Error::new(std::io::ErrorKind::Other, "middleware refused"))),
            _ => next.run(req),
        }
    }
}
fn is_stopper(id: u64) -> bool {
    id % 8 >= 6
}

type Seen = Arc<Mutex<Vec<(Option<String>, Option<u64>)>>>;
/// Forwarding middleware that counts its runs and records the context `Next` shows it.
struct CountMw(Arc<AtomicU64>, Seen);
impl Middleware for CountMw {
    fn handle(&self, req: &Message, next: Next<'_>) -> Result<Message, RepeError> {
        self.0.fetch_add(1, Ordering::SeqCst);
        self.1.lock().unwrap().push((next.ctx().map(|c| c.method().to_string()), next.peer().map(|p| p.peer_id().0)));
        next.run(req)
    }
}

struct NullSink;
impl repe::PeerSink for NullSink {
    fn send_notify(&self, _method: &str, _body: repe::NotifyBody) -> Result<(), repe::PeerSendError> {
        Ok(())
    }
}

struct Leaf {
    id: u64,
    log: Log,
}
impl HandlerErased for Leaf {
    fn handle(&self, req: &Message) -> Result<Message, RepeError> {
        self.log.lock().unwrap().push(Ev::H(self.id));
        Ok(Message::builder().id(req.header.id).build())
    }
}

struct Rec {
    id: u64,
    log: Log,
}
impl RepeStruct for Rec {
    fn repe_handle(&mut self, segments: &[&str], _body: Option<Value>) -> Result<Option<Value>, StructError> {
        self.log.lock().unwrap().push(Ev::Seg(self.id, segments.iter().map(|s| s.to_string()).collect()));
        Ok(None)
    }
}

struct Adapter {
    id: u64,
    log: Log,
}
impl JsonTypedHandler for Adapter {
    type In = Value;
    type Out = Value;
    fn call(&self, _input: Value) -> Result<Value, (ErrorCode, String)> {
        self.log.lock().unwrap().push(Ev::H(self.id));
        Ok(Value::Null)
    }
}

// ------------------------------------------------------------------------------------------
// helpers
// ------------------------------------------------------------------------------------------
fn shex(s: &str) -> String {
    hex(s.as_bytes())
}
fn unshex(h: &str) -> Option<String> {
    String::from_utf8(unhex(h)?).ok()
}

/// Independent RFC 6901 tokeniser: one pass, a three-state scanner (not split + replace).
fn rfc6901(ptr: &str) -> Option<Vec<String>> {
    if ptr.is_empty() {
        return Some(vec![]);
    }
    let mut it = ptr.chars();
    if it.next() != Some('/') {
        return None;
    }
    let mut toks = Vec::new();
    let mut cur = String::new();
    while let Some(c) = it.next() {
        match c {
            '/' => toks.push(std::mem::take(&mut cur)),
            '~' => match it.next() {
                Some('0') => cur.push('~'),
                Some('1') => cur.push('/'),
                _ => return None,
            },
            c => cur.push(c),
        }
    }
    toks.push(cur);
    Some(toks)
}

fn show_segs(ts: &[String]) -> String {
    let mut s = format!("segs {}", ts.len());
    for t in ts {
        s.push(' ');
        s.push_str(&shex(t));
    }
    s
}

/// prefix in the normal form the property statement speaks about: non-empty, leading '/', no trailing '/'
fn normal_form(p: &str) -> bool {
    p.len() > 1 && p.starts_with('/') && !p.ends_with('/')
}
fn boundary_match(p: &str, path: &str) -> bool {
    path == p || (path.starts_with(p) && path[p.len()..].starts_with('/'))
}

fn request(id: u64, path: &str, body: &[u8], bfmt: u16) -> Message {
    Message::builder().id(id).query_str(path).query_format_code(1).body_bytes(body.to_vec()).body_format_code(bfmt).build()
}

fn exec_name(e: Execution) -> &'static str {
    match e {
        Execution::Inline => "inline",
        Execution::OffReader => "offreader",
        _ => "other",
    }
}

// ------------------------------------------------------------------------------------------
// scenario state (i)
// ------------------------------------------------------------------------------------------
struct Scen {
    router: Router,
    log: Log,
    regs: Vec<(u64, String, Arc<Registry>, HashSet<String>)>, // id, raw prefix, registry, registered fn pointers
    structs: Vec<(u64, String)>,
    exact: BTreeMap<String, u64>,
    mws: Vec<u64>,
    ops: Vec<String>,
}

impl Scen {
    fn new() -> Scen {
        Scen { router: Router::new(), log: Arc::new(Mutex::new(vec![])), regs: vec![], structs: vec![], exact: BTreeMap::new(), mws: vec![], ops: vec![] }
    }

    fn add_route(&mut self, path: &str, id: u64) {
        let log = self.log.clone();
        let r = std::mem::take(&mut self.router);
        // the registrar is a function of the handler id, so every `with_*` gets exercised
        self.router = match id % 11 {
            0 => r.with_erased_handler(path, Arc::new(Leaf { id, log })),
            1 => r.with_json(path, move |_v| {
                log.lock().unwrap().push(Ev::H(id));
                Ok(Value::Null)
            }),
            2 => r.with_json_ctx(path, move |_c: &CallContext, _v| {
                log.lock().unwrap().push(Ev::H(id));
                Ok(Value::Null)
            }),
            3 => r.with_typed::<Value, Value, _>(path, move |_v: Value| -> Result<Value, (ErrorCode, String)> {
                log.lock().unwrap().push(Ev::H(id));
                Ok(Value::Null)
            }),
            4 => r.with_typed_ctx::<Value, Value, _>(path, move |_c: &CallContext, _v: Value| -> Result<Value, (ErrorCode, String)> {
                log.lock().unwrap().push(Ev::H(id));
                Ok(Value::Null)
            }),
            5 => r.with_json_blocking(path, move |_v| {
                log.lock().unwrap().push(Ev::H(id));
                Ok(Value::Null)
            }),
            6 => r.with_json_ctx_blocking(path, move |_c: &CallContext, _v| {
                log.lock().unwrap().push(Ev::H(id));
                Ok(Value::Null)
            }),
            7 => r.with_typed_blocking::<Value, Value, _>(path, move |_v: Value| -> Result<Value, (ErrorCode, String)> {
                log.lock().unwrap().push(Ev::H(id));
                Ok(Value::Null)
            }),
            8 => r.with_typed_ctx_blocking::<Value, Value, _>(path, move |_c: &CallContext, _v: Value| -> Result<Value, (ErrorCode, String)> {
                log.lock().unwrap().push(Ev::H(id));
                Ok(Value::Null)
            }),
            9 => r.with_handler(path, Adapter { id, log }),
            _ => r.with(path, move |_v| {
                log.lock().unwrap().push(Ev::H(id));
                Ok(Value::Null)
            }),
        };
        self.exact.insert(path.to_string(), id);
    }

    fn add_mw(&mut self, id: u64) {
        if id % 2 == 0 {
            self.router.register_middleware(TraceMw { id, log: self.log.clone() });
        } else {
            let r = std::mem::take(&mut self.router);
            self.router = r.with_middleware(TraceMw { id, log: self.log.clone() });
        }
        self.mws.push(id);
    }

    fn add_reg(&mut self, prefix: &str, id: u64) {
        let reg = Arc::new(Registry::new());
        if id % 2 == 0 {
            self.router.register_registry(prefix, reg.clone());
        } else {
            let r = std::mem::take(&mut self.router);
            self.router = r.with_registry(prefix, reg.clone());
        }
        self.regs.push((id, prefix.to_string(), reg, HashSet::new()));
    }

    fn add_struct(&mut self, root: &str, id: u64) {
        let rec = Rec { id, log: self.log.clone() };
        match id % 3 {
            0 => {
                self.router.register_struct(root, rec);
            }
            1 => {
                let r = std::mem::take(&mut self.router);
                self.router = r.with_struct(root, rec).0;
            }
            _ => {
                let r = std::mem::take(&mut self.router);
                self.router = r.with_struct_shared::<Rec, std::sync::RwLock<Rec>>(root, Arc::new(std::sync::RwLock::new(rec)));
            }
        }
        self.structs.push((id, root.to_string()));
    }

    /// Make every registry able to tell us which pointer it was asked for: a callable at every
    /// '/'-boundary suffix of `path` (a superset of what any prefix stripping can produce).
    fn arm_registries(&mut self, path: &str) {
        let cuts: Vec<usize> = path.char_indices().filter(|(_, c)| *c == '/').map(|(i, _)| i).collect();
        for (id, _, reg, have) in self.regs.iter_mut() {
            for &i in &cuts {
                let suf = &path[i..];
                if suf == "/" || rfc6901(suf).is_none() || have.contains(suf) {
                    continue;
                }
                let (log, rid, s) = (self.log.clone(), *id, suf.to_string());
                if reg
                    .register_function(suf, move |_p: Option<Value>| -> Result<Value, (ErrorCode, String)> {
                        log.lock().unwrap().push(Ev::Reg(rid, s.clone()));
                        Ok(Value::Null)
                    })
                    .is_ok()
                {
                    have.insert(suf.to_string());
                }
            }
        }
    }

    /// After a call: a registry whose root received the `__hit` member was addressed at "/".
    fn collect_root_hits(&mut self) {
        for (id, _, reg, _) in self.regs.iter() {
            if reg.read_value("/__hit").is_ok() {
                self.log.lock().unwrap().push(Ev::Reg(*id, "/".to_string()));
                reg.set_root(strip_hit(reg.read_value("").unwrap_or(Value::Null)));
            }
        }
    }
}

fn strip_hit(mut v: Value) -> Value {
    if let Value::Object(m) = &mut v {
        m.remove("__hit");
    }
    v
}

fn show_trace(t: &[Ev]) -> String {
    // canonical shape: middleware*, then exactly one handler event
    let n = t.len();
    let canonical = n >= 1 && t[..n - 1].iter().all(|e| matches!(e, Ev::Mw(_))) && !matches!(t[n - 1], Ev::Mw(_));
    if n >= 1 && t.iter().all(|e| matches!(e, Ev::Mw(_))) && matches!(t[n - 1], Ev::Mw(i) if is_stopper(i)) && t[..n - 1].iter().all(|e| !matches!(e, Ev::Mw(i) if is_stopper(*i))) {
        let mws: Vec<String> = t.iter().map(|e| if let Ev::Mw(i) = e { i.to_string() } else { unreachable!() }).collect();
        return format!("stopped mws {}", mws.join(","));
    }
    if !canonical {
        let mut s = String::from("trace");
        for e in t {
            s.push(' ');
            s.push_str(&match e {
                Ev::Mw(i) => format!("m{}", i),
                Ev::H(i) => format!("h{}", i),
                Ev::Reg(i, p) => format!("r{}:{}", i, shex(p)),
                Ev::Seg(i, ts) => format!("s{}:{}", i, ts.len()),
            });
        }
        return s;
    }
    let mws: Vec<String> = t[..n - 1].iter().map(|e| if let Ev::Mw(i) = e { i.to_string() } else { unreachable!() }).collect();
    let m = if mws.is_empty() { "-".to_string() } else { mws.join(",") };
    match &t[n - 1] {
        Ev::H(i) => format!("handler {} mws {}", i, m),
        Ev::Reg(i, p) => format!("handler {} mws {} ptr {}", i, m, shex(p)),
        Ev::Seg(i, ts) => format!("handler {} mws {} {}", i, m, show_segs(ts)),
        Ev::Mw(_) => unreachable!(),
    }
}

fn exec_get(out: &mut Out, sc: &mut Scen, line: &str, idx: &str, path: &str) -> (String, bool) {
    let mut ops = sc.ops.clone();
    ops.push(line.to_string());
    sc.arm_registries(path);
    let h = match sc.router.get(path) {
        None => {
            out.count("get.none");
            // "receives exactly": no exact route and a normal-form mount that matches at a boundary ⇒ must be found
            if !sc.exact.contains_key(path) {
                let missed = sc.regs.iter().map(|r| &r.1).chain(sc.structs.iter().map(|s| &s.1)).any(|p| (normal_form(p) && boundary_match(p, path)) || p.is_empty());
                if missed {
                    out.oracle_fail("router.mount.missed", &format!("no handler for {:?} although a mount covers it", path), &ops);
                }
            } else {
                out.oracle_fail("router.get.exact_missing", &format!("exactly registered path {:?} not found", path), &ops);
            }
            return (format!("{} none", idx), false);
        }
        Some(h) => h,
    };
    let body = br#"{"__hit":1}"#;
    // the request id is a function of the op index (0, small, huge ids all occur)
    let rid = idx.parse::<u64>().map(|i| if i % 7 == 0 { 0 } else if i % 7 == 1 { u64::MAX } else { i.wrapping_mul(0x9E37_79B9_7F4A_7C15) }).unwrap_or(7);
    let req = request(rid, path, body, 2);
    let ctx = CallContext::detached(path);
    let mut traces: Vec<Vec<Ev>> = vec![];
    for route in 0..3 {
        sc.log.lock().unwrap().clear();
        let r = catch(|| match route {
            0 => h.handle(&req),
            1 => h.handle_with_ctx(&req, &ctx),
            _ => {
                let view = MessageView { header: req.header, query: &req.query, body: &req.body };
                h.handle_view(&view, &ctx)
            }
        });
        if r.is_err() {
            out.oracle_fail("router.get.panic", &format!("route {} panicked on {:?}", route, path), &ops);
        }
        sc.collect_root_hits();
        traces.push(sc.log.lock().unwrap().clone());
    }
    // every 8th get also goes through a real server built from this very router (blocking or async by
    // op parity): what `route()` + the borrowed dispatch do with this path – "" and "/" included – must
    // reach the same middleware and handler
    if idx.parse::<u64>().map(|i| i % 8 == 0).unwrap_or(false) && GET_E2E_DONE.load(Ordering::SeqCst) < E2E_CAP.load(Ordering::SeqCst) / 3 {
        GET_E2E_DONE.fetch_add(1, Ordering::SeqCst);
        sc.log.lock().unwrap().clear();
        let srv = if rid % 2 == 0 { 0 } else { 8 };
        match tcp_roundtrip(sc.router.clone(), &[req.to_vec()], srv, 0, rid) {
            Ok(_) => {
                out.count("get.e2e.ok");
                sc.collect_root_hits();
                let t = sc.log.lock().unwrap().clone();
                if t != traces[0] {
                    out.oracle_fail("router.get.server_trace", &format!("path {:?} through a {} server reached {:?}, in-process dispatch reaches {:?}", path, if srv == 0 { "blocking" } else { "async" }, t, traces[0]), &ops);
                }
            }
            Err(e) => {
                out.count(&format!("get.e2e.io_error.{}", e));
                if e == "no_response" {
                    out.oracle_fail("router.get.server_no_response", &format!("path {:?}: the server did not answer although the router resolves the path", path), &ops);
                }
            }
        }
    }
    if traces[1] != traces[0] || traces[2] != traces[0] {
        out.oracle_fail("router.trace.route_mismatch", &format!("handle / handle_with_ctx / handle_view saw different middleware or handlers for {:?}: {:?}", path, traces), &ops);
    }
    let t = &traces[0];
    let obs = show_trace(t);
    // ---- direct oracles
    let seen_mws: Vec<u64> = t.iter().filter_map(|e| if let Ev::Mw(i) = e { Some(*i) } else { None }).collect();
    // registered middleware up to and including the first one that does not call `next` (op history)
    let stop_at = sc.mws.iter().position(|m| is_stopper(*m));
    let want_mws: Vec<u64> = match stop_at {
        Some(k) => sc.mws[..=k].to_vec(),
        None => sc.mws.clone(),
    };
    if seen_mws != want_mws {
        out.oracle_fail("router.mw.not_uniform", &format!("path {:?}: middleware run {:?}, registered {:?} (expected to run {:?})", path, seen_mws, sc.mws, want_mws), &ops);
    }
    if stop_at.is_some() {
        out.count("get.stopped");
        if t.iter().any(|e| !matches!(e, Ev::Mw(_))) {
            out.oracle_fail("router.mw.stopper_bypassed", &format!("path {:?}: a handler ran although middleware {} does not forward: {:?}", path, sc.mws[stop_at.unwrap()], t), &ops);
        }
        return (format!("{} {}", idx, obs), true);
    }
    let last = t.last().cloned();
    if let Some(want) = sc.exact.get(path) {
        if last != Some(Ev::H(*want)) {
            out.oracle_fail("router.get.exact_not_first", &format!("path {:?} is registered exactly (handler {}) but {:?} answered", path, want, last), &ops);
        }
        out.count("get.exact");
    } else {
        match &last {
            Some(Ev::Reg(id, ptr)) => {
                out.count("get.registry");
                let p = &sc.regs.iter().find(|r| r.0 == *id).unwrap().1;
                if normal_form(p) {
                    if !boundary_match(p, path) {
                        out.oracle_fail("router.mount.no_boundary", &format!("registry at {:?} received {:?}", p, path), &ops);
                    } else {
                        let want = if path == p { "/" } else { &path[p.len()..] };
                        if ptr != want {
                            out.oracle_fail("router.reg.ptr", &format!("registry at {:?} asked for {:?}, expected {:?}", p, ptr, want), &ops);
                        }
                    }
                }
            }
            Some(Ev::Seg(id, segs)) => {
                out.count("get.struct");
                let p = &sc.structs.iter().find(|r| r.0 == *id).unwrap().1;
                if normal_form(p) {
                    if !boundary_match(p, path) {
                        out.oracle_fail("router.mount.no_boundary", &format!("struct at {:?} received {:?}", p, path), &ops);
                    } else if let Some(want) = rfc6901(&path[p.len()..]) {
                        if *segs != want {
                            out.oracle_fail("router.segs.rfc6901", &format!("struct at {:?} path {:?}: segments {:?}, RFC 6901 says {:?}", p, path, segs, want), &ops);
                        }
                    }
                }
            }
            Some(Ev::H(id)) => {
                out.oracle_fail("router.get.stale_exact", &format!("path {:?} answered by exact handler {} that is not registered there", path, id), &ops);
            }
            _ => out.count("get.unidentified"),
        }
    }
    (format!("{} {}", idx, obs), !sc.mws.is_empty() || sc.regs.len() + sc.structs.len() > 0)
}

// ------------------------------------------------------------------------------------------
// (ii)/(iii) one fresh mount
// ------------------------------------------------------------------------------------------
fn exec_match(out: &mut Out, line: &str, idx: &str, kind: &str, prefix: &str, path: &str) -> (String, bool) {
    let ops = vec![line.to_string()];
    let log: Log = Arc::new(Mutex::new(vec![]));
    let mut sc = Scen::new();
    sc.log = log.clone();
    match kind {
        "reg" => sc.add_reg(prefix, 2),
        "struct" => sc.add_struct(prefix, 3),
        _ => return (format!("{} bad-op", idx), false),
    }
    sc.arm_registries(path);
    let got = sc.router.get(path);
    let nf = normal_form(prefix);
    let want_match = if prefix.is_empty() || prefix == "/" { Some(true) } else if nf { Some(boundary_match(prefix, path)) } else { None };
    if let Some(w) = want_match {
        if w != got.is_some() {
            out.oracle_fail(
                if w { "router.mount.missed" } else { "router.mount.no_boundary" },
                &format!("{} mount at {:?}, path {:?}: matched={} but prefix/boundary rule says {}", kind, prefix, path, got.is_some(), w),
                &ops,
            );
        }
    }
    let h = match got {
        None => {
            out.count(&format!("match.{}.no", kind));
            return (format!("{} 0", idx), true);
        }
        Some(h) => h,
    };
    out.count(&format!("match.{}.yes", kind));
    let req = request(9, path, br#"{"__hit":1}"#, 2);
    let view = MessageView { header: req.header, query: &req.query, body: &req.body };
    let ctx = CallContext::detached(path);
    let r = catch(|| h.handle_view(&view, &ctx));
    if r.is_err() {
        out.oracle_fail("router.match.panic", &format!("{} mount at {:?} panicked on {:?}", kind, prefix, path), &ops);
    }
    sc.collect_root_hits();
    let t = log.lock().unwrap().clone();
    let rel_of = |p: &str| -> String {
        if p.is_empty() || p == "/" { path.to_string() } else { path[p.len()..].to_string() }
    };
    let obs = match t.as_slice() {
        [Ev::Reg(_, ptr)] => {
            if nf || prefix.is_empty() || prefix == "/" {
                let rel = rel_of(prefix);
                let want = if rel.is_empty() { "/".to_string() } else { rel };
                if *ptr != want {
                    out.oracle_fail("router.reg.ptr", &format!("registry at {:?} path {:?}: pointer {:?}, expected {:?}", prefix, path, ptr, want), &ops);
                }
            }
            format!("1 ptr {}", shex(ptr))
        }
        [Ev::Seg(_, segs)] => {
            let n = segs.len();
            out.count(if n == 0 { "segs.0" } else if n < 16 { "segs.1-15" } else if n == 16 { "segs.16" } else if n == 17 { "segs.17" } else { "segs.18+" });
            if path.contains('~') {
                out.count("segs.escaped");
            }
            if nf || prefix.is_empty() || prefix == "/" {
                let rel = rel_of(prefix);
                if let Some(want) = rfc6901(&rel) {
                    if *segs != want {
                        out.oracle_fail("router.segs.rfc6901", &format!("struct at {:?} path {:?}: segments {:?}, RFC 6901 says {:?}", prefix, path, segs, want), &ops);
                    }
                }
            }
            format!("1 {}", show_segs(segs))
        }
        other => format!("1 ? {}", other.len()),
    };
    (format!("{} {}", idx, obs), true)
}

// ------------------------------------------------------------------------------------------
// (iv) twin differential
// ------------------------------------------------------------------------------------------
#[derive(Serialize, Deserialize, Clone, Debug, PartialEq)]
struct P {
    a: i64,
    #[serde(default)]
    s: String,
}

struct PAdapter {
    ok: bool,
    code: ErrorCode,
    cb: u8,
}
impl JsonTypedHandler for PAdapter {
    type In = P;
    type Out = P;
    fn call(&self, p: P) -> Result<P, (ErrorCode, String)> {
        misbehave(self.cb);
        if self.ok { Ok(P { a: p.a.wrapping_add(1), s: p.s }) } else { Err((self.code, "scripted failure".into())) }
    }
}

struct TwinRec {
    ok: bool,
    cb: u8,
    variant: u32,
}

/// Every `StructError` variant a hand-written `RepeStruct` can return, by index.
fn struct_error(k: u32, path: String) -> StructError {
    let bad_json = || serde_json::from_str::<Value>("{").unwrap_err();
    match k % 7 {
        0 => StructError::InvalidPath { path },
        1 => StructError::InvalidSubpath { path },
        2 => StructError::BodyExpected { path },
        3 => StructError::BodyUnexpected { path },
        4 => StructError::Serialize { path, source: bad_json() },
        5 => StructError::Deserialize { path, source: bad_json() },
        _ => StructError::Execution { path, message: "scripted failure".into() },
    }
}

/// Every `RepeError` variant (and every stable `io::ErrorKind`) a custom handler or middleware can return, by index.
fn repe_error(k: u32) -> RepeError {
    use std::io::ErrorKind as K;
    const KINDS: &[K] = &[
        K::NotFound, K::PermissionDenied, K::ConnectionRefused, K::ConnectionReset, K::ConnectionAborted, K::NotConnected, K::AddrInUse, K::AddrNotAvailable,
        K::BrokenPipe, K::AlreadyExists, K::WouldBlock, K::InvalidInput, K::InvalidData, K::TimedOut, K::WriteZero, K::Interrupted, K::Unsupported,
        K::UnexpectedEof, K::OutOfMemory, K::Other,
    ];
    match k % 32 {
        0 => RepeError::VersionMismatch(9),
        1 => RepeError::InvalidSpec(0x1234),
        2 => RepeError::InvalidHeaderLength(7),
        3 => RepeError::LengthMismatch { expected: 5, got: 3 },
        4 => RepeError::BufferTooSmall { need: 10, have: 1 },
        5 => RepeError::ResponseIdMismatch { expected: 1, got: 2 },
        6 => RepeError::Json(serde_json::from_str::<Value>("{").unwrap_err()),
        7 => RepeError::Beve(beve::from_slice::<Value>(&[0xff, 0xff, 0xff]).unwrap_err()),
        8 => RepeError::UnknownEnumValue(77),
        9 => RepeError::UnexpectedBodyFormat { expected: BodyFormat::Json, got: 9 },
        10 => RepeError::ServerError { code: ErrorCode::Timeout, message: "upstream".into() },
        11 => RepeError::MessageTooLarge { size: 10, limit: 5 },
        j => RepeError::Io(std::io::Error::new(KINDS[(j as usize - 12) % KINDS.len()], "scripted io error")),
    }
}

/// What `with_erased_handler` takes: full control of the answer – here an answer with its own query, or an error.
struct ErasedLeaf {
    ok: bool,
    cb: u8,
    variant: u32,
}
impl HandlerErased for ErasedLeaf {
    fn handle(&self, req: &Message) -> Result<Message, RepeError> {
        misbehave(self.cb);
        if self.ok {
            // sets its OWN response query when the variant is odd (the echo rule must leave it alone)
            let b = Message::builder().id(req.header.id).body_bytes(req.body.clone()).body_format_code(req.header.body_format);
            Ok(if self.variant % 2 == 1 { b.query_str("/own/query").query_format_code(1).build() } else { b.build() })
        } else {
            Err(repe_error(self.variant))
        }
    }
}
impl RepeStruct for TwinRec {
    fn repe_handle(&mut self, segments: &[&str], body: Option<Value>) -> Result<Option<Value>, StructError> {
        misbehave(self.cb);
        if self.ok {
            Ok(Some(json!({"segs": segments, "body": body})))
        } else {
            Err(struct_error(self.variant, repe::structs::path_from_segments(segments)))
        }
    }
}

fn code_of(n: u32) -> ErrorCode {
    ErrorCode::try_from(n).unwrap_or(ErrorCode::ApplicationErrorBase)
}

const TWIN_PATH: &str = "/t/x";

/// Callback behaviour `cb`: 0 plain; 1/2/3 panic with a String / &'static str / non-string payload;
/// 4 slow (then plain).
fn misbehave(cb: u8) {
    match cb {
        1 => panic!("{}", String::from("handler panicked (String payload)")),
        2 => panic!("handler panicked (&'static str payload)"),
        3 => std::panic::panic_any(42i32),
        4 => std::thread::sleep(std::time::Duration::from_millis(1)),
        _ => {}
    }
}

/// "/a/b" -> ("/a", "/b"): where the registry / struct of the twin family is mounted, and what is below it.
fn split_last(path: &str) -> (&str, &str) {
    match path.rfind('/') {
        Some(i) => (&path[..i], &path[i..]),
        None => ("", path),
    }
}

fn body_format_of(trfmt: u8) -> BodyFormat {
    match trfmt % 5 {
        1 => BodyFormat::Json,
        2 => BodyFormat::Beve,
        3 => BodyFormat::Utf8,
        4 => BodyFormat::RawBinary,
        _ => BodyFormat::Json,
    }
}

struct TwinCfg<'a> {
    rawcode: u32,
    kind: &'a str,
    path: &'a str,
    ok: bool,
    code: ErrorCode,
    trfmt: u8,
    cb: u8,
}

fn twin_router(c: &TwinCfg, blocking: bool, nmw: usize, order: u8, counts: &[Arc<AtomicU64>], seen: &Seen) -> Option<Router> {
    let (kind, path, ok, code, trfmt, cb) = (c.kind, c.path, c.ok, c.code, c.trfmt, c.cb);
    let variant = c.rawcode;
    let mut r = Router::new();
    let add_mws = |mut r: Router| {
        for c in counts.iter().take(nmw) {
            r = r.with_middleware(CountMw(c.clone(), seen.clone()));
        }
        r
    };
    if order == 0 {
        r = add_mws(r);
    }
    let fail = move || -> (ErrorCode, String) { (code, "scripted failure".into()) };
    let fmt = body_format_of(trfmt);
    let (mount, below) = split_last(path);
    r = match (kind, blocking) {
        ("json", false) if trfmt % 2 == 1 => r.with(path, move |v| { misbehave(cb); if ok { Ok(json!({"echo": v})) } else { Err(fail()) } }),
        ("json", false) => r.with_json(path, move |v| { misbehave(cb); if ok { Ok(json!({"echo": v})) } else { Err(fail()) } }),
        ("json", true) => r.with_json_blocking(path, move |v| { misbehave(cb); if ok { Ok(json!({"echo": v})) } else { Err(fail()) } }),
        ("jsonctx", false) => r.with_json_ctx(path, move |c: &CallContext, v| { misbehave(cb); if ok { Ok(json!({"m": c.method(), "peer": c.peer().map(|p| p.peer_id().0), "echo": v})) } else { Err(fail()) } }),
        ("jsonctx", true) => r.with_json_ctx_blocking(path, move |c: &CallContext, v| { misbehave(cb); if ok { Ok(json!({"m": c.method(), "peer": c.peer().map(|p| p.peer_id().0), "echo": v})) } else { Err(fail()) } }),
        // trfmt 0: the closure returns a bare `R` (IntoTypedResponse for R = JSON); 1..4: TypedResponse::{json,beve,utf8,raw_binary}
        ("typed", false) if trfmt % 5 == 0 => r.with_typed::<P, P, _>(path, move |p: P| -> Result<P, (ErrorCode, String)> {
            misbehave(cb);
            if ok { Ok(P { a: p.a.wrapping_add(1), s: p.s }) } else { Err(fail()) }
        }),
        ("typed", false) => r.with_typed::<P, P, _>(path, move |p: P| -> Result<TypedResponse<P>, (ErrorCode, String)> {
            misbehave(cb);
            let v = P { a: p.a.wrapping_add(1), s: p.s };
            if ok { Ok(match trfmt % 5 { 1 => TypedResponse::json(v), 2 => TypedResponse::beve(v), 3 => TypedResponse::utf8(v), _ => TypedResponse::raw_binary(v) }) } else { Err(fail()) }
        }),
        ("typed", true) => r.with_typed_blocking::<P, P, _>(path, move |p: P| -> Result<TypedResponse<P>, (ErrorCode, String)> {
            misbehave(cb);
            if ok { Ok(TypedResponse::new(P { a: p.a.wrapping_add(1), s: p.s }, fmt)) } else { Err(fail()) }
        }),
        ("typedctx", false) => r.with_typed_ctx::<P, P, _>(path, move |c: &CallContext, p: P| -> Result<TypedResponse<P>, (ErrorCode, String)> {
            misbehave(cb);
            if ok { Ok(TypedResponse::new(P { a: p.a.wrapping_add(1), s: format!("{}{:?}{}", c.method(), c.peer().map(|p| p.peer_id().0), p.s) }, fmt)) } else { Err(fail()) }
        }),
        ("typedctx", true) => r.with_typed_ctx_blocking::<P, P, _>(path, move |c: &CallContext, p: P| -> Result<TypedResponse<P>, (ErrorCode, String)> {
            misbehave(cb);
            if ok { Ok(TypedResponse::new(P { a: p.a.wrapping_add(1), s: format!("{}{:?}{}", c.method(), c.peer().map(|p| p.peer_id().0), p.s) }, fmt)) } else { Err(fail()) }
        }),
        ("adapter", false) => r.with_handler(path, PAdapter { ok, code, cb }),
        ("slice", false) => r.with_typed_slice::<f64, f64, _>(path, move |xs: Vec<f64>| { misbehave(cb); if ok { Ok(xs.iter().map(|x| x * 2.0).collect()) } else { Err(fail()) } }),
        ("sliceref", false) => r.with_typed_slice_ref::<f64, f64, _>(path, move |xs: &[f64]| { misbehave(cb); if ok { Ok(xs.iter().map(|x| x * 2.0).collect()) } else { Err(fail()) } }),
        ("registry", false) => {
            let reg = Arc::new(Registry::new());
            reg.register_function(below, move |p: Option<Value>| { misbehave(cb); if ok { Ok(json!({"p": p})) } else { Err(fail()) } }).ok()?;
            if trfmt % 2 == 0 { r.with_registry(mount, reg) } else { r.register_registry(mount, reg); r }
        }
        ("erased", false) => r.with_erased_handler(path, Arc::new(ErasedLeaf { ok, cb, variant })),
        ("struct", false) => match trfmt % 3 {
            0 => r.with_struct(mount, TwinRec { ok, cb, variant }).0,
            1 => { r.register_struct(mount, TwinRec { ok, cb, variant }); r }
            _ => r.with_struct_shared::<TwinRec, std::sync::RwLock<TwinRec>>(mount, Arc::new(std::sync::RwLock::new(TwinRec { ok, cb, variant }))),
        },
        _ => return None,
    };
    if order != 0 {
        r = add_mws(r);
    }
    Some(r)
}

static E2E_DONE: AtomicU64 = AtomicU64::new(0);
static NO_RESPONSE_SEEN: AtomicU64 = AtomicU64::new(0);
static GET_E2E_DONE: AtomicU64 = AtomicU64::new(0);
static THOROUGH: std::sync::atomic::AtomicBool = std::sync::atomic::AtomicBool::new(false);
/// socket legs with long stalls run concurrently; their verdicts are collected at the end of the run
static PENDING: Mutex<Vec<std::thread::JoinHandle<Vec<(String, String, Vec<String>)>>>> = Mutex::new(Vec::new());
static E2E_CAP: AtomicU64 = AtomicU64::new(1500);

fn async_rt() -> &'static tokio::runtime::Runtime {
    // deliberately starved: one worker, one blocking thread (class l: nothing to spare when a response is due)
    static RT: std::sync::OnceLock<tokio::runtime::Runtime> = std::sync::OnceLock::new();
    RT.get_or_init(|| tokio::runtime::Builder::new_multi_thread().worker_threads(1).max_blocking_threads(1).enable_all().build().expect("tokio runtime"))
}

/// Servers cannot be stopped once `serve(self)` runs, so every socket leg leaves a listener (and, for the
/// blocking server, a parked accept thread) behind. Bound their number: past it the legs are skipped, not judged.
static SERVERS_STARTED: AtomicU64 = AtomicU64::new(0);
static REFUSED_DONE: AtomicU64 = AtomicU64::new(0);
const MAX_SERVERS: u64 = 4000;

fn start_server(router: Router, srv: u8, short_read_timeout: bool) -> Result<std::net::SocketAddr, &'static str> {
    if SERVERS_STARTED.fetch_add(1, Ordering::SeqCst) >= MAX_SERVERS {
        return Err("cap");
    }
    let to = |bit: u8| if srv & bit != 0 { Some(std::time::Duration::from_secs(30)) } else { None };
    let rto = if short_read_timeout { Some(std::time::Duration::from_millis(60)) } else { to(2) };
    if srv & 8 == 0 {
        let server = repe::Server::new(router).tcp_nodelay(srv & 1 != 0).read_timeout(rto).write_timeout(to(4));
        let listener = server.listen("127.0.0.1:0").map_err(|_| "bind")?;
        let addr = listener.local_addr().map_err(|_| "addr")?;
        std::thread::spawn(move || {
            let _ = server.serve(listener);
        });
        Ok(addr)
    } else {
        let rt = async_rt();
        let listener = rt.block_on(repe::AsyncServer::listen("127.0.0.1:0")).map_err(|_| "bind")?;
        let addr = listener.local_addr().map_err(|_| "addr")?;
        let server = repe::AsyncServer::new(router).read_timeout(rto).write_timeout(to(4));
        rt.spawn(async move {
            let _ = server.serve(listener).await;
        });
        Ok(addr)
    }
}

/// One byte per `read` call: the peer that drains slowly.
struct OneByte<R>(R);
impl<R: std::io::Read> std::io::Read for OneByte<R> {
    fn read(&mut self, buf: &mut [u8]) -> std::io::Result<usize> {
        if buf.is_empty() { Ok(0) } else { self.0.read(&mut buf[..1]) }
    }
}

/// All `frames` pipelined on ONE connection to a real server (blocking `repe::Server` or
/// `repe::AsyncServer`, options from `srv`); returns every response.  `io` shapes the byte stream:
/// bits 0-1 how the request bytes are cut (whole / 1-byte pieces / 2-3 pieces at cut points chosen from
/// `salt`: inside the header, at 48, inside query, inside body / 1460-byte segments), bit 2 a 25 ms stall
/// between pieces, bit 3 a stall longer than a short configured read timeout (the server may then drop the
/// connection: not judged), bit 4 the client reads one byte per read call, bit 5 the client does not
/// read anything until all requests are written (full socket buffers on the server's write side).
/// Socket trouble is reported as Err and never judged (only responses that arrive are compared).
fn tcp_roundtrip(router: Router, frames: &[Vec<u8>], srv: u8, io: u8, salt: u64) -> Result<Vec<Message>, &'static str> {
    use std::io::Write;
    let addr = start_server(router, srv, io & 8 != 0)?;
    let mut stream = std::net::TcpStream::connect(addr).map_err(|_| "connect")?;
    // watchdog: 12 s normally; once responses have gone missing in this run, 3 s (the tree is broken anyway)
    // (s) bit 6: ONE stall longer than any plausible internal timer: 300 / 600 / 1100 ms (2.5 / 5.5 / 11 s in the thorough tier)
    let long_ms: u64 = if io & 64 != 0 { if THOROUGH.load(Ordering::SeqCst) { [2500, 5500, 11000][(salt % 3) as usize] } else { [300, 600, 1100][(salt % 3) as usize] } } else { 0 };
    let wd = (if NO_RESPONSE_SEEN.load(Ordering::SeqCst) >= 2 { 3 } else { 12 }) + long_ms / 1000;
    stream.set_read_timeout(Some(std::time::Duration::from_secs(wd))).map_err(|_| "timeout")?;
    stream.set_nodelay(true).ok();
    let all: Vec<u8> = frames.concat();
    let total = all.len();
    let mode = if io & 3 == 1 && total > 6000 { 3 } else { io & 3 };
    let mut cuts: Vec<usize> = match mode {
        1 => (1..total).collect(),
        2 => {
            // inside the first header, at its end, inside the first query / body, and somewhere later
            let cands = [1 + (salt % 47) as usize, 48, 49 + (salt / 7 % 3) as usize, 48 + frames[0].len().saturating_sub(48) / 2, frames[0].len(), (salt / 13) as usize % total.max(1)];
            let mut c: Vec<usize> = vec![cands[(salt % 6) as usize], cands[(salt / 6 % 6) as usize]];
            c.retain(|x| *x > 0 && *x < total);
            c
        }
        3 => (1..=total / 1460).map(|k| k * 1460).filter(|x| *x < total).collect(),
        _ => vec![],
    };
    cuts.sort_unstable();
    cuts.dedup();
    let stall = if long_ms > 0 { long_ms } else if io & 8 != 0 { 150 } else if io & 4 != 0 { 25 } else { 0 };
    let max_stalls = if long_ms > 0 { 1 } else { 4 };
    if long_ms > 0 && cuts.is_empty() {
        cuts.push(1 + (salt % 60) as usize % total.max(2).saturating_sub(1).max(1)); // somewhere in the first frame's first 60 bytes
        cuts.retain(|x| *x > 0 && *x < total);
    }
    let mut ws = stream.try_clone().map_err(|_| "clone")?;
    let writer = std::thread::spawn(move || {
        let mut at = 0usize;
        let mut stalled = 0;
        for c in cuts.iter().chain(std::iter::once(&total)) {
            if ws.write_all(&all[at..*c]).is_err() {
                return;
            }
            at = *c;
            // stall a bounded number of times (a 1-byte stream must not take minutes)
            if stall > 0 && stalled < max_stalls {
                std::thread::sleep(std::time::Duration::from_millis(stall));
                stalled += 1;
            }
        }
        let _ = ws.flush();
    });
    if io & 32 != 0 {
        // the peer reads nothing for a while: until everything is written, but for at most 300 ms – a client
        // that NEVER reads while it keeps sending is rightly stuck once the buffers are full (both sides block),
        // and that would be this harness's deadlock, not the server's
        let t0 = std::time::Instant::now();
        while !writer.is_finished() && t0.elapsed() < std::time::Duration::from_millis(300) {
            std::thread::sleep(std::time::Duration::from_millis(5));
        }
        std::thread::sleep(std::time::Duration::from_millis(40));
    }
    let mut out = Vec::new();
    let res = (|| {
        if io & 16 != 0 {
            let mut r = OneByte(&mut stream);
            for _ in frames {
                out.push(repe::read_message(&mut r).map_err(|_| "no_response")?);
            }
        } else {
            for _ in frames {
                out.push(repe::read_message(&mut stream).map_err(|_| "no_response")?);
            }
        }
        Ok(())
    })();
    drop(stream);
    res.map(|_| out)
}

/// The same frames as binary WebSocket messages to a real `WebSocketServer`, one at a time.
fn ws_roundtrip(router: Router, frames: &[Vec<u8>]) -> Result<Vec<Message>, &'static str> {
    use futures_util::{SinkExt, StreamExt};
    use tokio_tungstenite::tungstenite::Message as WsMsg;
    let rt = async_rt();
    let frames = frames.to_vec();
    rt.block_on(async move {
        let work = async {
            if SERVERS_STARTED.fetch_add(1, Ordering::SeqCst) >= MAX_SERVERS {
                return Err("cap");
            }
            let listener = repe::WebSocketServer::listen("127.0.0.1:0").await.map_err(|_| "bind")?;
            let addr = listener.local_addr().map_err(|_| "addr")?;
            tokio::spawn(async move {
                let _ = repe::WebSocketServer::new(router).serve_listener(listener, "/ws").await;
            });
            let (mut ws, _) = tokio_tungstenite::connect_async(format!("ws://{}/ws", addr)).await.map_err(|_| "connect")?;
            let mut out = Vec::new();
            for f in frames {
                ws.send(WsMsg::Binary(f.into())).await.map_err(|_| "write")?;
                loop {
                    match ws.next().await {
                        Some(Ok(WsMsg::Binary(b))) => {
                            out.push(Message::from_slice(&b).map_err(|_| "parse")?);
                            break;
                        }
                        Some(Ok(_)) => continue,
                        _ => return Err("no_response"),
                    }
                }
            }
            let _ = ws.close(None).await;
            Ok(out)
        };
        match tokio::time::timeout(std::time::Duration::from_secs(12), work).await {
            Ok(r) => r,
            Err(_) => Err("no_response"),
        }
    })
}

/// Final response as the dispatch layer would send it (echo rule + error mapping), canonical text.
fn norm(req_id: u64, req_query: &[u8], r: Result<Result<Message, RepeError>, String>) -> String {
    let (h, q, b): (Header, Vec<u8>, Vec<u8>) = match r {
        Err(_) => return "PANIC".into(),
        Ok(Ok(m)) => (m.header, m.query, m.body),
        Ok(Err(e)) => {
            let mut h = Header::new();
            h.id = req_id;
            h.ec = e.to_error_code() as u32;
            h.body_format = BodyFormat::Utf8 as u16;
            (h, vec![], e.to_string().into_bytes())
        }
    };
    let q = if q.is_empty() { req_query.to_vec() } else { q };
    format!("id={} ec={} qf={} bf={} notify={} q={} b={}", h.id, h.ec, h.query_format, h.body_format, h.notify, hex(&q), hex(&b))
}

fn exec_twin(out: &mut Out, line: &str, w: &[&str]) -> (String, bool) {
    let idx = w[1];
    let bad = || (format!("{} bad-op", idx), false);
    if w.len() != 25 {
        return bad();
    }
    let io: u8 = w[24].parse().unwrap_or(0);
    let kind = w[2];
    let blocking = w[3] == "1";
    let nmw: usize = w[4].parse().unwrap_or(0);
    let bfmt: u16 = match w[5].parse() { Ok(v) => v, Err(_) => return bad() };
    let Some(body) = unhex(w[6]) else { return bad() };
    let ok = w[8] == "ok";
    let code = code_of(w[9].parse().unwrap_or(4096));
    let order: u8 = w[10].parse().unwrap_or(0);
    let voff: usize = w[11].parse().unwrap_or(0) % 16;
    let qfmt: u16 = w[12].parse().unwrap_or(1);
    let Some(query) = unhex(w[13]) else { return bad() };
    let rid: u64 = w[14].parse().unwrap_or(1);
    let notify: u8 = w[15].parse().unwrap_or(0);
    let version: u8 = w[16].parse().unwrap_or(1);
    let reserved: u32 = w[17].parse().unwrap_or(0);
    let reqec: u32 = w[18].parse().unwrap_or(0);
    let trfmt: u8 = w[19].parse().unwrap_or(0);
    let cb: u8 = w[20].parse().unwrap_or(0);
    let Some(tpath) = unshex(w[21]) else { return bad() };
    let srv: u8 = w[22].parse().unwrap_or(0);
    let decoys: usize = w[23].parse().unwrap_or(0);
    let panics = (1..=3).contains(&cb);
    let ops = vec![line.to_string()];
    let counts: Vec<Arc<AtomicU64>> = (0..nmw).map(|_| Arc::new(AtomicU64::new(0))).collect();
    let seen: Seen = Arc::new(Mutex::new(vec![]));
    let rawcode: u32 = w[9].parse().unwrap_or(4096);
    let cfg = TwinCfg { rawcode, kind, path: &tpath, ok, code, trfmt, cb };
    let (Some(plain), Some(raw), Some(wrapped)) =
        (twin_router(&cfg, false, 0, 0, &counts, &seen), twin_router(&cfg, blocking, 0, 0, &counts, &seen), twin_router(&cfg, blocking, nmw, order, &counts, &seen))
    else {
        return bad();
    };
    let (Some(hp), Some(hr), Some(hw)) = (plain.get(&tpath), raw.get(&tpath), wrapped.get(&tpath)) else {
        out.oracle_fail("router.twin.not_found", "registered route not found", &ops);
        return (format!("{} none", idx), false);
    };
    let mut req = Message::builder().id(rid).query_bytes(query.clone()).query_format_code(qfmt).body_bytes(body.clone()).body_format_code(bfmt).build();
    req.header.query_format = qfmt;
    req.header.body_format = bfmt;
    // header fields no handler should care about (the envelope checks are `route`'s, see C03)
    req.header.notify = notify;
    req.header.version = version;
    req.header.reserved = reserved;
    req.header.ec = reqec;
    // ---- reuse: the same handler instances first serve `decoys` other requests (an undecodable one,
    // a large valid one, one in a rejected format), then the real one; a never-used instance gives the baseline
    // a query of the same length as the route path but different content (stale per-connection state shows here)
    let sibling: String = {
        let mut cs: Vec<char> = tpath.chars().collect();
        if let Some(l) = cs.last_mut() {
            *l = if *l == 'y' { 'w' } else { 'y' };
        }
        let t: String = cs.into_iter().collect();
        if t.len() == tpath.len() { t } else { format!("/{}", "y".repeat(tpath.len().saturating_sub(1))) }
    };
    // up to 3: one of each kind; more: a run of N IDENTICAL requests (same id, same bytes) of one kind
    // (rejected format / large valid / undecodable) – the N-th must be treated like the first
    let decoy_kinds: [(Vec<u8>, u16, &str); 3] = [
        (b"xyz".to_vec(), 77u16, sibling.as_str()),
        (serde_json::to_vec(&json!({"a": 5, "s": "d".repeat(9000)})).unwrap(), 2u16, tpath.as_str()),
        (b"{\"unterminated".to_vec(), 2u16, "/decoy/a"),
    ];
    let decoy_reqs: Vec<Message> = (0..decoys)
        .map(|i| {
            let (k, id) = if decoys > 3 { (decoys % 3, rid ^ 1) } else { (i, rid ^ (i as u64 + 1)) };
            let (b, f, q) = &decoy_kinds[k];
            Message::builder().id(id).query_str(q).query_format_code(1).body_bytes(b.clone()).body_format_code(*f).build()
        })
        .collect();
    let mut fresh_baseline: Option<String> = None;
    if !panics {
        if let Some(fr) = twin_router(&cfg, false, 0, 0, &counts, &seen) {
            if let Some(fh) = fr.get(&tpath) {
                fresh_baseline = Some(norm(rid, &query, catch(|| fh.handle(&req))));
            }
        }
        for d in &decoy_reqs {
            let dctx = CallContext::detached("/decoy");
            for h in [&hp, &hr, &hw] {
                let dv = MessageView { header: d.header, query: &d.query, body: &d.body };
                let _ = catch(|| h.handle_view(&dv, &dctx));
                let _ = catch(|| h.handle(d));
            }
        }
        for c in &counts {
            c.store(0, Ordering::SeqCst);
        }
        seen.lock().unwrap().clear();
    }
    // the borrowed view lives in a separate buffer at a chosen misalignment
    let mut backing = vec![0u8; voff + query.len() + 16 + body.len()];
    let qs = voff;
    let bs = voff + query.len() + (voff % 3);
    backing[qs..qs + query.len()].copy_from_slice(&query);
    backing[bs..bs + body.len()].copy_from_slice(&body);
    let view = MessageView { header: req.header, query: &backing[qs..qs + query.len()], body: &backing[bs..bs + body.len()] };
    let method = std::str::from_utf8(&query).unwrap_or("");
    let ctx = CallContext::detached(method);
    let mut results: Vec<(&'static str, String)> = vec![];
    let mut first: Option<String> = None;
    let handlers: [(&str, &Arc<dyn HandlerErased>); 3] = [("plain", &hp), ("raw", &hr), ("wrapped", &hw)];
    for (hn, h) in handlers.iter() {
        for route in ["handle", "handle_with_ctx", "handle_view"] {
            let r = catch(|| match route {
                "handle" => h.handle(&req),
                "handle_with_ctx" => h.handle_with_ctx(&req, &ctx),
                _ => h.handle_view(&view, &ctx),
            });
            if *hn == "wrapped" {
                // every link of the chain must have been shown the caller's context (none for `handle`)
                let want = if route == "handle" { None } else { Some(method.to_string()) };
                let got = std::mem::take(&mut *seen.lock().unwrap());
                if got.len() != nmw || got.iter().any(|(m, p)| *m != want || p.is_some()) {
                    out.oracle_fail("router.twin.ctx_link", &format!("{} behind {} middleware: links saw {:?}, expected {} x {:?}", route, nmw, got, nmw, want), &ops);
                }
            }
            if first.is_none() {
                first = Some(match &r {
                    Err(_) => "PANIC".into(),
                    Ok(Ok(m)) if m.header.ec == 0 => "ok".into(),
                    Ok(Ok(m)) => format!("rej {}", m.header.ec),
                    Ok(Err(_)) => "fail".into(),
                });
            }
            let name: &'static str = Box::leak(format!("{}.{}", hn, route).into_boxed_str());
            results.push((name, norm(rid, &query, r)));
        }
    }
    let r0 = results[0].1.clone();
    if panics && kind != "struct" && io & 128 != 0 && notify != 1 {
        // (m) the connection thread / task unwinds; the server and its router must go on serving others.
        // The second connection sends a request the route rejects before the closure runs.
        let probe = Message::builder().id(rid ^ 5).query_str(&tpath).query_format_code(1).body_bytes(b"zz".to_vec()).body_format_code(77).build();
        let want = norm(probe.header.id, &probe.query, catch(|| hp.handle(&probe)));
        let t0 = std::time::Instant::now();
        if let Ok(addr) = start_server(wrapped.clone(), srv, false) {
            use std::io::Write;
            if let Ok(mut a) = std::net::TcpStream::connect(addr) {
                a.set_read_timeout(Some(std::time::Duration::from_secs(3))).ok();
                let _ = a.write_all(&req.to_vec());
                let _ = repe::read_message(&mut a); // EOF / error expected: not judged
            }
            if let Ok(mut b) = std::net::TcpStream::connect(addr) {
                b.set_read_timeout(Some(std::time::Duration::from_secs(20))).ok();
                if b.write_all(&probe.to_vec()).is_ok() {
                    match repe::read_message(&mut b) {
                        Ok(m) => {
                            out.count("twin.e2e.after_panic.ok");
                            let got = norm(probe.header.id, &probe.query, Ok(Ok(m)));
                            if got != want && version == 1 {
                                out.oracle_fail(&format!("router.twin.{}.after_panic", kind), &format!("after a handler panicked on another connection the server answered\n  {}\ninstead of\n  {}", got, want), &ops);
                            }
                        }
                        Err(_) => out.count("twin.e2e.after_panic.io_error"),
                    }
                }
            }
        }
        out.add("twin.e2e.ms.after_panic", t0.elapsed().as_millis() as u64);
    }
    if panics {
        // The property says nothing about a handler that panics (a std lock may be poisoned by the
        // first route, so later routes legitimately differ): exercised and classified, not judged.
        let class = first.unwrap();
        out.count(&format!("twin.{}.cb_panic.{}", kind, class.split(' ').next().unwrap()));
        let exec = exec_name(hw.execution());
        let printed = if kind == "registry" { "-".to_string() } else { class };
        return (format!("{} {} exec {} links {}", idx, printed, exec, nmw), true);
    }
    if r0 == "PANIC" {
        out.oracle_fail(&format!("router.twin.{}.panic", kind), "handler panicked", &ops);
    }
    if let Some(fb) = &fresh_baseline {
        if *fb != r0 {
            out.oracle_fail(&format!("router.twin.{}.reuse", kind), &format!("after {} earlier requests the handler answered\n  {}\nbut a never-used instance answers\n  {}", decoys, r0, fb), &ops);
        }
    }
    for (name, r) in results.iter().skip(1) {
        if *r != r0 {
            out.oracle_fail(&format!("router.twin.{}.{}", kind, name), &format!("{} answered\n  {}\nbut plain.handle answered\n  {}", name, r, r0), &ops);
        }
    }
    // the context is an input too: with a context whose method differs from the query, every
    // context-taking route of every wrapper must still agree (a wrapper that drops the context and
    // lets the leaf re-derive one from the query would answer differently for the ctx kinds)
    let peer = repe::PeerHandle::new(repe::PeerId(77), Arc::new(NullSink));
    let ctx2 = CallContext::new("/ctx/marker", &peer);
    let mut links_with_ctx = 0usize;
    let mut first2: Option<(String, String)> = None;
    for (hn, h) in handlers.iter() {
        for route in ["handle_with_ctx", "handle_view"] {
            let r = catch(|| if route == "handle_view" { h.handle_view(&view, &ctx2) } else { h.handle_with_ctx(&req, &ctx2) });
            if *hn == "wrapped" {
                let saw = std::mem::take(&mut *seen.lock().unwrap());
                let good = saw.iter().filter(|(m, p)| m.as_deref() == Some("/ctx/marker") && *p == Some(77)).count();
                if route == "handle_with_ctx" {
                    links_with_ctx = good;
                }
                if saw.len() != nmw || good != nmw {
                    out.oracle_fail("router.twin.ctx_link", &format!("{} behind {} middleware with a peer context: links saw {:?}", route, nmw, saw), &ops);
                }
            }
            let got = norm(rid, &query, r);
            match &first2 {
                None => first2 = Some((format!("{}.{}", hn, route), got)),
                Some((n0, g0)) => {
                    if *g0 != got {
                        out.oracle_fail(&format!("router.twin.{}.ctx.{}.{}", kind, hn, route), &format!("with an explicit context {}.{} answered\n  {}\nbut {} answered\n  {}", hn, route, got, n0, g0), &ops);
                    }
                }
            }
        }
    }
    for (i, c) in counts.iter().enumerate() {
        let n = c.load(Ordering::SeqCst);
        if n != 5 {
            out.oracle_fail("router.twin.mw_count", &format!("middleware {} of {} ran {} times for 5 dispatches (order {})", i, nmw, n, order), &ops);
        }
    }
    // end to end: the same request over TCP through the real `Server` (read_message_into →
    // MessageView → route_request_view → dispatch_view → echo) must give the same response
    if (io & 128 != 0 || idx.parse::<u64>().map(|i| i % 4 == 0).unwrap_or(false)) && qfmt == 1 && version == 1 && notify != 1 && E2E_DONE.load(Ordering::SeqCst) < E2E_CAP.load(Ordering::SeqCst) {
        if let Ok(path) = std::str::from_utf8(&query) {
            if wrapped.get(path).is_some() {
                E2E_DONE.fetch_add(1, Ordering::SeqCst);
                let mut frames: Vec<Vec<u8>> = decoy_reqs.iter().map(|d| d.to_vec()).collect();
                frames.push(req.to_vec());
                let which = if srv & 8 == 0 { "tcp_server" } else { "async_server" };
                if io & 64 != 0 && io & 8 == 0 {
                    // run concurrently; judged when collected
                    let (router, frames2, r0c, kindc, whichc, opsc) = (wrapped.clone(), frames.clone(), r0.clone(), kind.to_string(), which.to_string(), ops.clone());
                    let (salt, q2) = (rid ^ idx.parse::<u64>().unwrap_or(0), query.clone());
                    let h = std::thread::spawn(move || {
                        let mut fails = vec![];
                        match tcp_roundtrip(router, &frames2, srv, io, salt) {
                            Ok(mut all) => {
                                let got = norm(rid, &q2, Ok(Ok(all.pop().unwrap())));
                                if got != r0c {
                                    fails.push((format!("router.twin.{}.{}", kindc, whichc), format!("after a long stall inside the request (io {}) the server answered\n  {}\nbut plain.handle answered\n  {}", io, got, r0c), opsc));
                                }
                            }
                            Err("no_response") => fails.push((format!("router.twin.{}.{}.no_response", kindc, whichc), format!("a request delivered in two pieces with a long stall between them (io {}) was never answered", io), opsc)),
                            Err(_) => {}
                        }
                        fails
                    });
                    PENDING.lock().unwrap().push(h);
                    collect_pending(out, 32);
                    out.count("twin.e2e.long_stall.started");
                } else {
                let t0 = std::time::Instant::now();
                let rr = tcp_roundtrip(wrapped.clone(), &frames, srv, io, rid ^ idx.parse::<u64>().unwrap_or(0));
                out.add(&format!("twin.e2e.ms.io{}", io & 63), t0.elapsed().as_millis() as u64);
                match rr {
                    Ok(mut all) => {
                        out.count(&format!("twin.e2e.{}.ok", which));
                        let m = all.pop().unwrap();
                        // earlier responses on the connection: none of these handlers sets a query of its own, so each
                        // must carry its own request's id and query (nothing left over from a neighbour)
                        for (d, resp) in decoy_reqs.iter().zip(all.iter()) {
                            let own_query = kind == "erased" && resp.query == b"/own/query";
                            if resp.header.id != d.header.id || (resp.query != d.query && !own_query) {
                                out.oracle_fail(&format!("router.twin.{}.{}.pipelined", kind, which), &format!("request id={} q={} on a shared connection was answered with id={} q={}", d.header.id, hex(&d.query), resp.header.id, hex(&resp.query)), &ops);
                            }
                        }
                        let got = norm(rid, &query, Ok(Ok(m)));
                        if got != r0 {
                            out.oracle_fail(&format!("router.twin.{}.{}", kind, which), &format!("the server (options {}, io {io}, after {} requests on the connection) answered\n  {}\nbut plain.handle answered\n  {}", srv, decoys, got, r0), &ops);
                        }
                    }
                    Err(e) => {
                        out.count(&format!("twin.e2e.io_error.{}", e));
                        // Every request was written completely and is well formed; no handler panics; the server's read
                        // timeout is not shorter than our stalls: then all responses are due (30 s watchdog). A dropped
                        // connection or a response that never comes is "not the same response".
                        if e == "no_response" && io & 8 == 0 {
                            NO_RESPONSE_SEEN.fetch_add(1, Ordering::SeqCst);
                            out.oracle_fail(&format!("router.twin.{}.{}.no_response", kind, which), &format!("the server (options {}, io {}) did not deliver all {} responses on the connection within the watchdog although in-process dispatch answers every request", srv, io, frames.len()), &ops);
                        }
                    }
                }
                }
                // (t) the feature-gated WebSocket twin: inline (borrowed) for plain registrars, off-reader (owned
                // `dispatch` + `stamp_response_query`) for the `_blocking` ones. The peer-carrying context makes the
                // ctx kinds answer differently by design, so only the context-free kinds are compared.
                if srv & 1 != 0 && !matches!(kind, "jsonctx" | "typedctx") && decoys <= 3 && io & 64 == 0 {
                    match ws_roundtrip(wrapped.clone(), &frames) {
                        Ok(mut all) => {
                            out.count("twin.e2e.websocket.ok");
                            let got = norm(rid, &query, Ok(Ok(all.pop().unwrap())));
                            if got != r0 {
                                out.oracle_fail(&format!("router.twin.{}.websocket_server", kind), &format!("the WebSocket server ({} path) answered\n  {}\nbut plain.handle answered\n  {}", if blocking { "off-reader" } else { "inline" }, got, r0), &ops);
                            }
                        }
                        Err(e) => out.count(&format!("twin.e2e.websocket.io_error.{}", e)),
                    }
                }
            }
        }
    }
    // (u) our clause on somebody else's path: an envelope that `route()` refuses (version, query format, not
    // UTF-8, unknown path – the codes are C03's) must still be refused THE SAME WAY by the blocking and the
    // async server, with the request's id and query
    if (io & 128 != 0 || idx.parse::<u64>().map(|i| i % 8 == 1).unwrap_or(false)) && notify != 1 && !panics {
        let refused = version != 1 || qfmt != 1 || std::str::from_utf8(&query).map(|p| wrapped.get(p).is_none()).unwrap_or(true);
        if refused && REFUSED_DONE.fetch_add(1, Ordering::SeqCst) < 300 {
            let f = vec![req.to_vec()];
            let a = tcp_roundtrip(wrapped.clone(), &f, srv & !8, 0, 0);
            let b = tcp_roundtrip(wrapped.clone(), &f, srv | 8, 0, 0);
            match (a, b) {
                (Ok(mut a), Ok(mut b)) => {
                    out.count("twin.e2e.refused.ok");
                    let (a, b) = (a.pop().unwrap(), b.pop().unwrap());
                    let (na, nb) = (norm(rid, &[], Ok(Ok(a.clone()))), norm(rid, &[], Ok(Ok(b))));
                    if na != nb {
                        out.oracle_fail(&format!("router.twin.{}.servers_differ", kind), &format!("a refused request was answered\n  {}\nby the blocking server and\n  {}\nby the async server", na, nb), &ops);
                    }
                    if a.header.id != rid || a.query != query || a.header.ec == 0 {
                        out.oracle_fail(&format!("router.twin.{}.refusal_shape", kind), &format!("a request no route accepts was answered id={} ec={} q={} (request id={} q={})", a.header.id, a.header.ec, hex(&a.query), rid, hex(&query)), &ops);
                    }
                }
                (Err("no_response"), _) | (_, Err("no_response")) => out.oracle_fail(&format!("router.twin.{}.refused.no_response", kind), "a refused non-notify request got no answer from one of the servers", &ops),
                _ => out.count("twin.e2e.refused.io_error"),
            }
        }
    }
    // `with_handler` (JsonTypedAdapter) must gate body formats like `with_typed` does for the same input type
    if kind == "adapter" {
        if let Some(tr) = twin_router(&TwinCfg { rawcode, kind: "typed", path: &tpath, ok, code, trfmt, cb }, false, 0, 0, &counts, &seen) {
            if let Some(th) = tr.get(&tpath) {
                let is_gate_rej = |r: &Result<Result<Message, RepeError>, String>| matches!(r, Ok(Ok(m)) if m.header.ec == 4 && m.body.starts_with(b"Expected"));
                let a = catch(|| hp.handle(&req));
                let t = catch(|| th.handle(&req));
                if is_gate_rej(&a) != is_gate_rej(&t) {
                    out.oracle_fail("router.twin.adapter.gate_differs_from_typed", &format!("body format {}: with_handler {} the body format, with_typed {}", bfmt, if is_gate_rej(&a) { "rejects" } else { "accepts" }, if is_gate_rej(&t) { "rejects" } else { "accepts" }), &ops);
                }
            }
        }
    }
    let exec = exec_name(hw.execution());
    if blocking && exec != "offreader" {
        out.oracle_fail("router.twin.execution_lost", &format!("blocking handler behind {} middleware reports {}", nmw, exec), &ops);
    }
    let class = first.unwrap();
    out.count(&format!("twin.{}.{}", kind, class.split(' ').next().unwrap()));
    let printed = if kind == "registry" { "-".to_string() } else { class.clone() };
    (format!("{} {} exec {} links {}", idx, printed, exec, links_with_ctx), class != "rej 4" || bfmt <= 3)
}

// ------------------------------------------------------------------------------------------
// (v) a derived struct behind the router: RegisteredStruct::handle + #[derive(RepeStruct)]
// ------------------------------------------------------------------------------------------
#[derive(Default, Serialize, Deserialize, repe::RepeStruct)]
struct Deep {
    z: Value,
}
#[derive(Default, Serialize, Deserialize, repe::RepeStruct)]
struct Inner {
    x: Value,
    #[repe(nested)]
    deep: Deep,
}
#[derive(Default, Serialize, Deserialize, repe::RepeStruct)]
#[repe(methods(echo(&self, v: Value) -> Value, ping(&self) -> i64, touch(&mut self), boom(&self, k: Value) -> i64))]
struct Demo {
    a: Value,
    #[repe(readonly)]
    ro: Value,
    #[repe(nested)]
    inner: Inner,
    #[repe(rename = "alias")]
    renamed: Value,
    #[repe(skip)]
    hidden: Value,
}
impl Demo {
    fn echo(&self, v: Value) -> Value {
        v
    }
    fn ping(&self) -> i64 {
        7
    }
    fn touch(&mut self) {}
    /// panics while the mount's lock guard is held: String / &'static str / non-string payload
    fn boom(&self, k: Value) -> i64 {
        match k.as_i64().unwrap_or(0) % 3 {
            0 => panic!("{}", String::from("boom (String)")),
            1 => panic!("boom (&'static str)"),
            _ => std::panic::panic_any(vec![1u8, 2, 3]),
        }
    }
}

/// A user-defined `Lockable`: a mutex that can be told to refuse (`LockError::Other`).
struct FlakyLock {
    inner: Mutex<Demo>,
    refuse: std::sync::atomic::AtomicBool,
}
impl repe::server::Lockable<Demo> for FlakyLock {
    type Guard<'a> = std::sync::MutexGuard<'a, Demo>;
    fn lock(&self) -> Result<Self::Guard<'_>, repe::server::LockError> {
        if self.refuse.load(Ordering::SeqCst) {
            return Err(repe::server::LockError::other("flaky lock refuses"));
        }
        // never reports poisoning: a panic under this lock does not disable the mount
        Ok(self.inner.lock().unwrap_or_else(|p| p.into_inner()))
    }
}

/// The lock kinds `register_struct_shared` / `with_struct_shared` accept (`Lockable`).
enum DLock {
    Std(Arc<Mutex<Demo>>),
    Rw(Arc<std::sync::RwLock<Demo>>),
    TokioM(Arc<tokio::sync::Mutex<Demo>>),
    TokioRw(Arc<tokio::sync::RwLock<Demo>>),
    Flaky(Arc<FlakyLock>),
}
impl DLock {
    fn new(kind: u64) -> DLock {
        match kind % 5 {
            0 => DLock::Std(Arc::new(Mutex::new(Demo::default()))),
            1 => DLock::Rw(Arc::new(std::sync::RwLock::new(Demo::default()))),
            2 => DLock::TokioM(Arc::new(tokio::sync::Mutex::new(Demo::default()))),
            3 => DLock::TokioRw(Arc::new(tokio::sync::RwLock::new(Demo::default()))),
            _ => DLock::Flaky(Arc::new(FlakyLock { inner: Mutex::new(Demo::default()), refuse: std::sync::atomic::AtomicBool::new(false) })),
        }
    }
    fn mount(&self, router: Router, root: &str, builder_style: bool) -> Router {
        macro_rules! go {
            ($l:expr, $L:ty) => {{
                if builder_style {
                    router.with_struct_shared::<Demo, $L>(root, $l.clone())
                } else {
                    let mut r = router;
                    r.register_struct_shared::<Demo, $L>(root, $l.clone());
                    r
                }
            }};
        }
        match self {
            DLock::Std(l) => go!(l, Mutex<Demo>),
            DLock::Rw(l) => go!(l, std::sync::RwLock<Demo>),
            DLock::TokioM(l) => go!(l, tokio::sync::Mutex<Demo>),
            DLock::TokioRw(l) => go!(l, tokio::sync::RwLock<Demo>),
            DLock::Flaky(l) => go!(l, FlakyLock),
        }
    }
}

struct DState {
    demo: DLock,
    written: BTreeMap<String, Vec<u8>>, // relative path -> canonical JSON last accepted by a write
    ops: Vec<String>,
    /// from the op history: a `boom` call went through on a poisoning lock, or the flaky lock is told to refuse
    lock_broken: bool,
    kind: u64,
}
impl DState {
    fn new() -> DState {
        DState::with_lock(0)
    }
    fn with_lock(kind: u64) -> DState {
        DState { demo: DLock::new(kind), written: BTreeMap::new(), ops: vec![], lock_broken: false, kind: kind % 5 }
    }
}

fn exec_dstruct(out: &mut Out, ds: &mut DState, line: &str, w: &[&str]) -> (String, bool) {
    let idx = w[1];
    let bad = || (format!("{} bad-op", idx), false);
    if w.len() != 9 {
        return bad();
    }
    let (Some(root), Some(path), Ok(bfmt), Some(body)) = (unshex(w[2]), unshex(w[3]), w[4].parse::<u16>(), unhex(w[5])) else { return bad() };
    ds.ops.push(line.to_string());
    let ops = ds.ops.clone();
    // builder (`with_struct_shared`) or in-place (`register_struct_shared`) registrar, by op parity
    let router = ds.demo.mount(Router::new(), &root, idx.len() % 2 == 0);
    let Some(h) = router.get(&path) else {
        out.count("dstruct.none");
        return (format!("{} none", idx), false);
    };
    let rid = idx.parse::<u64>().map(|i| if i % 5 == 0 { 0 } else { i.wrapping_mul(0x9E37_79B9_7F4A_7C15) }).unwrap_or(5);
    let req = request(rid, &path, &body, bfmt);
    let view = MessageView { header: req.header, query: &req.query, body: &req.body };
    let ctx = CallContext::detached(&path);
    // borrowed and owned entry, alternating by op index
    let r = catch(|| if rid % 2 == 0 { h.handle_view(&view, &ctx) } else { h.handle(&req) });
    let is_boom = path.ends_with("/boom");
    let obs = match r {
        Err(_) => {
            if !is_boom {
                out.oracle_fail("router.derive.panic", &format!("derived struct at {:?} panicked on {:?}", root, path), &ops);
            } else if ds.kind < 2 {
                ds.lock_broken = true; // std Mutex / RwLock: poisoned from now on
            }
            "PANIC".to_string()
        }
        Ok(Err(_)) => "fail".to_string(),
        Ok(Ok(m)) if m.header.ec != 0 => format!("err {}", m.header.ec),
        Ok(Ok(m)) => {
            let is_obj = serde_json::from_slice::<Value>(&m.body).map(|v| v.is_object()).unwrap_or(false);
            if body.is_empty() && is_obj { "whole".to_string() } else { format!("ok {}", hex(&m.body)) }
        }
    };
    out.count(&format!("dstruct.{}", obs.split(' ').next().unwrap()));
    // ---- direct oracle: hand-written expectation per endpoint of `Demo` (not the model): what kind of
    // endpoint the relative path names decides the class of the answer
    {
        let nroot = if root.is_empty() || root == "/" { String::new() } else if root.starts_with('/') { root.clone() } else { format!("/{}", root) };
        let rel = &path[nroot.len().min(path.len())..];
        let decodable = body.is_empty() || ((bfmt == 2 || bfmt == 3) && serde_json::from_slice::<Value>(&body).is_ok());
        if decodable && !ds.lock_broken && rel != "/boom" {
            let has_body = !body.is_empty();
            let want: Option<&str> = match rel {
                "" | "/inner" | "/inner/deep" => Some(if has_body { "err 4" } else { "whole" }), // whole write of a non-object: serde rejects
                "/a" | "/inner/x" | "/inner/deep/z" | "/alias" => Some("ok"),
                "/renamed" | "/hidden" => Some("err 6"), // a renamed field answers to its alias only; a skipped field is not an endpoint
                "/ro" => Some(if has_body { "err 4" } else { "ok" }),
                "/echo" => Some(if has_body { "ok" } else { "err 4" }),
                "/ping" | "/touch" => Some("ok"),
                "/" | "/nope" | "/inner/nope" | "/inner//x" | "/a~0" | "/inner~1x" => Some("err 6"),
                // an empty token is a token: it names no endpoint of the (nested) struct
                "/inner/" | "/inner/deep/" | "/inner//" | "//" | "//a" | "/inner/deep//z" | "/inner/x/" => Some("err 6"),
                "/a/" | "/a/b" | "/inner/deep/z/q" | "/ping/x" => Some("err 6"),
                r if r.starts_with("/inner/deep/z/1/") => Some("err 6"),
                _ => None,
            };
            if let Some(w) = want {
                let got = if obs.starts_with("ok ") { "ok" } else { obs.as_str() };
                if got != w {
                    out.oracle_fail("router.derive.semantics", &format!("derived struct at {:?}, path {:?} ({}): answered {:?}, the endpoint kind says {:?}", root, path, if has_body { "with body" } else { "no body" }, obs, w), &ops);
                }
            }
        }
    }
    // ---- direct oracle: read-after-write, keyed by the relative path text (independent of the model)
    let norm_root = if root.is_empty() || root == "/" { String::new() } else if root.starts_with('/') { root.clone() } else { format!("/{}", root) };
    let rel = path[norm_root.len().min(path.len())..].to_string();
    let is_method = rel == "/echo" || rel == "/ping" || rel == "/touch";
    if !is_method && !ds.lock_broken {
        if !body.is_empty() && obs == format!("ok {}", hex(b"null")) {
            if let Some(c) = unhex(w[6]) {
                ds.written.insert(rel.clone(), c);
            }
        } else if body.is_empty() {
            if let (Some(want), Some(got)) = (ds.written.get(&rel), obs.strip_prefix("ok ")) {
                if hex(want) != got {
                    out.oracle_fail("router.derive.read_after_write", &format!("read of {:?} returned {} after {} was written", path, got, hex(want)), &ops);
                }
            }
        }
    }
    (format!("{} {}", idx, obs), obs != "none")
}

// ------------------------------------------------------------------------------------------
// (vi) a hand-written spy struct behind 1-3 levels of #[repe(nested)] fields of derived structs
// ------------------------------------------------------------------------------------------
#[derive(Default, Clone, Serialize, Deserialize)]
struct Spy {
    #[serde(skip)]
    log: Arc<Mutex<Vec<Vec<String>>>>,
}
impl RepeStruct for Spy {
    fn repe_handle(&mut self, segments: &[&str], _body: Option<Value>) -> Result<Option<Value>, StructError> {
        self.log.lock().unwrap().push(segments.iter().map(|s| s.to_string()).collect());
        Ok(Some(json!("spy")))
    }
}
#[derive(Default, Serialize, Deserialize, repe::RepeStruct)]
struct Hold1 {
    #[repe(nested)]
    spy: Spy,
}
#[derive(Default, Serialize, Deserialize, repe::RepeStruct)]
struct Hold2 {
    #[repe(nested)]
    outer: Hold1,
}
#[derive(Default, Serialize, Deserialize, repe::RepeStruct)]
struct Hold3 {
    #[repe(nested)]
    top: Hold2,
}

fn exec_nest(out: &mut Out, line: &str, w: &[&str]) -> (String, bool) {
    let idx = w[1];
    let bad = || (format!("{} bad-op", idx), false);
    if w.len() != 6 {
        return bad();
    }
    let (Ok(depth), Some(mount), Some(rel)) = (w[2].parse::<u64>(), unshex(w[3]), unshex(w[4])) else { return bad() };
    let has_body = w[5] == "1";
    let ops = vec![line.to_string()];
    let log: Arc<Mutex<Vec<Vec<String>>>> = Arc::new(Mutex::new(vec![]));
    let spy = Spy { log: log.clone() };
    let (chain, router) = match depth {
        1 => ("/spy", Router::new().with_struct(&mount, Hold1 { spy }).0),
        2 => ("/outer/spy", Router::new().with_struct(&mount, Hold2 { outer: Hold1 { spy } }).0),
        _ => ("/top/outer/spy", Router::new().with_struct(&mount, Hold3 { top: Hold2 { outer: Hold1 { spy } } }).0),
    };
    let nroot = if mount.is_empty() || mount == "/" { String::new() } else if mount.starts_with('/') { mount.clone() } else { format!("/{}", mount) };
    let prefix = format!("{}{}", nroot, chain);
    let path = format!("{}{}", prefix, rel);
    // a JSON string body: never a valid replacement for a struct, so a whole write is refused, not applied
    let body: &[u8] = if has_body { b"\"b\"" } else { b"" };
    let req = request(11, &path, body, 2);
    let classify = |r: Result<Result<Message, RepeError>, String>, log: &Arc<Mutex<Vec<Vec<String>>>>| -> String {
        let seen = std::mem::take(&mut *log.lock().unwrap());
        match (r, seen.as_slice()) {
            (Err(_), _) => "PANIC".to_string(),
            (Ok(Ok(m)), [one]) if m.header.ec == 0 => show_segs(one),
            (Ok(Ok(m)), []) if m.header.ec != 0 => format!("err {}", m.header.ec),
            (Ok(Ok(_)), []) => "replaced".to_string(),
            (Ok(Err(_)), _) => "fail".to_string(),
            (_, many) => format!("calls {}", many.len()),
        }
    };
    let Some(h) = router.get(&path) else { return (format!("{} none", idx), false) };
    let view = MessageView { header: req.header, query: &req.query, body: &req.body };
    let ctx = CallContext::detached(&path);
    let nested_obs = classify(catch(|| h.handle_view(&view, &ctx)), &log);
    // the twin shape: the same spy type mounted directly at the longer prefix
    let log2: Arc<Mutex<Vec<Vec<String>>>> = Arc::new(Mutex::new(vec![]));
    let direct = Router::new().with_struct(&prefix, Spy { log: log2.clone() }).0;
    let direct_obs = match direct.get(&path) {
        Some(h2) => classify(catch(|| h2.handle_view(&view, &ctx)), &log2),
        None => "none".to_string(),
    };
    out.count(&format!("nest.depth{}.{}", depth, nested_obs.split(' ').next().unwrap()));
    // ---- direct oracles (only where a token is left for the spy: with none left and a body the two shapes
    // differ by design – a whole write of the field vs a write handed to the struct)
    if let Some(want) = rfc6901(&rel) {
        if !(want.is_empty() && has_body) {
            let w = show_segs(&want);
            if nested_obs != w {
                out.oracle_fail("router.nest.rfc6901", &format!("spy nested at {:?} below a mount at {:?}, path {:?}: it was handed `{}`, the RFC 6901 tokens of the remaining path {:?} are `{}`", chain, mount, path, nested_obs, rel, w), &ops);
            }
            if nested_obs != direct_obs {
                out.oracle_fail("router.nest.differs_from_direct_mount", &format!("path {:?}: the spy nested via {:?} was handed `{}`, the same spy mounted directly at {:?} was handed `{}`", path, chain, nested_obs, prefix, direct_obs), &ops);
            }
        }
    }
    (format!("{} {}", idx, nested_obs), true)
}

// ------------------------------------------------------------------------------------------
// execution of op lines
// ------------------------------------------------------------------------------------------
fn exec_line(out: &mut Out, sc: &mut Scen, ds: &mut DState, line: &str) {
    let w = words(line);
    if w.len() < 2 {
        return;
    }
    let idx = w[1];
    let s = |i: usize| -> Option<String> { w.get(i).and_then(|h| unshex(h)) };
    let n = |i: usize| -> u64 { w.get(i).and_then(|x| x.parse().ok()).unwrap_or(0) };
    match w[0] {
        "reset" => {
            *sc = Scen::new();
            sc.ops.push(line.to_string());
            out.config(line);
        }
        "clone" => {
            // continue on a clone; the original is dropped (clones share nothing mutable)
            let c = sc.router.clone();
            sc.router = c;
            sc.ops.push(line.to_string());
            out.config(line);
            out.count("op.clone");
        }
        "observe" => {
            // (j) observers vs mutators: `get` / `execution` hammered from 1-3 threads on this router while
            // another builder keeps registering on a clone of it; every observation must be the snapshot's
            const POOL: &[&str] = &["/a", "/a/b", "/r", "/r/x", "/s", "/s/x/y", "", "/", "/zz/top", "/ab", "/é/k", "/s/~01"];
            let snap = Arc::new(sc.router.clone());
            let want: Vec<(bool, &'static str)> = POOL.iter().map(|p| match snap.get(p) { Some(h) => (true, exec_name(h.execution())), None => (false, "-") }).collect();
            let want = Arc::new(want);
            let bad = Arc::new(AtomicU64::new(0));
            let ths: Vec<_> = (0..n(2).clamp(1, 3))
                .map(|_| {
                    let (snap, want, bad) = (snap.clone(), want.clone(), bad.clone());
                    std::thread::spawn(move || {
                        for _ in 0..200 {
                            for (p, w) in POOL.iter().zip(want.iter()) {
                                let got = match snap.get(p) { Some(h) => (true, exec_name(h.execution())), None => (false, "-") };
                                if got != *w {
                                    bad.fetch_add(1, Ordering::SeqCst);
                                }
                            }
                        }
                    })
                })
                .collect();
            let mut other = sc.router.clone();
            for i in 0..40u64 {
                other = other.with_json(POOL[(i % 12) as usize], |_v| Ok(Value::Null));
                if i % 10 == 0 {
                    other.register_middleware(CountMw(Arc::new(AtomicU64::new(0)), Arc::new(Mutex::new(vec![]))));
                    other.register_registry("", Arc::new(Registry::new()));
                }
            }
            drop(other);
            for t in ths {
                let _ = t.join();
            }
            sc.ops.push(line.to_string());
            out.config(line);
            out.count("op.observe");
            if bad.load(Ordering::SeqCst) != 0 {
                let mut ops = sc.ops.clone();
                ops.push(line.to_string());
                out.oracle_fail("router.observe.changed", &format!("{} concurrent get/execution observations differed from the router's own state while a clone was being extended", bad.load(Ordering::SeqCst)), &ops);
            }
        }
        "mw" => {
            sc.add_mw(n(2));
            sc.ops.push(line.to_string());
            out.config(line);
            out.count("op.mw");
        }
        "route" => {
            if let Some(p) = s(2) {
                sc.add_route(&p, n(3));
                out.count(&format!("op.route.registrar{}", n(3) % 11));
            }
            sc.ops.push(line.to_string());
            out.config(line);
        }
        "reg" => {
            if let Some(p) = s(2) {
                sc.add_reg(&p, n(3));
                out.count("op.reg");
            }
            sc.ops.push(line.to_string());
            out.config(line);
        }
        "struct" => {
            if let Some(p) = s(2) {
                sc.add_struct(&p, n(3));
                out.count("op.struct");
            }
            sc.ops.push(line.to_string());
            out.config(line);
        }
        "get" => {
            let (obs, nt) = match s(2) {
                Some(p) => exec_get(out, sc, line, idx, &p),
                None => (format!("{} bad-op", idx), false),
            };
            out.case(line, &obs, nt);
        }
        "match" => {
            let (obs, nt) = match (w.get(2), s(3), s(4)) {
                (Some(k), Some(pre), Some(p)) => exec_match(out, line, idx, k, &pre, &p),
                _ => (format!("{} bad-op", idx), false),
            };
            out.case(line, &obs, nt);
        }
        "tok" => {
            let (obs, nt) = match s(2) {
                Some(p) => {
                    let toks = repe::json_pointer::parse(&p);
                    if let Some(want) = rfc6901(&p) {
                        if toks != want {
                            out.oracle_fail("router.tok.rfc6901", &format!("json_pointer::parse({:?}) = {:?}, RFC 6901 says {:?}", p, toks, want), &[line.to_string()]);
                        }
                    }
                    // `json_pointer::evaluate` walks a document by the same tokens: build the document the
                    // RFC tokens describe (independently) and look the pointer up
                    if let Some(want) = rfc6901(&p) {
                        let mut doc = json!(1);
                        for t in want.iter().rev() {
                            let mut m = serde_json::Map::new();
                            m.insert(t.clone(), doc);
                            doc = Value::Object(m);
                        }
                        if repe::json_pointer::evaluate(&doc, &p) != Some(&json!(1)) {
                            out.oracle_fail("router.tok.evaluate", &format!("json_pointer::evaluate does not find the value at {:?} in the document its RFC 6901 tokens describe", p), &[line.to_string()]);
                        }
                    }
                    out.count("tok");
                    (format!("{} {}", idx, show_segs(&toks)), p.contains('~'))
                }
                None => (format!("{} bad-op", idx), false),
            };
            out.case(line, &obs, nt);
        }
        "dreset" => {
            *ds = DState::with_lock(n(2));
            out.count(&format!("dreset.lock{}", n(2) % 5));
            ds.ops.push(line.to_string());
            out.config(line);
        }
        "dlockfail" => {
            if let DLock::Flaky(l) = &ds.demo {
                l.refuse.store(n(2) == 1, Ordering::SeqCst);
                ds.lock_broken = n(2) == 1;
            }
            ds.ops.push(line.to_string());
            out.config(line);
            out.count("op.dlockfail");
        }
        "nest" => {
            let (obs, nt) = exec_nest(out, line, &w);
            out.case(line, &obs, nt);
        }
        "dconc" => {
            // (j) readers of /a from 1-3 threads while a writer stores w0..w9 there, all through the mount
            let (obs, nt) = match (s(2), w.get(4).and_then(|h| unhex(h))) {
                (Some(root), Some(fin)) => {
                    ds.ops.push(line.to_string());
                    let ops = ds.ops.clone();
                    let router = ds.demo.mount(Router::new(), &root, true);
                    let nroot = if root.is_empty() || root == "/" { String::new() } else if root.starts_with('/') { root.clone() } else { format!("/{}", root) };
                    let path = format!("{}/a", nroot);
                    match router.get(&path) {
                        None => (format!("{} none", idx), false),
                        Some(h) => {
                            let read = |h: &Arc<dyn HandlerErased>| -> Option<Vec<u8>> {
                                match catch(|| h.handle(&request(1, &path, b"", 2))) { Ok(Ok(m)) if m.header.ec == 0 => Some(m.body), _ => None }
                            };
                            let mut admissible: Vec<Vec<u8>> = (0..10).map(|i| serde_json::to_vec(&json!(format!("w{}", i))).unwrap()).collect();
                            admissible.push(fin.clone());
                            if let Some(cur) = read(&h) {
                                admissible.push(cur);
                            }
                            let admissible = Arc::new(admissible);
                            let bad = Arc::new(Mutex::new(Vec::<String>::new()));
                            let ths: Vec<_> = (0..n(3).clamp(1, 3))
                                .map(|_| {
                                    let (h, adm, bad, path) = (h.clone(), admissible.clone(), bad.clone(), path.clone());
                                    std::thread::spawn(move || {
                                        for _ in 0..100 {
                                            match catch(|| h.handle(&request(2, &path, b"", 2))) {
                                                Ok(Ok(m)) if m.header.ec == 0 && adm.contains(&m.body) => {}
                                                Ok(Ok(m)) => bad.lock().unwrap().push(format!("ec={} body={}", m.header.ec, hex(&m.body))),
                                                _ => bad.lock().unwrap().push("error".into()),
                                            }
                                        }
                                    })
                                })
                                .collect();
                            for v in admissible.iter().take(10).chain(std::iter::once(&fin)) {
                                let _ = catch(|| h.handle(&request(3, &path, v, 2)));
                            }
                            for t in ths {
                                let _ = t.join();
                            }
                            let b = bad.lock().unwrap();
                            if !b.is_empty() {
                                out.oracle_fail("router.derive.concurrent_read", &format!("{} of the concurrent reads of {:?} returned something never written: {:?}", b.len(), path, &b[..b.len().min(3)]), &ops);
                            }
                            ds.written.insert("/a".to_string(), fin.clone());
                            out.count("op.dconc");
                            match read(&h) {
                                Some(v) => (format!("{} ok {}", idx, hex(&v)), true),
                                None => (format!("{} err", idx), true),
                            }
                        }
                    }
                }
                _ => (format!("{} bad-op", idx), false),
            };
            out.case(line, &obs, nt);
        }
        "dstruct" => {
            let (obs, nt) = exec_dstruct(out, ds, line, &w);
            out.case(line, &obs, nt);
        }
        "twin" => {
            out.begin(line);
            let t0 = std::time::Instant::now();
            let (obs, nt) = exec_twin(out, line, &w);
            out.add("twin.ms.total", t0.elapsed().as_millis() as u64);
            out.case(line, &obs, nt);
        }
        _ => out.case(line, &format!("{} bad-op", idx), false),
    }
}

// ------------------------------------------------------------------------------------------
// generators
// ------------------------------------------------------------------------------------------
#[derive(Default, Clone)]
struct TwinOv {
    blocking: Option<bool>,
    nmw: Option<u64>,
    order: Option<u64>,
    decoys: Option<u64>,
    cb: Option<u64>,
    srv: Option<u64>,
    io: Option<u64>,
}

struct Gen {
    thorough: bool,
    rng: Rng,
    lines: Vec<String>,
    idx: u64,
    next_id: u64,
}

impl Gen {
    fn push(&mut self, head: &str, rest: &str) {
        self.idx += 1;
        if rest.is_empty() {
            self.lines.push(format!("{} {}", head, self.idx));
        } else {
            self.lines.push(format!("{} {} {}", head, self.idx, rest));
        }
    }
    fn fresh(&mut self) -> u64 {
        self.next_id += 1;
        self.next_id
    }

    // ---- (i) registration orders
    fn scenario(&mut self) {
        const ROUTES: &[&str] = &["/a", "/a/b", "/r", "/r/x", "/s", "/s/x/y", "", "/", "/a/b/c", "/r/", "/é/k"];
        const REGS: &[&str] = &["", "/", "/r", "/a", "r", "/r/", "/r/x", "/é", "/a/b"];
        const STRUCTS: &[&str] = &["", "/", "/s", "/a", "s", "/a/b", "/s/", "/r/x"];
        const PROBES: &[&str] = &[
            "/a", "/a/b", "/a/b/c", "/ab", "/a/", "/r", "/r/x", "/r/x/y", "/rx", "/r/", "/s", "/s/x/y", "/sx", "/s/", "/s//q", "", "/", "/zz/top", "/é/k", "/ék",
            "/s/a~1b/~01", "/a/~0", "/r/x~1",
        ];
        self.push("reset", "");
        let n_ops = if self.rng.chance(1, 12) { self.rng.range(12, 30) } else { self.rng.range(3, 12) };
        let mut used: Vec<String> = vec![];
        // a few paths of this scenario's own: non-ASCII, long, deep (plain segments: a registry below must be able to name them)
        let mut own: Vec<String> = vec![];
        for _ in 0..self.rng.below(3) {
            let depth = self.rng.range(1, 4);
            let mut p = String::new();
            for _ in 0..depth {
                p.push('/');
                match self.rng.below(6) {
                    0 => p.push_str(&"long".repeat(self.rng.range(1, 80) as usize)),
                    1 => p.push_str("日本語"),
                    2 => p.push_str("é"),
                    _ => p.push_str(["a", "r", "s", "k9", "Z_z", "x-y"][self.rng.below(6) as usize]),
                }
            }
            own.push(p);
        }
        for _ in 0..n_ops {
            let pick_own = !own.is_empty() && self.rng.chance(1, 3);
            match self.rng.below(11) {
                0..=2 => {
                    // id % 8 is the middleware's behaviour: mostly forwarding, sometimes rewriting / answering / failing
                    let k = match self.rng.below(25) { 0 => 6, 1 => 7, 2 | 3 => 5, _ => self.rng.below(5) };
                    let id = 8 * (100 + self.fresh()) + k;
                    self.push("mw", &id.to_string());
                }
                3..=5 => {
                    let p = if pick_own { self.rng.pick(&own).clone() } else { self.rng.pick(ROUTES).to_string() };
                    let id = self.fresh();
                    self.push("route", &format!("{} {}", shex(&p), id));
                    used.push(p);
                }
                6..=7 => {
                    let p = if pick_own { self.rng.pick(&own).clone() } else { self.rng.pick(REGS).to_string() };
                    let id = self.fresh();
                    self.push("reg", &format!("{} {}", shex(&p), id));
                }
                8..=9 => {
                    let p = if pick_own { self.rng.pick(&own).clone() } else { self.rng.pick(STRUCTS).to_string() };
                    let id = self.fresh();
                    self.push("struct", &format!("{} {}", shex(&p), id));
                }
                _ => {
                    if self.rng.chance(1, 2) { self.push("clone", "") } else { let k = self.rng.range(1, 3); self.push("observe", &k.to_string()) }
                }
            }
            // (g) N in a row: the same path registered N times, N more middleware, or N identical gets
            if self.rng.chance(1, 14) {
                let n = if self.rng.chance(1, 8) { *self.rng.pick(&[64u64, 65]) } else { *self.rng.pick(&[7u64, 8, 9, 16, 17]) };
                match self.rng.below(3) {
                    0 => {
                        let p = self.rng.pick(ROUTES).to_string();
                        for _ in 0..n {
                            let id = self.fresh();
                            self.push("route", &format!("{} {}", shex(&p), id));
                        }
                        used.push(p);
                    }
                    1 => {
                        for _ in 0..n.min(17) {
                            let id = 8 * (100 + self.fresh()) + self.rng.below(5);
                            self.push("mw", &id.to_string());
                        }
                    }
                    _ => {
                        let p = *self.rng.pick(PROBES);
                        for _ in 0..n {
                            self.push("get", &shex(p));
                        }
                    }
                }
            }
            // observe after every registration: the routes registered so far plus a few probes
            for p in used.clone() {
                if self.rng.chance(1, 2) {
                    self.push("get", &shex(&p));
                }
            }
            for _ in 0..2 {
                let p = *self.rng.pick(PROBES);
                self.push("get", &shex(p));
            }
            for o in own.clone() {
                if self.rng.chance(1, 2) {
                    let tail = ["", "/k9", "/a/r", "x", "/"][self.rng.below(5) as usize];
                    self.push("get", &shex(&format!("{}{}", o, tail)));
                }
            }
        }
        for p in PROBES {
            if self.rng.chance(2, 3) {
                self.push("get", &shex(p));
            }
        }
    }

    // ---- (q) rich state: many routes and mounts, registered in no particular order, BEFORE the rare event
    // (a middleware registration rebuilding every slot, a clone, a re-registration); then every entry is probed
    fn rich_scenario(&mut self) {
        self.push("reset", "");
        let n_routes = self.rng.range(12, 40);
        let mut names: Vec<String> = (0..n_routes).map(|i| format!("/{}{}", ["zeta", "alpha", "Mid", "k", "é", "omega"][self.rng.below(6) as usize], i * 7 % 31)).collect();
        self.rng.shuffle(&mut names);
        let mut ops: Vec<(u8, String)> = names.iter().map(|n| (0u8, n.clone())).collect();
        // overlapping mounts: "first registered that matches" is decided among /m, /m/a, /m/a/b in shuffled order
        for p in ["/m", "/m/a", "/m/a/b", "", "/zeta3"] {
            ops.push((1, p.to_string()));
            ops.push((2, p.to_string()));
        }
        self.rng.shuffle(&mut ops);
        for (k, p) in &ops {
            let id = self.fresh();
            self.push(["route", "reg", "struct"][*k as usize], &format!("{} {}", shex(p), id));
        }
        for round in 0..self.rng.range(1, 3) {
            match self.rng.below(3) {
                0 => self.push("clone", ""),
                1 => {
                    let p = self.rng.pick(&names).clone();
                    let id = self.fresh();
                    self.push("route", &format!("{} {}", shex(&p), id));
                }
                _ => {}
            }
            let id = 8 * (100 + self.fresh()) + self.rng.below(5);
            self.push("mw", &id.to_string());
            if round == 0 || self.rng.chance(1, 2) {
                for n in names.clone() {
                    self.push("get", &shex(&n));
                }
                for p in ["/m", "/m/a", "/m/a/b", "/m/a/b/c", "/m/x", "/mx", "/zeta3/q", "/nothing/here"] {
                    self.push("get", &shex(p));
                }
            }
        }
    }

    // ---- (r) positive siblings of "too deep / too long": registry functions and exact routes that EXIST at depth
    // 17..64 and at 4 KB, found and handed the full pointer
    fn deep_positive(&mut self) {
        let depth = *self.rng.pick(&[16u64, 17, 18, 20, 21, 40, 64]);
        let mut tail = String::new();
        for i in 0..depth {
            tail.push('/');
            tail.push_str(["a", "bb", "k9", "é", "seg"][((i + depth) % 5) as usize]);
        }
        let pre = *self.rng.pick(&["/api", "", "/a/b", "/é"]);
        self.push("match", &format!("reg {} {}", shex(pre), shex(&format!("{}{}", pre, tail))));
        // an exact route at that deep path next to mounts that cover it
        self.push("reset", "");
        let (i1, i2, i3) = (self.fresh(), self.fresh(), self.fresh());
        let full = format!("/deep{}", tail);
        self.push("reg", &format!("{} {}", shex("/deep"), i1));
        self.push("route", &format!("{} {}", shex(&full), i2));
        self.push("struct", &format!("{} {}", shex(""), i3));
        self.push("get", &shex(&full));
        self.push("get", &shex(&format!("{}/x", full)));
        let long = format!("/{}", "L".repeat(4000));
        let i4 = self.fresh();
        self.push("route", &format!("{} {}", shex(&long), i4));
        self.push("get", &shex(&long));
    }

    // ---- (ii) prefix / path pairs
    fn prefix_pairs(&mut self) {
        const PRE: &[&str] = &["", "/", "/api", "api", "/api/", "/a/b", "//", "/é", "/api//", "/a~1b", "a/b", "/a", "/x/y/z", "///"];
        const TAILS: &[&str] = &["", "/", "/x", "x", "/x/y", "//", "//x", "/x/", "é", "/é", "~0", "/~1", "-", "/0"];
        let kind = if self.rng.chance(1, 2) { "reg" } else { "struct" };
        let pre = *self.rng.pick(PRE);
        let base: String = match self.rng.below(6) {
            0 => pre.to_string(),
            1 => {
                // the prefix as normalised by a registry (leading slash added, trailing slashes removed)
                let mut b = if pre.starts_with('/') || pre.is_empty() { pre.to_string() } else { format!("/{}", pre) };
                while b.len() > 1 && b.ends_with('/') {
                    b.pop();
                }
                b
            }
            2 => {
                if pre.starts_with('/') || pre.is_empty() { pre.to_string() } else { format!("/{}", pre) }
            }
            3 => {
                let mut b = pre.to_string();
                b.pop();
                b
            }
            4 => pre.chars().rev().collect(),
            _ => "/other".to_string(),
        };
        let path = format!("{}{}", base, self.rng.pick(TAILS));
        // a registry can only tell us what it was asked through a valid pointer (see arm_registries)
        let kind = if kind == "reg" && !(path.is_empty() || rfc6901(&path).is_some()) { "struct" } else { kind };
        self.push("match", &format!("{} {} {}", kind, shex(pre), shex(&path)));
    }

    fn segment(&mut self, escapes: bool) -> String {
        const PLAIN: &[&str] = &["a", "b", "xy", "0", "12", "é", "日本", "-", " ", "A_b", "%2F", "."];
        match self.rng.below(10) {
            0 | 1 => String::new(),
            2 | 3 if escapes => {
                let mut s = String::new();
                for _ in 0..self.rng.range(1, 4) {
                    match self.rng.below(5) {
                        0 => s.push_str("~0"),
                        1 => s.push_str("~1"),
                        2 => s.push_str("~01"),
                        3 => s.push_str("~10"),
                        _ => s.push_str(self.rng.pick(PLAIN)),
                    }
                }
                s
            }
            _ => self.rng.pick(PLAIN).to_string(),
        }
    }

    fn rel_path(&mut self) -> String {
        let depth = match self.rng.below(13) {
            12 => *self.rng.pick(&[19u64, 20, 21]), // the spill `Vec::with_capacity(STACK_SEGS + 4)` boundary
            0 => 0,
            1 => 1,
            2 => 15,
            3 => 16,
            4 => 17,
            5 => 18,
            6 => 40,
            7 => if self.rng.chance(1, 4) { *self.rng.pick(&[64u64, 65, 128, 300]) } else { 32 },
            _ => self.rng.range(0, 40),
        };
        let escapes = self.rng.chance(1, 2);
        let mut s = String::new();
        for _ in 0..depth {
            s.push('/');
            let seg = self.segment(escapes);
            s.push_str(&seg);
        }
        s
    }

    // ---- (iii) struct segments
    fn struct_paths(&mut self) {
        const ROOTS: &[&str] = &["", "/", "/s", "s", "/deep/root", "/s/", "/a~1b", "/é"];
        let root = *self.rng.pick(ROOTS);
        let norm = if root.is_empty() || root == "/" { String::new() } else if root.starts_with('/') { root.to_string() } else { format!("/{}", root) };
        let rel = self.rel_path();
        self.push("match", &format!("struct {} {}", shex(root), shex(&format!("{}{}", norm, rel))));
        if self.rng.chance(1, 3) {
            self.push("tok", &shex(&rel));
        }
    }

    // ---- (vi) spy behind nested derived structs: empty tokens at every position
    fn nest_case(&mut self) {
        const RELS: &[&str] = &["", "/", "//", "/x", "/x/", "//x", "/x//y", "/x/y/", "///", "/~0", "/~1/", "/ /", "/é/", "/x/~01//"];
        const MOUNTS: &[&str] = &["/svc", "", "/a/b", "svc", "/", "/é"];
        let rel = if self.rng.chance(2, 3) { self.rng.pick(RELS).to_string() } else { self.rel_path() };
        let depth = self.rng.range(1, 3);
        let mount = *self.rng.pick(MOUNTS);
        let hb = self.rng.below(2);
        self.push("nest", &format!("{} {} {} {}", depth, shex(mount), shex(&rel), hb));
    }

    // ---- (v) derived struct behind a mount
    fn derived_scenario(&mut self) {
        const ROOTS: &[&str] = &["/d", "", "/x/y", "d"];
        const PATHS: &[&str] = &[
            "", "/a", "/ro", "/inner", "/inner/x", "/inner/deep", "/inner/deep/z", "/echo", "/ping", "/touch", "/", "/a/", "/a/b", "/nope", "/inner/nope",
            "/inner/deep/z/q", "/inner//x", "/ping/x", "/a~0", "/inner~1x", "/inner/deep/z/1/2/3/4/5/6/7/8/9/10/11/12/13/14/15/16",
            "/a", "/inner/x", "/inner/deep/z", "/echo", "/alias", "/renamed", "/hidden",
            "/inner/", "/inner/deep/", "/inner//", "//", "//a", "/inner/deep//z", "/inner/x/",
        ];
        let lock = self.rng.below(5);
        self.push("dreset", &lock.to_string());
        let root = *self.rng.pick(ROOTS);
        let norm = if root.is_empty() { String::new() } else if root.starts_with('/') { root.to_string() } else { format!("/{}", root) };
        if self.rng.chance(1, 3) {
            // on the fresh struct: concurrent readers and one writer
            let k = self.rng.range(1, 3);
            let fin = serde_json::to_vec(&json!(format!("final{}", self.rng.below(100)))).unwrap();
            self.push("dconc", &format!("{} {} {}", shex(root), k, hex(&fin)));
        }
        if self.rng.chance(1, 10) {
            // (g) a run of N identical failing requests, then business as usual
            let n = if self.thorough && self.rng.chance(1, 20) { *self.rng.pick(&[256u64, 1000]) } else { *self.rng.pick(&[7u64, 8, 9, 16, 17, 64, 65]) };
            let (rel, bf, body): (&str, u16, &[u8]) = *self.rng.pick(&[("/nope", 2u16, &b""[..]), ("/a", 77, &b"1"[..]), ("/a", 2, &b"{bad"[..]), ("/ro", 2, &b"1"[..])]);
            let j = serde_json::from_slice::<Value>(body).is_ok();
            for _ in 0..n {
                self.push("dstruct", &format!("{} {} {} {} {} {}000 0", shex(root), shex(&format!("{}{}", norm, rel)), bf, hex(body), if j && (bf == 2) { hex(body) } else { "-".to_string() }, j as u8));
            }
        }
        for _ in 0..self.rng.range(8, 30) {
            // now and then: a method that panics under the lock, or the user lock told to refuse / serve again
            match self.rng.below(40) {
                0 => {
                    let k = self.rng.below(3);
                    let body = serde_json::to_vec(&json!(k)).unwrap();
                    self.push("dstruct", &format!("{} {} 2 {} {} 1000 0", shex(root), shex(&format!("{}/boom", norm)), hex(&body), hex(&body)));
                    continue;
                }
                1 | 2 => {
                    let b = self.rng.below(2);
                    self.push("dlockfail", &b.to_string());
                    continue;
                }
                _ => {}
            }
            let rel = *self.rng.pick(PATHS);
            let path = format!("{}{}", norm, rel);
            let v: Value = match self.rng.below(7) {
                0 => json!(self.rng.below(1000)),
                1 => json!("s\"x/~"),
                2 => json!([1, "two", null, [3.5]]),
                3 => json!(true),
                4 => json!(null),
                5 => json!(-7.25),
                _ => json!(format!("v{}", self.rng.below(50))),
            };
            let (bfmt, body): (u16, Vec<u8>) = match self.rng.below(12) {
                0..=4 => (2, vec![]),
                5..=7 => (2, serde_json::to_vec(&v).unwrap()),
                8 => (3, serde_json::to_vec(&v).unwrap()),
                9 => (1, beve::to_vec(&v).unwrap()),
                10 => (*self.rng.pick(&[0u16, 4, 77]), serde_json::to_vec(&v).unwrap()),
                _ => (2, b"{not json".to_vec()),
            };
            let j = serde_json::from_slice::<Value>(&body).ok();
            let b = catch(|| beve::from_slice::<Value>(&body).ok()).unwrap_or(None);
            let decoded = match bfmt { 2 | 3 => j.clone(), 1 => b.clone(), _ => None };
            let canon = decoded.as_ref().map(|d| serde_json::to_vec(d).unwrap()).unwrap_or_default();
            // whole-(sub)struct writes: these bodies are never objects, so serde rejects them for every struct type
            self.push("dstruct", &format!("{} {} {} {} {} {}{}00 0", shex(root), shex(&path), bfmt, hex(&body), hex(&canon), j.is_some() as u8, b.is_some() as u8));
        }
    }

    // ---- (iv) twins
    fn twin(&mut self, kind: &str, bfmt: u16, body: Vec<u8>) {
        self.twin_with(kind, bfmt, body, &TwinOv::default())
    }

    fn twin_with(&mut self, kind: &str, bfmt: u16, body: Vec<u8>, ov: &TwinOv) {
        let mut body = body;
        let can_block = matches!(kind, "json" | "jsonctx" | "typed" | "typedctx");
        let blocking = can_block && ov.blocking.unwrap_or_else(|| self.rng.chance(1, 2));
        let nmw = ov.nmw.unwrap_or_else(|| *self.rng.pick(&[0u64, 0, 1, 2, 3, 3, 7, 8, 9, 16, 17, 33]));
        let ok = self.rng.chance(3, 4);
        let code = if matches!(kind, "erased" | "struct") { self.rng.below(64) as u32 } else { *self.rng.pick(&[4096u32, 5, 9, 6, 4, 0, 1, 8, 7, 2, 3]) };
        let ok = if kind == "erased" { self.rng.chance(1, 3) } else { ok };
        let order = ov.order.unwrap_or_else(|| self.rng.below(2));
        let voff = self.rng.below(9);
        // where the route lives: the usual short path, non-ASCII, long, deep
        let exact_kind = !matches!(kind, "registry" | "struct");
        let tpath: String = match self.rng.below(10) {
            // the zero-segment path: an exact route AT "", or a mount at the root with "" as the request path
            8 => if exact_kind { String::new() } else { "/x".to_string() },
            9 => if exact_kind { "/".to_string() } else { "/x".to_string() },
            0 => "/é/日本".to_string(),
            1 => format!("/{}/{}", "p".repeat(self.rng.range(1, 300) as usize), "q".repeat(self.rng.range(1, 300) as usize)),
            2 => "/a/b/c/d/e/f/g/h/i/j/k/l/m/n/o/p/q/r/s/t".to_string(),
            3 => "/T/x".to_string(),
            _ => TWIN_PATH.to_string(),
        };
        let tb = tpath.as_bytes().to_vec();
        let (qfmt, query): (u16, Vec<u8>) = match self.rng.below(14) {
            0 => (0, tb.clone()),
            1 => (1, vec![]),
            2 => (1, self.rng.bytes(5)),
            3 => (77, tb.clone()),
            4 => (1, split_last(&tpath).0.as_bytes().to_vec()),
            5 => (1, format!("{}/deeper/~1", tpath).into_bytes()),
            6 => (65535, tb.clone()),
            7 => (1, [tb.clone(), vec![0xff, 0xfe]].concat()), // not UTF-8
            8 => (1, format!("{}{}", tpath, "/z".repeat(2000)).into_bytes()), // very long
            _ => (1, tb.clone()),
        };
        let rid = self.rng.boundary(64);
        let notify = *self.rng.pick(&[0u8, 0, 0, 1, 2, 255]);
        let version = *self.rng.pick(&[1u8, 1, 1, 1, 0, 2, 255]);
        let reserved = if self.rng.chance(1, 4) { self.rng.boundary(32) } else { 0 };
        let reqec = if self.rng.chance(1, 4) { self.rng.boundary(32) } else { 0 };
        let trfmt = self.rng.below(15);
        let cb = ov.cb.unwrap_or_else(|| match self.rng.below(32) { 0 | 1 => 1, 2 | 3 => 2, 4 | 5 => 3, 6 => 4, _ => 0 });
        let srv = ov.srv.unwrap_or_else(|| self.rng.below(16));
        // runs of identical requests before the real one: 1, 2, 7, 8, 9, 16, 17, 64, 65 (256, 1000 in the thorough tier)
        let decoys = ov.decoys.unwrap_or_else(|| {
            if self.thorough && self.rng.chance(1, 400) { *self.rng.pick(&[256u64, 1000]) } else { *self.rng.pick(&[0u64, 0, 0, 1, 2, 3, 3, 7, 8, 9, 16, 17, 64, 65]) }
        });
        // byte-stream shape of the socket leg (see tcp_roundtrip); bit 7 forces the socket leg
        let io = ov.io.unwrap_or_else(|| {
            let mode = *self.rng.pick(&[0u64, 0, 1, 2, 2, 3]);
            let stall = match self.rng.below(12) { 0 => 4, 1 => 8, _ => 0 };
            let rd = if self.rng.chance(1, 6) { 16 } else { 0 } | if self.rng.chance(1, 6) { 32 } else { 0 };
            mode | stall | rd | if self.rng.chance(1, 10) { 128 } else { 0 } | if self.rng.chance(1, 14) { 64 | 128 } else { 0 }
        });
        // (h) frames right below / at / above the 8 KiB BufReader/BufWriter capacity (and twice that)
        if self.rng.chance(1, 12) && matches!(bfmt, 2 | 3) && matches!(kind, "json" | "jsonctx" | "struct" | "registry") {
            let target = *self.rng.pick(&[8191usize, 8192, 8193, 16383, 16384, 16385, 8192 - 9, 16384 - 9, 8192 - 10, 8192 - 8, 8192 + 48]); // -9: the JSON echo response frame lands on the boundary
            if target > 48 + query.len() + 2 {
                let k = target - 48 - query.len() - 2;
                body = format!("\"{}\"", "x".repeat(k)).into_bytes();
            }
        }
        let hints = hints_for(kind, &body);
        self.push(
            "twin",
            &format!(
                "{} {} {} {} {} {} {} {} {} {} {} {} {} {} {} {} {} {} {} {} {} {} {}",
                kind, blocking as u8, nmw, bfmt, hex(&body), hints, if ok { "ok" } else { "err" }, code, order, voff, qfmt, hex(&query), rid, notify, version, reserved, reqec, trfmt, cb,
                shex(&tpath), srv, decoys, io
            ),
        );
    }

    fn twin_body(&mut self, kind: &str, bfmt: u16) -> Vec<u8> {
        let p = P { a: self.rng.boundary(63) as i64 - 5, s: ["", "x", "é~/", "long string value"][self.rng.below(4) as usize].to_string() };
        let nx = if self.rng.chance(1, 12) { self.rng.range(1000, 9000) } else { self.rng.below(6) };
        let xs: Vec<f64> = (0..nx).map(|i| i as f64 * 1.5 - 2.0).collect();
        let typed = matches!(kind, "typed" | "typedctx" | "adapter");
        let slice = matches!(kind, "slice" | "sliceref");
        // half of the cases: a body that is well formed for this kind under this format code
        let pick = if self.rng.chance(1, 2) {
            match (bfmt, slice) {
                (2 | 3, _) => if typed { 0 } else { 4 },
                (1, true) => if kind == "sliceref" && self.rng.chance(1, 2) { 3 } else { 2 },
                (1, false) => if typed { 1 } else { 5 },
                _ => self.rng.below(11),
            }
        } else {
            self.rng.below(11)
        };
        let mut b = match pick {
            0 => serde_json::to_vec(&p).unwrap(),
            1 => beve::to_vec(&p).unwrap(),
            2 => beve::to_vec_typed_slice(&xs),
            3 => beve::to_vec_aligned_typed_slice(&xs),
            4 => serde_json::to_vec(&json!({"a": 1, "s": "q", "extra": [1, 2, {"k": null}]})).unwrap(),
            5 => beve::to_vec(&json!({"k": [1, 2.5, "s"], "n": null})).unwrap(),
            6 => vec![],
            7 => {
                let n = if self.rng.chance(1, 10) { self.rng.range(1000, 70000) as usize } else { self.rng.below(40) as usize };
                self.rng.bytes(n)
            }
            8 => b"\"just a string\"".to_vec(),
            9 => b"[1,2,3]".to_vec(),
            _ => beve::to_vec(&xs).unwrap(),
        };
        // near-valid: truncate or flip a byte
        match self.rng.below(10) {
            0 if !b.is_empty() => {
                let k = self.rng.below(b.len() as u64) as usize;
                b.truncate(k);
            }
            1 if !b.is_empty() => {
                let k = self.rng.below(b.len() as u64) as usize;
                b[k] ^= 1 << self.rng.below(8);
            }
            _ => {}
        }
        b
    }
}

const KINDS: &[&str] = &["json", "jsonctx", "typed", "typedctx", "adapter", "slice", "sliceref", "registry", "struct", "erased"];
const BFMTS: &[u16] = &[0, 1, 1, 1, 2, 2, 3, 3, 4, 255, 4096, 65535];

/// Does each uninterpreted decoder accept these bytes (for the kind's target type)?  The model
/// takes the decoders' verdicts as given (DESIGN §5) and computes gate / closure / framing.
fn hints_for(kind: &str, body: &[u8]) -> String {
    let b = |x: bool| if x { '1' } else { '0' };
    let (j, bv) = match kind {
        "json" | "jsonctx" | "struct" => (
            catch(|| serde_json::from_slice::<Value>(body).is_ok()).unwrap_or(false),
            catch(|| beve::from_slice::<Value>(body).is_ok()).unwrap_or(false),
        ),
        "typed" | "typedctx" | "adapter" => (
            catch(|| serde_json::from_slice::<P>(body).is_ok()).unwrap_or(false),
            catch(|| beve::from_slice::<P>(body).is_ok()).unwrap_or(false),
        ),
        _ => (false, false),
    };
    // the crate's own bulk decoder (it accepts the generic empty array `05 00` besides beve's typed arrays)
    let s = catch(|| {
        repe::Message::builder().body_bytes(body.to_vec()).body_format(repe::BodyFormat::Beve).build().decode_typed_slice::<f64>().is_ok()
    })
    .unwrap_or(false);
    let r = if body.first() == Some(&0x5C) { catch(|| beve::read_aligned_typed_slice::<f64>(body).is_ok()).unwrap_or(false) } else { s };
    [b(j), b(bv), b(s), b(r)].iter().collect()
}

fn generate(args: &Args) -> Vec<String> {
    let thorough = args.thorough();
    let mut g = Gen { thorough, rng: Rng::new(args.seed), lines: vec![], idx: 0, next_id: 0 };
    // fixed corpus first: the named corner cases
    for (root, path) in [("/s", "/s"), ("/s", "/s/"), ("/s", "/s/a//b/"), ("/s", "/s/~01/a~1b"), ("", ""), ("", "/"), ("/", "/x"), ("/s", "/s/1/2/3/4/5/6/7/8/9/10/11/12/13/14/15/16"),
        ("/s", "/s/1/2/3/4/5/6/7/8/9/10/11/12/13/14/15/16/17"), ("s", "/s/1/2/3/4/5/6/7/8/9/10/11/12/13/14/15/16/17/18"), ("/s", "/sx"), ("/s/", "/s//x")] {
        g.push("match", &format!("struct {} {}", shex(root), shex(path)));
    }
    for (pre, path) in [("/api", "/api"), ("/api", "/api/x"), ("/api", "/apix"), ("/api/", "/api/x"), ("api", "/api/x/y"), ("", ""), ("", "/x"), ("/", "/x/y"), ("/api", "/ap"), ("//", "/anything")] {
        g.push("match", &format!("reg {} {}", shex(pre), shex(path)));
    }
    for p in ["", "/", "/~01", "/~10", "/a~1b/~0~1", "//", "/a/"] {
        g.push("tok", &shex(p));
    }
    let (n_scen, n_pairs, n_struct, n_twin_rounds) = if thorough { (15000, 200000, 300000, 250) } else { (500, 8000, 12000, 10) };
    for _ in 0..n_scen {
        g.scenario();
    }
    for _ in 0..(if thorough { 300 } else { 12 }) {
        g.rich_scenario();
    }
    for _ in 0..(if thorough { 400 } else { 20 }) {
        g.deep_positive();
    }
    for _ in 0..n_pairs {
        g.prefix_pairs();
    }
    for _ in 0..n_struct {
        g.struct_paths();
    }
    for _ in 0..(if thorough { 6000 } else { 250 }) {
        g.derived_scenario();
    }
    // the named corner: exactly one trailing empty token below a nested field, every depth, read and write
    for depth in 1..=3 {
        for rel in ["/", "", "//", "/x/"] {
            for hb in 0..2 {
                g.push("nest", &format!("{} {} {} {}", depth, shex("/svc"), shex(rel), hb));
            }
        }
    }
    for _ in 0..(if thorough { 60000 } else { 2500 }) {
        g.nest_case();
    }
    // (h) request and response frames swept across the 8 KiB / 16 KiB buffer sizes of the servers' BufReader /
    // BufWriter, on both servers, socket leg forced
    for base in [8192usize, 16384] {
        for delta in [-2i64, -1, 0, 1, 2] {
            for (srv, resp) in [(0u64, false), (0, true), (8, false), (8, true), (2 | 4, true), (1, true)] {
                let q = TWIN_PATH.len();
                let frame = (base as i64 + delta) as usize;
                // request frame = 48 + q + body; JSON echo response frame = 48 + q + body + 9
                let body_len = frame - 48 - q - if resp { 9 } else { 0 };
                let body = format!("\"{}\"", "x".repeat(body_len - 2)).into_bytes();
                g.push(
                    "twin",
                    &format!("json 0 1 2 {} {} ok 4096 0 0 1 {} 7 0 1 0 0 0 0 {} {} 1 128", hex(&body), hints_for("json", &body), shex(TWIN_PATH), shex(TWIN_PATH), srv),
                );
            }
        }
    }
    // (p) every error a callback can hand in, once through each server (socket leg forced): all RepeError variants and
    // io::ErrorKinds from a custom handler, all StructError variants from a struct, all ErrorCodes from a closure
    for srv in [0u64, 8, 1] {
        let body = b"{\"a\":1}".to_vec();
        for v in 0..32u32 {
            g.push("twin", &format!("erased 0 {} 2 {} {} err {} 0 0 1 {} {} 0 1 0 0 0 0 {} {} 1 128", v % 3, hex(&body), hints_for("erased", &body), v, shex(TWIN_PATH), 1000 + v, shex(TWIN_PATH), srv));
        }
        for v in 0..7u32 {
            g.push("twin", &format!("struct 0 1 2 {} {} err {} 0 0 1 {} {} 0 1 0 0 {} 0 {} {} 0 128", hex(&body), hints_for("struct", &body), v, shex(TWIN_PATH), 2000 + v, v, shex(TWIN_PATH), srv));
        }
        for c in [0u32, 1, 2, 3, 4, 5, 6, 7, 8, 9, 4096] {
            g.push("twin", &format!("json 0 2 2 {} {} err {} 1 0 1 {} {} 0 1 0 0 0 0 {} {} 2 128", hex(&body), hints_for("json", &body), c, shex(TWIN_PATH), 3000 + c, shex(TWIN_PATH), srv));
        }
    }
    // (k) two knobs at once: every pair of knobs at both extremes, the socket leg forced
    {
        let knobs: Vec<(&str, [u64; 2])> = vec![("blocking", [0, 1]), ("nmw", [0, 33]), ("order", [0, 1]), ("decoys", [0, 65]), ("cb", [0, 4]), ("nodelay", [0, 1]), ("rto", [0, 2]), ("wto", [0, 4]), ("async", [0, 8]), ("cut", [0, 1]), ("stall", [0, 4]), ("slowread", [0, 16]), ("noread", [0, 32])];
        for i in 0..knobs.len() {
            for j in i + 1..knobs.len() {
                for (a, b) in [(0, 0), (0, 1), (1, 0), (1, 1)] {
                    let mut ov = TwinOv { blocking: Some(false), nmw: Some(1), order: Some(0), decoys: Some(2), cb: Some(0), srv: Some(0), io: Some(128) };
                    for (name, v) in [(knobs[i].0, knobs[i].1[a]), (knobs[j].0, knobs[j].1[b])] {
                        match name {
                            "blocking" => ov.blocking = Some(v == 1),
                            "nmw" => ov.nmw = Some(v),
                            "order" => ov.order = Some(v),
                            "decoys" => ov.decoys = Some(v),
                            "cb" => ov.cb = Some(v),
                            "nodelay" | "rto" | "wto" | "async" => ov.srv = Some(ov.srv.unwrap() | v),
                            _ => ov.io = Some(ov.io.unwrap() | v),
                        }
                    }
                    let kind = *g.rng.pick(&["json", "typedctx", "jsonctx", "typed"]);
                    let body = g.twin_body(kind, 2);
                    g.twin_with(kind, 2, body, &ov);
                }
            }
        }
    }
    // every kind × every format code, several bodies each
    for _ in 0..n_twin_rounds {
        for kind in KINDS {
            for &bf in BFMTS {
                for _ in 0..3 {
                    let body = g.twin_body(kind, bf);
                    g.twin(kind, bf, body);
                }
            }
        }
    }
    g.lines
}

// ------------------------------------------------------------------------------------------
// (n) which public entry points of the anchored files this harness drives
// ------------------------------------------------------------------------------------------
/// (file, names driven by some op of this family)
const DRIVEN: &[(&str, &[&str])] = &[
    ("src/server.rs", &[
        "run", "ctx", "peer", // Next
        "new", "json", "beve", "utf8", "raw_binary", // TypedResponse (and Router::new / Server::new)
        "other", "poisoned", // LockError (poisoned: through the std locks)
        "with_json", "with", "with_erased_handler", "with_middleware", "register_middleware", "with_typed", "with_typed_slice", "with_typed_slice_ref",
        "with_json_ctx", "with_typed_ctx", "with_json_blocking", "with_json_ctx_blocking", "with_typed_blocking", "with_typed_ctx_blocking", "with_handler",
        "with_struct_shared", "register_struct_shared", "with_struct", "register_struct", "with_registry", "register_registry", "get",
        "read_timeout", "write_timeout", "tcp_nodelay", "listen", "serve",
    ]),
    ("src/async_server.rs", &["new", "read_timeout", "write_timeout", "listen", "serve"]),
    ("src/json_pointer.rs", &["parse", "evaluate"]),
    ("src/server_request.rs", &["route", "route_request_view", "dispatch_view", "dispatch"]), // pub(crate): through the TCP servers; `dispatch` through the WebSocket off-reader path
    ("repe-derive/src/lib.rs", &["derive_repe_struct"]),
    ("src/structs.rs", &["code", "path_from_segments"]),
];
/// (file, name, why not)
const NOT_DRIVEN: &[(&str, &str, &str)] = &[
    ("src/server.rs", "stop", "no handle is left once `serve(self)` owns the server"),
    ("src/structs.rs", "join_path", "builds error-message text only"),
    ("src/structs.rs", "prepend_path", "builds error-message text only"),
];

fn source_entry_points(rel: &str) -> Vec<String> {
    let repo = std::env::var("VERIF_REPO").unwrap_or_else(|_| "/repo".into());
    let text = std::fs::read_to_string(std::path::Path::new(&repo).join(rel)).unwrap_or_default();
    let text = text.split("#[cfg(test)]").next().unwrap_or("").split("#[cfg(all(test").next().unwrap_or("").to_string();
    let mut names: Vec<String> = Vec::new();
    for line in text.lines() {
        let t = line.trim_start();
        for pre in ["pub async fn ", "pub fn ", "pub(crate) fn ", "pub(crate) async fn "] {
            if let Some(rest) = t.strip_prefix(pre) {
                let name: String = rest.chars().take_while(|c| c.is_alphanumeric() || *c == '_').collect();
                if !name.is_empty() && !names.contains(&name) {
                    names.push(name);
                }
            }
        }
    }
    names
}

/// Anything public in the anchored files that is neither driven nor excused goes to stats.json (`not_driven`) and stderr.
fn entry_point_audit(out: &mut Out) {
    let mut missing = Vec::new();
    let mut total = 0;
    for (file, driven) in DRIVEN {
        for name in source_entry_points(file) {
            total += 1;
            let excused = NOT_DRIVEN.iter().any(|(f, n, _)| f == file && *n == name);
            if !driven.contains(&name.as_str()) && !excused {
                eprintln!("fam_router: public entry point {}::{} is not driven by this harness", file, name);
                out.count(&format!("NOT_DRIVEN.{}.{}", file, name));
                missing.push(format!("{}::{}", file, name));
            }
        }
    }
    out.extra.insert("entry_points_seen".into(), json!(total));
    out.extra.insert("not_driven".into(), json!(missing));
    out.extra.insert("not_driven_because".into(), json!(NOT_DRIVEN.iter().map(|(f, n, w)| format!("{}::{} – {}", f, n, w)).collect::<Vec<_>>()));
}

fn collect_pending(out: &mut Out, keep: usize) {
    loop {
        let h = {
            let mut p = PENDING.lock().unwrap();
            if p.len() <= keep { break; }
            p.remove(0)
        };
        if let Ok(fails) = h.join() {
            out.count("twin.e2e.long_stall.done");
            for (sig, detail, ops) in fails {
                out.oracle_fail(&sig, &detail, &ops);
            }
        }
    }
}

/// (o) every op runs under a watchdog: an op that does not finish is a call into the code under test that
/// never returned. The oracle line is appended, the run is abandoned (an in-process call cannot be cancelled).
fn spawn_watchdog(dir: std::path::PathBuf, limit: std::time::Duration) -> Arc<Mutex<(std::time::Instant, String)>> {
    let cur = Arc::new(Mutex::new((std::time::Instant::now(), String::new())));
    let c2 = cur.clone();
    std::thread::spawn(move || loop {
        std::thread::sleep(std::time::Duration::from_millis(500));
        let (t0, op) = c2.lock().unwrap().clone();
        if !op.is_empty() && t0.elapsed() > limit {
            use std::io::Write;
            let v = json!({"sig": "router.call_never_returned", "detail": format!("this op did not finish within {:?}: a call into the router / handler / server never returned", limit), "ops": [op]});
            if let Ok(mut f) = std::fs::OpenOptions::new().append(true).create(true).open(dir.join("oracle.txt")) {
                let _ = writeln!(f, "{}", v);
            }
            eprintln!("fam_router: watchdog expired, abandoning the run");
            std::process::exit(3);
        }
    });
    cur
}

fn main() {
    if std::env::args().any(|a| a == "--check-entry-points") {
        let dir = std::env::temp_dir().join(format!("fam_router_ep_{}", std::process::id()));
        std::fs::create_dir_all(&dir).ok();
        let mut out = Out::new(&dir);
        entry_point_audit(&mut out);
        println!("{}", serde_json::to_string_pretty(&out.extra).unwrap());
        let bad = out.extra.get("not_driven").and_then(|v| v.as_array()).map(|a| !a.is_empty()).unwrap_or(false);
        let _ = std::fs::remove_dir_all(&dir);
        std::process::exit(if bad { 1 } else { 0 });
    }
    let args = Args::parse();
    quiet_panics();
    let mut out = Out::new(&args.out);
    entry_point_audit(&mut out);
    let watch = spawn_watchdog(args.out.clone(), std::time::Duration::from_secs(if args.thorough() { 120 } else { 60 }));
    out.rule = "(i) random registration orders of routes (all with_* registrars), registry mounts, struct mounts and tracing middleware over small overlapping path pools, a `get` after every registration; non-trivial = some middleware or mount present. (ii) prefix/path pairs built from the prefix (itself, normalised, minus a char, plus tails with and without '/'); (iii) struct mounts with relative paths of 0..40 segments biased to 15/16/17/18/40, empty segments, well-formed ~0/~1 escapes; (v) a #[derive(RepeStruct)] struct (plain / readonly / nested x2 fields, 3 methods) mounted at several roots via register_/with_struct_shared: reads, writes (JSON/UTF-8/BEVE/garbage/bad format), calls, invalid paths and subpaths, deep paths; (vi) a hand-written spy RepeStruct behind 1-3 levels of #[repe(nested)] fields of derived structs, remaining paths with empty tokens at every position, against the RFC 6901 tokens and against the same spy mounted directly at the longer prefix; (iv) every handler kind x body-format codes {0..4,255,4096,65535} x valid/near-valid/arbitrary bodies through handle/handle_with_ctx/handle_view of the plain, blocking and middleware-wrapped handler; non-trivial = reaches the decoder or a known format code".into();
    let lines = match args.replay_ops() {
        Some(l) => l,
        None => generate(&args),
    };
    if args.thorough() {
        E2E_CAP.store(2100, Ordering::SeqCst);
        THOROUGH.store(true, Ordering::SeqCst);
    }
    let mut sc = Scen::new();
    let mut ds = DState::new();
    for line in &lines {
        if out.oracle_failures >= 12 {
            break; // a broken tree has shown itself: stop early, the replays are written
        }
        *watch.lock().unwrap() = (std::time::Instant::now(), line.clone());
        exec_line(&mut out, &mut sc, &mut ds, line);
    }
    *watch.lock().unwrap() = (std::time::Instant::now(), "collecting the concurrent stalled socket legs".to_string());
    collect_pending(&mut out, 0);
    *watch.lock().unwrap() = (std::time::Instant::now(), String::new());
    out.extra.insert("ops".into(), json!(lines.len()));
    out.finish();
}
