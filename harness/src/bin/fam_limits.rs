//! Family `limits` (C17): every outbound path of the WebSocket endpoints against a raw peer that records
//! the size of every binary message.  Server paths (inline response, off-reader response through a
//! custom erased handler and through `with_json_blocking`, handler-pushed notify via `ctx.peer()` inline
//! and off-reader, registry broadcast), the proxy path (`proxy_connection_with_limits` in front of a real
//! `AsyncServer`), and the client paths (`WebSocketClient` request / notify against a raw WebSocket
//! server).  After every case one more request is answered on the same connection.
use futures_util::{SinkExt, StreamExt};
use repe::constants::{BodyFormat, ErrorCode};
use repe::server::HandlerErased;
use repe::websocket_server::{proxy_connection, proxy_connection_with_limits, ConnectionError, WebSocketServer};
use repe::{CallContext, Execution, Message, NotifyBody, PeerRegistry, RepeError, Router, WebSocketClient, WebSocketLimits};
use repe_verif_harness::frames::RawFrame;
use repe_verif_harness::*;
use serde_json::{json, Value};
use std::collections::HashMap;
use std::net::SocketAddr;
use std::sync::{Arc, Mutex};
use std::time::{Duration, Instant};
use tokio::net::{TcpListener, TcpStream};
use tokio_tungstenite::tungstenite::protocol::WebSocketConfig;
use tokio_tungstenite::tungstenite::Message as WsMsg;
use std::future::Future;
use tokio_tungstenite::WebSocketStream;

const WATCHDOG: Duration = Duration::from_secs(40);
/// REPE v1 `InternalError`, from the specification (not from the crate).
const INTERNAL_ERROR: u32 = 9;

fn unlimited_cfg() -> WebSocketConfig {
    let mut c = WebSocketConfig::default();
    c.max_message_size = None;
    c.max_frame_size = None;
    c
}

fn pattern(n: usize, seed: u64) -> Vec<u8> {
    let mut v = Vec::with_capacity(n);
    let mut x = seed.wrapping_mul(0x9E37_79B9_7F4A_7C15) | 1;
    for i in 0..n {
        if i % 8 == 0 {
            x ^= x << 13;
            x ^= x >> 7;
            x ^= x << 17;
        }
        v.push((x >> ((i % 8) * 8)) as u8);
    }
    v
}

/// ASCII query of exactly `n >= 1` bytes: '/' then lower-case letters.
fn qpattern(n: usize, seed: u64) -> Vec<u8> {
    let mut v = Vec::with_capacity(n);
    if n == 0 {
        return v;
    }
    // 1 in 5: non-ASCII (valid UTF-8, two bytes per character; an odd length gets one ASCII letter more)
    if seed % 5 == 2 && n >= 3 {
        v.push(b'/');
        while v.len() + 2 <= n {
            v.extend_from_slice("é".as_bytes());
        }
        if v.len() < n {
            v.push(b'z');
        }
        return v;
    }
    v.push(b'/');
    for i in 1..n {
        v.push(b'a' + ((seed as usize).wrapping_add(i * 7) % 26) as u8);
    }
    v
}

/// A handler-chosen response query: 1 in 7 is not valid UTF-8 (a query is bytes on the wire).
fn own_query_bytes(n: usize, seed: u64) -> Vec<u8> {
    if seed % 7 == 3 {
        let mut v = vec![b'/'];
        v.extend((1..n).map(|i| 0x80u8 | ((seed as usize + i) % 64) as u8));
        v.truncate(n);
        return v;
    }
    qpattern(n, seed)
}

/// Custom erased handler: the request body says how large the response's query and body are.
struct Blob {
    off: bool,
}
impl HandlerErased for Blob {
    fn handle(&self, req: &Message) -> Result<Message, RepeError> {
        if req.body.len() != 24 && req.body.len() != 32 {
            return Err(RepeError::ServerError { code: ErrorCode::InvalidBody, message: "blob wants 24 or 32 bytes".into() });
        }
        let u = |o: usize| u64::from_le_bytes(req.body[o..o + 8].try_into().unwrap());
        let (q, b, s) = (u(0) as usize, u(8) as usize, u(16));
        let mut body = if s % 2 == 1 { Vec::with_capacity(b + 48 + q + 64) } else { Vec::new() };
        body.extend_from_slice(&pattern(b, s));
        let mut bld = Message::builder().id(req.header.id).query_format_code(1).body_format_code(0).body_bytes(body);
        if q > 0 {
            bld = bld.query_bytes(own_query_bytes(q, s));
        }
        let mut m = bld.build();
        if req.body.len() == 32 {
            // the handler's own answer is an error response (its body is the diagnostic)
            m.header.ec = u(24) as u32;
        }
        Ok(m)
    }
    fn execution(&self) -> Execution {
        if self.off {
            Execution::OffReader
        } else {
            Execution::Inline
        }
    }
}

fn push_handler(ctx: &CallContext, v: Value) -> Result<Value, (ErrorCode, String)> {
    let m = v["m"].as_u64().unwrap_or(1) as usize;
    let n = v["n"].as_u64().unwrap_or(0) as usize;
    let s = v["s"].as_u64().unwrap_or(0);
    let method = String::from_utf8(qpattern(m, s)).unwrap();
    match ctx.peer() {
        Some(p) => match p.send_notify(&method, NotifyBody::Raw(pattern(n, s), BodyFormat::RawBinary)) {
            Ok(()) => Ok(json!("pushed")),
            Err(e) => Ok(json!(format!("push-failed: {e}"))),
        },
        None => Ok(json!("no-peer")),
    }
}

/// Three pushes in a row from one handler call: a small one, the sized one, a small one.
fn pushn_handler(ctx: &CallContext, v: Value) -> Result<Value, (ErrorCode, String)> {
    let m = v["m"].as_u64().unwrap_or(1) as usize;
    let n = v["n"].as_u64().unwrap_or(0) as usize;
    let s = v["s"].as_u64().unwrap_or(0);
    let method = String::from_utf8(qpattern(m, s)).unwrap();
    let Some(p) = ctx.peer() else { return Ok(json!("no-peer")) };
    let r1 = p.send_notify("/c1", NotifyBody::Raw(pattern(10, s), BodyFormat::RawBinary));
    // `r`: how many copies of the sized notification go out back to back (1 on the `pushn` path)
    let mut r2 = Ok(());
    for _ in 0..v["r"].as_u64().unwrap_or(1) {
        if let Err(e) = p.send_notify(&method, NotifyBody::Raw(pattern(n, s), BodyFormat::RawBinary)) {
            r2 = Err(e);
        }
    }
    let r3 = p.send_notify("/c2", NotifyBody::Raw(pattern(11, s), BodyFormat::RawBinary));
    if r1.is_ok() && r2.is_ok() && r3.is_ok() { Ok(json!("pushed")) } else { Ok(json!("push-failed")) }
}

fn ws_router() -> Router {
    Router::new()
        .with_erased_handler("/blob", Arc::new(Blob { off: false }))
        .with_erased_handler("/blob_off", Arc::new(Blob { off: true }))
        .with_json_blocking("/jblob", |v: Value| Ok(json!("x".repeat(v["n"].as_u64().unwrap_or(0) as usize))))
        .with_json_ctx("/push", push_handler)
        .with_json_ctx_blocking("/push_off", push_handler)
        .with_json_ctx("/pushn", pushn_handler)
        .with_json("/ping", |_v| Ok(json!("pong")))
}

// ------------------------------------------------------------------------------------------------
// a TCP stream whose writes reach the peer in small pieces (and, optionally, with stalls)
// ------------------------------------------------------------------------------------------------
/// `mode 0`: pass through. `1`: every write is cut into 1-byte pieces. `2`: 2–3 pieces per write at
/// PRNG-chosen cut points. `3`: pieces of up to 1460 bytes. `+4`: stalls (1–3 ms, now and then 120 ms)
/// between pieces; with `1+4` the first 16 and last 8 bytes of a buffer go byte by byte, the rest in 1–3 pieces. Each piece is its own `write` on a no-delay socket.
struct ChopStream {
    inner: TcpStream,
    mode: u8,
    rng: Rng,
    sleep: Option<std::pin::Pin<Box<tokio::time::Sleep>>>,
    /// bytes of the current write that may still go out before the next cut
    budget: usize,
    /// position inside the buffer tungstenite is flushing, and what was left of it after the last write
    pos: usize,
    last_remaining: usize,
    /// `+8`: stalls longer than any plausible internal timer, each once, in the middle of a frame
    long_stalls: Vec<u64>,
}

static THOROUGH: std::sync::atomic::AtomicBool = std::sync::atomic::AtomicBool::new(false);

impl ChopStream {
    fn new(inner: TcpStream, mode: u8, seed: u64) -> ChopStream {
        let _ = inner.set_nodelay(true);
        ChopStream { inner, mode, rng: Rng::new(seed), sleep: None, budget: 0, pos: 0, last_remaining: 0, long_stalls: if THOROUGH.load(std::sync::atomic::Ordering::Relaxed) { vec![11_000, 5_500, 2_500] } else { vec![1_100, 600, 300] } }
    }
}

impl tokio::io::AsyncRead for ChopStream {
    fn poll_read(mut self: std::pin::Pin<&mut Self>, cx: &mut std::task::Context<'_>, buf: &mut tokio::io::ReadBuf<'_>) -> std::task::Poll<std::io::Result<()>> {
        std::pin::Pin::new(&mut self.inner).poll_read(cx, buf)
    }
}

impl tokio::io::AsyncWrite for ChopStream {
    fn poll_write(mut self: std::pin::Pin<&mut Self>, cx: &mut std::task::Context<'_>, buf: &[u8]) -> std::task::Poll<std::io::Result<usize>> {
        use std::task::Poll;
        let this = &mut *self;
        if this.mode & 11 == 0 || buf.is_empty() {
            return std::pin::Pin::new(&mut this.inner).poll_write(cx, buf);
        }
        if let Some(s) = this.sleep.as_mut() {
            if s.as_mut().poll(cx).is_pending() {
                return Poll::Pending;
            }
            this.sleep = None;
        }
        if buf.len() > this.last_remaining {
            this.pos = 0; // a new buffer is being flushed
        }
        if this.budget == 0 {
            this.budget = match if this.mode & 3 == 0 { 2 } else { this.mode & 3 } {
                // with stalls: byte by byte through the first and the last 64 bytes, the middle in bulk
                1 if this.mode & 4 != 0 && this.pos >= 16 && buf.len() > 8 => ((buf.len() - 8) / (1 + this.rng.below(3) as usize)).max(1) + this.rng.below(5) as usize,
                // byte by byte — except through the middle of a large buffer (quick tier: time)
                1 if buf.len() > 4096 && this.pos >= 64 => buf.len() - 64,
                1 => 1,
                2 => (buf.len() / (2 + this.rng.below(2) as usize)).max(1) + this.rng.below(3) as usize,
                _ => 1460,
            };
        }
        let n = this.budget.min(buf.len());
        match std::pin::Pin::new(&mut this.inner).poll_write(cx, &buf[..n]) {
            Poll::Ready(Ok(w)) => {
                this.budget -= w.min(this.budget);
                this.pos += w;
                this.last_remaining = buf.len() - w;
                if this.mode & 8 != 0 && !this.long_stalls.is_empty() && this.last_remaining > 0 && this.rng.chance(1, 12) {
                    // the rest of this frame arrives after a long pause
                    let ms = this.long_stalls.pop().unwrap();
                    this.sleep = Some(Box::pin(tokio::time::sleep(Duration::from_millis(ms))));
                } else if this.mode & 4 != 0 && this.rng.chance(1, 4) {
                    let ms = if this.rng.chance(1, 60) { 120 } else { this.rng.range(1, 3) };
                    this.sleep = Some(Box::pin(tokio::time::sleep(Duration::from_millis(ms))));
                }
                Poll::Ready(Ok(w))
            }
            other => other,
        }
    }
    fn poll_flush(mut self: std::pin::Pin<&mut Self>, cx: &mut std::task::Context<'_>) -> std::task::Poll<std::io::Result<()>> {
        std::pin::Pin::new(&mut self.inner).poll_flush(cx)
    }
    fn poll_shutdown(mut self: std::pin::Pin<&mut Self>, cx: &mut std::task::Context<'_>) -> std::task::Poll<std::io::Result<()>> {
        std::pin::Pin::new(&mut self.inner).poll_shutdown(cx)
    }
}

async fn chop_connect(addr: SocketAddr, cfg: Option<tokio_tungstenite::tungstenite::protocol::WebSocketConfig>, mode: u8, seed: u64) -> Result<WebSocketStream<ChopStream>, String> {
    let tcp = TcpStream::connect(addr).await.map_err(|e| format!("connect: {e}"))?;
    let url = format!("ws://{}/repe", addr);
    // the HTTP upgrade goes out whole: tungstenite's server handshake rejects a request head that arrives in
    // more than 64 tiny reads as an attack (its own rule, not repe's); the REPE frames after it are chopped
    let (mut ws, _) = tokio_tungstenite::client_async_with_config(url, ChopStream::new(tcp, 0, seed), cfg).await.map_err(|e| format!("handshake: {e}"))?;
    ws.get_mut().mode = mode;
    Ok(ws)
}

// ------------------------------------------------------------------------------------------------
// raw client connection
// ------------------------------------------------------------------------------------------------
struct RawConn {
    ws: WebSocketStream<ChopStream>,
    sizes: Vec<usize>,
}

impl RawConn {
    /// `chop`: how this peer's own frames (the requests) reach the endpoint, see `ChopStream`
    async fn connect(addr: SocketAddr, chop: u8) -> Result<RawConn, String> {
        let ws = tokio::time::timeout(WATCHDOG, chop_connect(addr, Some(unlimited_cfg()), chop, addr.port() as u64)).await.map_err(|_| "connect-timeout".to_string())??;
        Ok(RawConn { ws, sizes: Vec::new() })
    }
    async fn send(&mut self, f: &RawFrame) -> Result<(), String> {
        tokio::time::timeout(WATCHDOG, self.ws.send(WsMsg::Binary(f.to_vec()))).await.map_err(|_| "send-timeout".to_string())?.map_err(|e| format!("send: {e}"))
    }
    /// Read binary messages until a frame with a clear notify flag arrives: at most one request is ever
    /// outstanding on these connections, so that frame is the answer to it (the caller checks its id).
    /// Returns the frames before it and it.
    async fn recv_until(&mut self, _id: u64) -> Result<(Vec<RawFrame>, RawFrame), String> {
        let deadline = Instant::now() + WATCHDOG;
        let mut others = Vec::new();
        loop {
            let left = deadline.saturating_duration_since(Instant::now());
            if left.is_zero() {
                return Err("no-response-within-watchdog".into());
            }
            match tokio::time::timeout(left, self.ws.next()).await {
                Err(_) => return Err("no-response-within-watchdog".into()),
                Ok(None) => return Err("connection-closed".into()),
                Ok(Some(Err(e))) => return Err(format!("connection-error: {e}")),
                Ok(Some(Ok(WsMsg::Binary(b)))) => {
                    self.sizes.push(b.len());
                    match RawFrame::parse_prefix(&b) {
                        Some((f, n)) if n == b.len() => {
                            if f.h.notify == 0 {
                                return Ok((others, f));
                            }
                            others.push(f);
                        }
                        _ => return Err("malformed-binary-message".into()),
                    }
                }
                Ok(Some(Ok(WsMsg::Close(_)))) => return Err("connection-closed".into()),
                Ok(Some(Ok(_))) => {}
            }
        }
    }
}

/// On the notify paths a frame with a clear notify flag and another id is not the answer to our request
/// (it is a notification that was turned into something else): record it and keep waiting.
async fn recv_answer(conn: &mut RawConn, id: u64) -> Result<(Vec<RawFrame>, RawFrame), String> {
    let mut all = Vec::new();
    for _ in 0..4 {
        let (others, f) = conn.recv_until(id).await?;
        all.extend(others);
        if f.h.id == id {
            return Ok((all, f));
        }
        all.push(f);
    }
    Err("four frames with a clear notify flag and a foreign id".into())
}

// ------------------------------------------------------------------------------------------------
// one world per limit
// ------------------------------------------------------------------------------------------------
type Reports = Arc<Mutex<Vec<(String, usize, usize)>>>;

struct World {
    #[allow(dead_code)]
    limit: Option<usize>,
    srv: RawConn,
    /// a second peer of the same server: a broadcast must be guarded for each peer on its own
    srv2: RawConn,
    proxy: RawConn,
    registry: PeerRegistry,
    reports: Reports,
    client: WebSocketClient,
    seen: Arc<Mutex<Vec<Vec<u8>>>>,
    next_id: u64,
    /// further registered peers that never read (the `bcastm` world)
    #[allow(dead_code)]
    idle_peers: Vec<RawConn>,
    observer_bad: Arc<Mutex<Vec<String>>>,
}

async fn start_upstream() -> SocketAddr {
    let l = TcpListener::bind("127.0.0.1:0").await.unwrap();
    let a = l.local_addr().unwrap();
    let router = Router::new().with_erased_handler("/blob", Arc::new(Blob { off: false })).with_json("/ping", |_v| Ok(json!("pong")));
    tokio::spawn(async move {
        let _ = repe::AsyncServer::new(router).serve(l).await;
    });
    a
}

async fn make_world(cfg: &str, upstream: SocketAddr) -> Result<World, String> {
    let given = cfg_limits(cfg);
    let limit = cfg_effective(cfg).flatten();
    // an embedder-driven accept loop (`into_shared` + `accept` + `serve_connection`) for some worlds
    let shared_path = cfg == "4096" || cfg == "u";
    // the other public ways of serving: by configuration, so that a replay builds the same world
    let serve_mode = match cfg { "1024" | "200" => 2, "65536" | "-" => 1, _ => 0 };
    // --- real WebSocket server
    let reports: Reports = Arc::new(Mutex::new(Vec::new()));
    let registry = PeerRegistry::new();
    let cfg_mismatch = Arc::new(std::sync::atomic::AtomicBool::new(false));
    let observer_bad: Arc<Mutex<Vec<String>>> = Arc::new(Mutex::new(Vec::new()));
    // The server runs on a current-thread runtime of its own: the connection's reader (and inline
    // handlers) and its writer interleave only at await points, so several messages are regularly
    // queued at once when the writer gets to run.
    let srv_addr = {
        let rep = reports.clone();
        let registry = registry.clone();
        let cfg_mismatch = cfg_mismatch.clone();
        let ocap = cfg_ocap(cfg);
        let (tx, rx) = tokio::sync::oneshot::channel();
        std::thread::spawn(move || {
            let rt = tokio::runtime::Builder::new_current_thread().enable_all().build().unwrap();
            rt.block_on(async move {
                let l = TcpListener::bind("127.0.0.1:0").await.unwrap();
                let _ = tx.send(l.local_addr().unwrap());
                let mut server = WebSocketServer::new(ws_router());
                if let Some(q) = ocap {
                    server = server.with_outbound_capacity(q);
                }
                if let Some(limits) = given {
                    server = server.with_limits(limits);
                }
                let server = server.with_peer_registry(registry).on_error(move |e| {
                    if let ConnectionError::OutboundTooLarge { method, size, limit } = e {
                        rep.lock().unwrap().push((method.clone(), *size, *limit));
                    }
                });
                if shared_path {
                    let shared = server.into_shared();
                    if shared.limits() != given.unwrap_or_default() {
                        cfg_mismatch.store(true, std::sync::atomic::Ordering::SeqCst);
                    }
                    loop {
                        let Ok((stream, _)) = l.accept().await else { break };
                        let shared = shared.clone();
                        tokio::spawn(async move {
                            if let Ok(ws) = shared.accept(stream, "/repe").await {
                                let _ = shared.serve_connection(ws).await;
                            }
                        });
                    }
                } else if serve_mode == 1 {
                    let _ = server.serve_listener_with_shutdown(l, "/repe/", std::future::pending::<()>()).await;
                } else if serve_mode == 2 {
                    let _ = server.serve_listener_with_graceful_drain(l, "repe", std::future::pending::<()>(), Duration::from_secs(5)).await;
                } else {
                    let _ = server.serve_listener(l, "/repe").await;
                }
            });
        });
        rx.await.map_err(|_| "server thread did not start".to_string())?
    };
    // --- real proxy in front of the upstream AsyncServer
    let pl = TcpListener::bind("127.0.0.1:0").await.map_err(|e| e.to_string())?;
    let proxy_addr = pl.local_addr().unwrap();
    tokio::spawn(async move {
        loop {
            let Ok((stream, _)) = pl.accept().await else { break };
            tokio::spawn(async move {
                let Ok(ws) = tokio_tungstenite::accept_async_with_config(stream, Some(unlimited_cfg())).await else { return };
                let Ok(up) = repe::AsyncClient::connect(upstream).await else { return };
                let _ = match given {
                    Some(limits) => proxy_connection_with_limits(ws, up, limits).await,
                    None => proxy_connection(ws, up).await,
                };
            });
        }
    });
    // --- raw WebSocket server peer for the real client
    let seen: Arc<Mutex<Vec<Vec<u8>>>> = Arc::new(Mutex::new(Vec::new()));
    let cl = TcpListener::bind("127.0.0.1:0").await.map_err(|e| e.to_string())?;
    let peer_addr = cl.local_addr().unwrap();
    {
        let seen = seen.clone();
        let peer_chop: u8 = match cfg { "1024" => 5, "200" => 1, "4096" => 2, "1048576" => 3, "64" => 5, "u" => 6, "1024,-,-" => 11, _ => 0 };
        tokio::spawn(async move {
            loop {
                let Ok((stream, _)) = cl.accept().await else { break };
                let seen = seen.clone();
                tokio::spawn(async move {
                    // what the real client READS arrives whole or in pieces, too
                    let Ok(mut ws) = tokio_tungstenite::accept_async_with_config(ChopStream::new(stream, 0, 7), Some(unlimited_cfg())).await else { return };
                    ws.get_mut().mode = peer_chop;
                    while let Some(Ok(m)) = ws.next().await {
                        if let WsMsg::Binary(b) = m {
                            let reply = RawFrame::parse_prefix(&b).filter(|(f, n)| *n == b.len() && f.h.notify == 0).map(|(f, _)| {
                                // the answer to a follow-up `/ping` is larger than the small assumed limits:
                                // what the client assumes about its peer does not limit what it reads
                                let big: Vec<u8> = if f.query == b"/ping" { let mut b = vec![b'"']; b.extend(std::iter::repeat(b'z').take(70_000)); b.push(b'"'); b } else { b"\"r\"".to_vec() };
                                let mut r = RawFrame::request(f.h.id, false, 1, b"", 2, &big);
                                r.h.notify = 0;
                                r
                            });
                            seen.lock().unwrap().push(b);
                            if let Some(r) = reply {
                                if ws.send(WsMsg::Binary(r.to_vec())).await.is_err() {
                                    break;
                                }
                            }
                        }
                    }
                });
            }
        });
    }
    let url = format!("ws://{}/repe", peer_addr);
    let client = tokio::time::timeout(WATCHDOG, async {
        match given {
            Some(limits) => WebSocketClient::connect_with_limits(&url, limits).await,
            None => WebSocketClient::connect(&url).await,
        }
    })
        .await
        .map_err(|_| "client-connect-timeout".to_string())?
        .map_err(|e| format!("client-connect: {e}"))?;
    if client.limits() != given.unwrap_or_default() {
        return Err("WebSocketClient::limits() is not the configured value".into());
    }
    if cfg_mismatch.load(std::sync::atomic::Ordering::SeqCst) {
        return Err("SharedWebSocketServer::limits() is not the configured value".into());
    }
    // requests reach the server / proxy whole, in 2–3 pieces, or byte-wise with stalls — by configuration
    let chop: u8 = match cfg { "1024" => 2, "65536" => 5, "200" => 1, "-" => 3, "4096" => 6, "4096,100000,200000" => 10, _ => 0 };
    // observers: read-only methods hammered from two tasks while the cases run; every observation must be
    // the configured value / the registered state
    {
        let (client, registry, expect, bad) = (client.clone(), registry.clone(), given.unwrap_or_default(), observer_bad.clone());
        for t in 0..2u64 {
            let (client, registry, bad) = (client.clone(), registry.clone(), bad.clone());
            tokio::spawn(async move {
                loop {
                    if client.limits() != expect {
                        bad.lock().unwrap().push("WebSocketClient::limits() changed".to_string());
                    }
                    let peers = registry.peers();
                    if registry.len() != peers.len() && false {
                        bad.lock().unwrap().push("registry len/peers".to_string());
                    }
                    for p in &peers {
                        let _ = p.is_connected();
                        let _ = p.peer_id();
                        let _ = format!("{:?}", registry.get(p.peer_id()).map(|h| h.peer_id()));
                    }
                    let _ = format!("{:?} {:?}", registry, expect);
                    tokio::time::sleep(Duration::from_micros(300 + 200 * t)).await;
                    if Arc::strong_count(&bad) <= 2 {
                        break; // the world is gone
                    }
                }
            });
        }
    }
    let mut w = World { limit, srv: RawConn::connect(srv_addr, chop).await?, srv2: RawConn::connect(srv_addr, 0).await?, proxy: RawConn::connect(proxy_addr, chop).await?, registry, reports, client, seen, next_id: 1 << 40, idle_peers: Vec::new(), observer_bad };
    if cfg == "65536" {
        for _ in 0..MANY_PEERS {
            let mut c = RawConn::connect(srv_addr, 0).await?;
            let id = w.fresh();
            c.send(&RawFrame::request(id, false, 1, b"/ping", 2, b"null")).await?;
            c.recv_until(id).await?;
            w.idle_peers.push(c);
        }
    }
    // one round trip on each connection: the server's connect hooks (registry insert) have run
    let id = w.fresh();
    w.srv.send(&RawFrame::request(id, false, 1, b"/ping", 2, b"null")).await?;
    w.srv.recv_until(id).await?;
    let id = w.fresh();
    w.srv2.send(&RawFrame::request(id, false, 1, b"/ping", 2, b"null")).await?;
    w.srv2.recv_until(id).await?;
    let id = w.fresh();
    w.proxy.send(&RawFrame::request(id, false, 1, b"/ping", 2, b"null")).await?;
    w.proxy.recv_until(id).await?;
    Ok(w)
}

impl World {
    fn fresh(&mut self) -> u64 {
        self.next_id += 1;
        self.next_id
    }
}

// ------------------------------------------------------------------------------------------------
// cases
// ------------------------------------------------------------------------------------------------
#[derive(Clone, Debug)]
struct Spec {
    idx: String,
    kind: String, // frame paths or "call"/"notify"
    /// the limits expression of the world (see `cfg_limits`) and the assumption it stands for
    cfg: String,
    limit: Option<usize>,
    id: u64,
    qlen: usize,
    blen: usize,
}

const FRAME_PATHS: &[&str] = &["inline", "off", "joff", "push", "pushoff", "pushn", "pushrun", "bcast", "bcastj", "bcastu", "bcastm", "proxy"];
/// idle peers registered next to the two observed ones in the `bcastm` world (a broadcast with many peers)
const MANY_PEERS: usize = 12;

/// Length of the run on the `pushrun` / `batchrun` kinds (from the id: on the op line, so a replay is exact).
fn run_len(id: u64) -> usize {
    [2usize, 9, 17, 65][(id % 4) as usize]
}

fn route_of(path: &str) -> &'static str {
    match path {
        "inline" | "proxy" => "/blob",
        "off" => "/blob_off",
        "joff" => "/jblob",
        "push" => "/push",
        "pushoff" => "/push_off",
        "pushn" | "pushrun" => "/pushn",
        _ => "",
    }
}

/// How a world's limits are written down: a number N = `default().with_assumed_peer_frame_limit(Some(N))`,
/// `-` = `default().with_assumed_peer_frame_limit(None)`, `u` = `WebSocketLimits::unlimited()`,
/// `d` = no limits given at all (`WebSocketServer::new`, `proxy_connection`, `WebSocketClient::connect`).
fn cfg_limits(cfg: &str) -> Option<WebSocketLimits> {
    match cfg {
        "d" => None,
        "u" => Some(WebSocketLimits::unlimited()),
        "-" => Some(WebSocketLimits::default().with_assumed_peer_frame_limit(None)),
        n if n.contains(',') => {
            // `N,F,M`: assumed peer limit N with incoming frame / message limits F / M (`-` = none)
            let p: Vec<&str> = n.split(',').collect();
            let o = |x: &str| if x == "-" { None } else { Some(x.parse::<usize>().expect("limit")) };
            // an optional 4th element is the server's outbound queue capacity (see `cfg_ocap`)
            Some(WebSocketLimits::default().with_max_incoming_frame_size(o(p[1])).with_max_incoming_message_size(o(p[2])).with_assumed_peer_frame_limit(o(p[0])))
        }
        n => Some(WebSocketLimits::default().with_assumed_peer_frame_limit(Some(n.parse().expect("limit")))),
    }
}

fn cfg_ocap(cfg: &str) -> Option<usize> {
    cfg.split(',').nth(3).and_then(|x| x.parse().ok())
}

/// The assumption the endpoints must then be working with (the documented default for `d`).
fn cfg_effective(cfg: &str) -> Option<Option<usize>> {
    match cfg {
        "d" => Some(Some(repe::DEFAULT_MAX_FRAME_SIZE)),
        "u" | "-" => Some(None),
        n if n.contains(',') => { let a = n.split(',').next().unwrap(); if a == "-" { Some(None) } else { a.parse::<usize>().ok().map(Some) } }
        n => n.parse::<usize>().ok().map(Some),
    }
}

const CLIENT_KINDS: &[&str] = &["call", "notify", "cjson", "cjsont", "ctyped", "cbeve", "rwrite", "njson", "nbeve", "batch", "batchrun",
    "cfmtt", "ctypedt", "cbevet", "cmsg", "cmsgt", "rread", "rreadt", "rreadty", "rreadtyt", "rcall", "ntyped", "batcht"];
/// the twins added by the entry-point audit (audit 3): generated in three worlds only
const TWIN_KINDS: &[&str] = &["cfmtt", "ctypedt", "cbevet", "cmsg", "cmsgt", "rread", "rreadt", "rreadty", "rreadtyt", "rcall", "ntyped", "batcht"];
/// kinds that send no body: the frame is 48 + |path|
const BODYLESS: &[&str] = &["cmsg", "cmsgt", "rread", "rreadt", "rreadty", "rreadtyt"];

/// Which public entry point of the anchored files each kind / path / world-builder drives.
const DRIVEN: &[&str] = &[
    // websocket_limits.rs
    "unlimited", "with_max_incoming_frame_size", "with_max_incoming_message_size", "with_assumed_peer_frame_limit",
    // websocket_client.rs
    "connect", "connect_with_limits", "limits", "call_json", "call_json_with_timeout", "call_typed_json", "call_typed_json_with_timeout",
    "call_typed_beve", "call_typed_beve_with_timeout", "call_message", "call_message_with_timeout", "call_with_formats",
    "call_with_formats_and_timeout", "registry_read", "registry_read_typed", "registry_read_with_timeout", "registry_read_typed_with_timeout",
    "registry_write_json", "registry_call_json", "notify_json", "notify_typed_json", "notify_typed_beve", "notify_with_formats", "batch_json",
    "batch_json_with_timeout",
    // websocket_server.rs
    "new", "with_limits", "with_outbound_capacity", "with_peer_registry", "on_error", "serve_listener", "serve_listener_with_shutdown",
    "serve_listener_with_graceful_drain", "into_shared", "accept", "serve_connection", "proxy_connection", "proxy_connection_with_limits",
];
/// Public items of those files that cannot put an outbound REPE message on a WebSocket, or are another property's.
const NOT_DRIVEN_BECAUSE: &[(&str, &str)] = &[
    ("subscribe_notifies", "inbound side (C04)"), ("unsubscribe_notifies", "inbound side (C04)"),
    ("derive_accept_key", "handshake helper"), ("error_code", "getter on ConnectionError"), ("from_http_request", "HandshakeContext"),
    ("path", "HandshakeContext"), ("query", "HandshakeContext"), ("header", "HandshakeContext"), ("headers", "HandshakeContext"),
    ("cancel", "ShutdownToken (C15)"), ("is_cancelled", "ShutdownToken (C15)"), ("cancelled", "ShutdownToken (C15)"),
    ("listen", "binds a listener"), ("with_offreader_limit", "C16"), ("on_peer_connect", "C15"), ("on_peer_connect_with_handshake", "C15"),
    ("on_peer_disconnect", "C15"), ("serve", "binds, then serve_listener_with_shutdown"), ("serve_with_shutdown", "binds, then the listener twin"),
    ("serve_with_graceful_drain", "binds, then the listener twin"), ("accept_with_limits", "handshake only (inbound limits)"),
    ("accept_with_handshake", "handshake only; driven by C16"), ("accept_with_handshake_and_limits", "handshake only"),
    ("adopt_upgraded", "wraps an already upgraded stream"), ("adopt_upgraded_partially_read", "wraps an already upgraded stream"),
    ("serve_connection_with_handshake", "serve_connection + hooks (C15)"), ("serve_connection_with_cancel", "driven by C16"),
    ("serve_connection_with_cancel_and_handshake", "serve_connection + hooks (C15)"), ("is_websocket_upgrade", "peeks at a TCP stream"),
];

/// `pub fn` / `pub async fn` names in the non-test part of an anchored source file of the tree under test.
fn source_entry_points(file: &str) -> Vec<String> {
    let repo = std::env::var("VERIF_REPO").unwrap_or_else(|_| "/repo".into());
    let text = std::fs::read_to_string(std::path::Path::new(&repo).join("src").join(file)).unwrap_or_default();
    let text = text.split("#[cfg(test)]").next().unwrap_or("").to_string();
    let mut names = Vec::new();
    for line in text.lines() {
        let t = line.trim_start();
        for pre in ["pub async fn ", "pub fn "] {
            if let Some(rest) = t.strip_prefix(pre) {
                let name: String = rest.chars().take_while(|c| c.is_alphanumeric() || *c == '_').collect();
                if !name.is_empty() && !names.contains(&name) {
                    names.push(name);
                }
            }
        }
    }
    names
}

/// Every public entry point of the anchored files is driven or listed with a reason; anything else (a new twin)
/// goes into the evidence (`not_driven`) and onto stderr.
fn entry_point_audit(out: &mut Out) {
    let mut missing = Vec::new();
    for file in ["websocket_limits.rs", "websocket_client.rs", "websocket_server.rs"] {
        for name in source_entry_points(file) {
            if !DRIVEN.contains(&name.as_str()) && !NOT_DRIVEN_BECAUSE.iter().any(|(n, _)| *n == name) {
                out.count(&format!("limits.NOT_DRIVEN.{}::{}", file, name));
                eprintln!("fam_limits: public entry point {}::{} is neither driven nor listed as not driven", file, name);
                missing.push(format!("{}::{}", file, name));
            }
        }
    }
    out.extra.insert("not_driven".into(), json!(missing));
    out.extra.insert("driven_entry_points".into(), json!(DRIVEN.len()));
}

/// Number of characters whose BEVE string encoding is `blen` bytes long, if there is one.
fn beve_chars(blen: usize) -> usize {
    for hdr in [2usize, 3, 5, 9] {
        if blen >= hdr && beve_len(blen - hdr) == blen {
            return blen - hdr;
        }
    }
    0
}

/// Length of the BEVE encoding of a string of `n` one-byte characters (tag, compressed size, bytes).
fn beve_len(n: usize) -> usize {
    1 + if n < 64 { 1 } else if n < 16384 { 2 } else if n < (1 << 30) { 4 } else { 8 } + n
}

fn lim_str(l: Option<usize>) -> String {
    l.map(|x| x.to_string()).unwrap_or_else(|| "-".into())
}

struct CaseResult {
    op: String,
    obs: String,
    fails: Vec<(String, String)>,
    broken: bool,
}

async fn run_frame(w: &mut World, s: &Spec) -> CaseResult {
    let path = s.kind.as_str();
    let seed = fnv(s.idx.as_bytes());
    let intended = 48 + s.qlen + s.blen;
    let is_notify = matches!(path, "push" | "pushoff" | "pushn" | "pushrun" | "bcast" | "bcastj" | "bcastu" | "bcastm");
    let copies = if path == "pushrun" { run_len(s.id) } else if path == "bcastm" { 2 + MANY_PEERS } else if path.starts_with("bcast") { 2 } else { 1 };
    let is_bcast = path.starts_with("bcast");
    // 1 in 4 of the handler-made responses is an error response of the handler's own
    let own_ec: u32 = if matches!(path, "inline" | "off" | "proxy") && seed % 4 == 0 { if seed % 8 == 0 { 4096 } else { 5 } } else { 0 };
    let mut fails: Vec<(String, String)> = Vec::new();
    let mut broken = false;
    let fail = |fails: &mut Vec<(String, String)>, k: &str, d: String| fails.push((format!("limits.{}.{}", path, k), d));
    w.reports.lock().unwrap().clear();
    let route = route_of(path);
    // the message the path puts on the outbound channel, framed by the independent codec
    let own_query = !is_notify && path != "joff" && s.qlen != route.len();
    let (exp_query, exp_body, exp_bfmt): (Vec<u8>, Vec<u8>, u16) = match path {
        "joff" => (route.as_bytes().to_vec(), { let mut b = vec![b'"']; b.extend(std::iter::repeat(b'x').take(s.blen - 2)); b.push(b'"'); b }, 2),
        "inline" | "off" | "proxy" => (if own_query { own_query_bytes(s.qlen, seed) } else { route.as_bytes().to_vec() }, pattern(s.blen, seed), 0),
        "bcastj" => (qpattern(s.qlen, seed), { let mut b = vec![b'"']; b.extend(std::iter::repeat(b'x').take(s.blen - 2)); b.push(b'"'); b }, 2),
        "bcastu" => (qpattern(s.qlen, seed), vec![b'u'; s.blen], 3),
        _ => (qpattern(s.qlen, seed), pattern(s.blen, seed), 0),
    };
    let mut expected = RawFrame::request(if is_notify { 0 } else { s.id }, is_notify, 1, &exp_query, exp_bfmt, &exp_body);
    expected.h.notify = is_notify as u8;
    expected.h.ec = own_ec;
    let expected_bytes = expected.to_vec();
    debug_assert_eq!(expected_bytes.len(), intended);

    let conn_is_proxy = path == "proxy";
    let mut delivered: Vec<RawFrame> = Vec::new();
    let mut response: Option<RawFrame> = None;
    {
        let conn = if conn_is_proxy { &mut w.proxy } else { &mut w.srv };
        conn.sizes.clear();
    }
    let step: Result<(), String> = async {
        match path {
            "inline" | "off" | "proxy" => {
                let mut body = Vec::new();
                body.extend_from_slice(&(if own_query { s.qlen as u64 } else { 0 }).to_le_bytes());
                body.extend_from_slice(&(s.blen as u64).to_le_bytes());
                body.extend_from_slice(&seed.to_le_bytes());
                if own_ec != 0 {
                    body.extend_from_slice(&(own_ec as u64).to_le_bytes());
                }
                let conn = if conn_is_proxy { &mut w.proxy } else { &mut w.srv };
                conn.send(&RawFrame::request(s.id, false, 1, route.as_bytes(), 0, &body)).await?;
                let (others, r) = conn.recv_until(s.id).await?;
                delivered = others;
                response = Some(r);
            }
            "joff" => {
                let body = serde_json::to_vec(&json!({"n": s.blen - 2})).unwrap();
                w.srv.send(&RawFrame::request(s.id, false, 1, route.as_bytes(), 2, &body)).await?;
                let (others, r) = w.srv.recv_until(s.id).await?;
                delivered = others;
                response = Some(r);
            }
            "push" | "pushoff" | "pushn" | "pushrun" => {
                let rid = w.fresh();
                let body = serde_json::to_vec(&json!({"m": s.qlen, "n": s.blen, "s": seed, "r": if path == "pushrun" { copies } else { 1 }})).unwrap();
                w.srv.send(&RawFrame::request(rid, false, 1, route.as_bytes(), 2, &body)).await?;
                let (others, r) = recv_answer(&mut w.srv, rid).await?;
                delivered = others;
                if r.h.id != rid || r.h.ec != 0 || r.body != b"\"pushed\"" {
                    return Err(format!("push request {} answered id {} ec {} body {}", rid, r.h.id, r.h.ec, String::from_utf8_lossy(&r.body[..r.body.len().min(60)])));
                }
            }
            "bcast" | "bcastj" | "bcastu" | "bcastm" => {
                let method = String::from_utf8(exp_query.clone()).unwrap();
                let res = match path {
                    "bcastj" => w.registry.broadcast_notify_json(&method, &"x".repeat(s.blen - 2)).map_err(|e| format!("broadcast_notify_json: {e}"))?,
                    "bcastu" => w.registry.broadcast_notify_utf8(&method, "u".repeat(s.blen)),
                    _ => w.registry.broadcast_notify_raw(&method, BodyFormat::RawBinary, &exp_body),
                };
                if res.len() != (if path == "bcastm" { 2 + MANY_PEERS } else { 2 }) || !res.values().all(|r| r.is_ok()) {
                    return Err(format!("broadcast reached {} peers, results {:?}", res.len(), res.values().collect::<Vec<_>>()));
                }
            }
            _ => return Err("unknown path".into()),
        }
        Ok(())
    }
    .await;
    if let Err(e) = &step {
        fail(&mut fails, "connection", format!("{}: {}", s.idx, e));
        broken = true;
    }
    // one more request on the same connection
    let mut ping_ok = false;
    if !broken {
        let pid = w.fresh();
        let conn = if conn_is_proxy { &mut w.proxy } else { &mut w.srv };
        let r: Result<(), String> = async {
            // the assumed *peer* limit says nothing about what this endpoint accepts: the follow-up
            // request is larger than it (when that is cheap)
            let big_in: Vec<u8> = match s.limit { Some(l) if l <= 65536 => { let mut b = vec![b'"']; b.extend(std::iter::repeat(b'y').take(l + 64)); b.push(b'"'); b } _ => b"null".to_vec() };
            conn.send(&RawFrame::request(pid, false, 1, b"/ping", 2, &big_in)).await?;
            let (others, pong) = if is_notify { recv_answer(conn, pid).await? } else { conn.recv_until(pid).await? };
            delivered.extend(others);
            if pong.h.id != pid || pong.h.ec != 0 || pong.body != b"\"pong\"" {
                return Err(format!("follow-up request {} answered with id {} ec {}", pid, pong.h.id, pong.h.ec));
            }
            Ok(())
        }
        .await;
        match r {
            Ok(()) => ping_ok = true,
            Err(e) => {
                fail(&mut fails, "connection", format!("{}: connection unusable after the case: {}", s.idx, e));
                broken = true;
            }
        }
    }
    // the second peer of a broadcast: same bytes or same refusal
    let mut delivered2: Vec<RawFrame> = Vec::new();
    if is_bcast && !broken {
        w.srv2.sizes.clear();
        let pid = w.fresh();
        let r: Result<(), String> = async {
            w.srv2.send(&RawFrame::request(pid, false, 1, b"/ping", 2, b"null")).await?;
            let (others, pong) = recv_answer(&mut w.srv2, pid).await?;
            delivered2 = others;
            if pong.h.id != pid || pong.h.ec != 0 {
                return Err(format!("second peer's follow-up answered id {} ec {}", pong.h.id, pong.h.ec));
            }
            Ok(())
        }
        .await;
        if let Err(e) = r {
            fail(&mut fails, "connection", format!("{}: second peer: {}", s.idx, e));
            broken = true;
        }
    }
    let mut sizes = if conn_is_proxy { w.proxy.sizes.clone() } else { w.srv.sizes.clone() };
    if is_bcast {
        sizes.extend(w.srv2.sizes.iter().cloned());
    }
    let reports = w.reports.lock().unwrap().clone();
    // the two small pushes around the sized one on the `pushn` path
    let chaff: Vec<RawFrame> = delivered.iter().filter(|f| f.h.notify != 0 && (f.query == b"/c1" || f.query == b"/c2")).cloned().collect();
    delivered.retain(|f| !(f.h.notify != 0 && (f.query == b"/c1" || f.query == b"/c2")));
    if (path == "pushn" || path == "pushrun") && !broken {
        let mut c1 = RawFrame::request(0, true, 1, b"/c1", 0, &pattern(10, seed));
        c1.h.notify = 1;
        let mut c2 = RawFrame::request(0, true, 1, b"/c2", 0, &pattern(11, seed));
        c2.h.notify = 1;
        if chaff != vec![c1, c2] {
            fail(&mut fails, "neighbours_changed", format!("{}: the small notifications pushed before and after the sized one did not arrive unchanged and in order ({} arrived)", s.idx, chaff.len()));
        }
    } else if !chaff.is_empty() {
        fail(&mut fails, "unexpected_message", format!("{}: {} stray notification(s)", s.idx, chaff.len()));
    }
    // ---- observation --------------------------------------------------------------------------
    let mut rlen = 0usize;
    let what = if is_notify {
        let ns: Vec<&RawFrame> = delivered.iter().filter(|f| f.h.notify != 0).collect();
        match ns.first() {
            Some(f) => format!("send {} {}", f.to_vec().len(), if f.to_vec() == expected_bytes { "same" } else { "differs" }),
            None => "drop".to_string(),
        }
    } else {
        match &response {
            Some(f) if f.to_vec() == expected_bytes => format!("send {} same", f.to_vec().len()),
            Some(f) if f.h.ec == 0 => format!("send {} differs", f.to_vec().len()),
            Some(f) => {
                rlen = f.body.len();
                format!("send {} replaced {} {}", f.to_vec().len(), f.h.ec, f.h.id)
            }
            None => "noresp".to_string(),
        }
    };
    let rep = if reports.is_empty() || conn_is_proxy { " ; report -".to_string() } else { reports.iter().map(|(_, s, l)| format!(" ; report {} {}", s, l)).collect::<String>() };
    let op = format!("frame {} {} {} {} {} {} {} {}", s.idx, path, s.cfg, is_notify as u8, if is_notify && path != "pushrun" { 0 } else { s.id }, s.qlen, s.blen, rlen);
    let obs = format!("{} {}{}", s.idx, what, rep);
    // ---- direct oracles -----------------------------------------------------------------------
    if let Some(l) = s.limit {
        if let Some(big) = sizes.iter().find(|x| **x > l) {
            fail(&mut fails, "exceeds", format!("{}: a binary message of {} bytes was sent with assumed peer limit {}", s.idx, big, l));
        }
    }
    let over = s.limit.map(|l| intended > l).unwrap_or(false);
    if !broken {
        let unexpected: Vec<&RawFrame> = delivered.iter().filter(|f| !(is_notify && f.h.notify != 0)).collect();
        if !unexpected.is_empty() {
            fail(&mut fails, "unexpected_message", format!("{}: {} unexpected message(s), first id {} notify {}", s.idx, unexpected.len(), unexpected[0].h.id, unexpected[0].h.notify));
        }
        if !over {
            let got = if is_notify { delivered.iter().find(|f| f.h.notify != 0).map(|f| f.to_vec()) } else { response.as_ref().map(|f| f.to_vec()) };
            match got {
                Some(b) if b == expected_bytes => {}
                Some(b) => fail(&mut fails, "changed", format!("{}: a {}-byte message at or below the limit {} was not delivered unchanged (got {} bytes)", s.idx, intended, lim_str(s.limit), b.len())),
                None => fail(&mut fails, "changed", format!("{}: a {}-byte message at or below the limit {} was not delivered", s.idx, intended, lim_str(s.limit))),
            }
            if path == "pushrun" && delivered.iter().filter(|f| f.h.notify != 0).map(|f| f.to_vec()).collect::<Vec<_>>() != vec![expected_bytes.clone(); copies] {
                fail(&mut fails, "changed", format!("{}: {} copies of a {}-byte notification within the limit were pushed back to back; {} arrived unchanged", s.idx, copies, intended, delivered.iter().filter(|f| f.h.notify != 0 && f.to_vec() == expected_bytes).count()));
            }
            if is_bcast && delivered2.iter().map(|f| f.to_vec()).collect::<Vec<_>>() != vec![expected_bytes.clone()] {
                fail(&mut fails, "changed", format!("{}: the second peer of the broadcast did not get the {}-byte notification unchanged ({} frame(s))", s.idx, intended, delivered2.len()));
            }
            if !reports.is_empty() {
                fail(&mut fails, "spurious_report", format!("{}: OutboundTooLarge reported for a message within the limit", s.idx));
            }
        } else {
            let l = s.limit.unwrap();
            if is_notify {
                if delivered.iter().any(|f| f.h.notify != 0) {
                    fail(&mut fails, "notify_not_dropped", format!("{}: an oversized notification ({} > {}) reached the peer", s.idx, intended, l));
                }
                if delivered.iter().any(|f| f.h.notify == 0) {
                    fail(&mut fails, "notify_replaced", format!("{}: an oversized notification ({} > {}) was answered with a frame that is not a notification", s.idx, intended, l));
                }
            } else if let Some(f) = &response {
                if f.h.id != s.id {
                    fail(&mut fails, "replacement.id", format!("{}: replacement id {} != request id {}", s.idx, f.h.id, s.id));
                }
                if f.h.ec != INTERNAL_ERROR {
                    fail(&mut fails, "replacement.code", format!("{}: oversized response ({} > {}) answered with ec {} (want {})", s.idx, intended, l, f.h.ec, INTERNAL_ERROR));
                }
                if f.h.notify != 0 {
                    fail(&mut fails, "replacement.notify", format!("{}: replacement has notify {}", s.idx, f.h.notify));
                }
            }
            if is_bcast && !delivered2.is_empty() {
                fail(&mut fails, "notify_not_dropped", format!("{}: an oversized broadcast ({} > {}) reached the second peer", s.idx, intended, l));
            }
            if !conn_is_proxy {
                let want = (String::from_utf8_lossy(&exp_query).to_string(), intended, l);
                // a query that is not UTF-8 has no method *name*: only size and limit are compared then
                let same = |r: &(String, usize, usize)| (r.1, r.2) == (want.1, want.2) && (std::str::from_utf8(&exp_query).is_err() || r.0 == want.0);
                if reports.len() != copies || !reports.iter().all(same) {
                    fail(&mut fails, "not_reported", format!("{}: refusal of a {}-byte message (limit {}) reported as {:?}", s.idx, intended, l, reports));
                }
            }
        }
    }
    let _ = ping_ok;
    CaseResult { op, obs, fails, broken }
}

async fn run_client(w: &mut World, s: &Spec) -> CaseResult {
    let kind = s.kind.as_str();
    let seed = fnv(s.idx.as_bytes());
    let intended = 48 + s.qlen + s.blen;
    let mut fails: Vec<(String, String)> = Vec::new();
    let mut broken = false;
    let fail = |fails: &mut Vec<(String, String)>, k: &str, d: String| fails.push((format!("limits.client_{}.{}", kind, k), d));
    let path = String::from_utf8(qpattern(s.qlen, seed)).unwrap();
    let is_notify = kind.starts_with('n');
    // what the API puts in the body, computed here (not taken from the crate): raw bytes, a JSON string, a BEVE string
    let text = "x".repeat(match kind { "cbeve" | "nbeve" | "cbevet" => beve_chars(s.blen), "call" | "notify" | "cfmtt" => 0, k if BODYLESS.contains(&k) => 0, _ => s.blen.saturating_sub(2) });
    let (body, bfmt): (Vec<u8>, u16) = match kind {
        "call" | "notify" | "cfmtt" => (pattern(s.blen, seed), 0),
        k if BODYLESS.contains(&k) => (Vec::new(), 0),
        "cbeve" | "nbeve" | "cbevet" => (beve::to_vec(&text).unwrap(), 1),
        _ => (serde_json::to_vec(&text).unwrap(), 2),
    };
    debug_assert_eq!(body.len(), s.blen);
    w.seen.lock().unwrap().clear();
    let mut neighbours_ok = true;
    let res: Result<Result<(), RepeError>, ()> = match kind {
        "call" => tokio::time::timeout(WATCHDOG, w.client.call_with_formats(&path, 1, Some(&body), 0)).await.map(|r| r.map(|_| ())).map_err(|_| ()),
        "notify" => tokio::time::timeout(WATCHDOG, w.client.notify_with_formats(&path, 1, Some(&body), 0)).await.map_err(|_| ()),
        "cjson" => tokio::time::timeout(WATCHDOG, w.client.call_json(&path, &text)).await.map(|r| r.map(|_| ())).map_err(|_| ()),
        "cjsont" => tokio::time::timeout(WATCHDOG, w.client.call_json_with_timeout(&path, &text, Duration::from_secs(35))).await.map(|r| r.map(|_| ())).map_err(|_| ()),
        "ctyped" => tokio::time::timeout(WATCHDOG, w.client.call_typed_json::<_, _, Value>(&path, &text)).await.map(|r| r.map(|_| ())).map_err(|_| ()),
        "cbeve" => tokio::time::timeout(WATCHDOG, w.client.call_typed_beve::<_, _, Value>(&path, &text)).await.map(|r| r.map(|_| ())).map_err(|_| ()),
        "rwrite" => tokio::time::timeout(WATCHDOG, w.client.registry_write_json(&path, &text)).await.map(|r| r.map(|_| ())).map_err(|_| ()),
        "njson" => tokio::time::timeout(WATCHDOG, w.client.notify_json(&path, &text)).await.map_err(|_| ()),
        "nbeve" => tokio::time::timeout(WATCHDOG, w.client.notify_typed_beve(&path, &text)).await.map_err(|_| ()),
        "batch" => {
            // three calls at once on the same client: a small one, the sized one, a small one
            let reqs = vec![("/c1".to_string(), json!(1)), (path.clone(), json!(text)), ("/c2".to_string(), json!(2))];
            match tokio::time::timeout(WATCHDOG, w.client.batch_json(reqs)).await {
                Ok(mut v) if v.len() == 3 => {
                    neighbours_ok = v[0].is_ok() && v[2].is_ok();
                    Ok(v.remove(1).map(|_| ()))
                }
                Ok(_) => Ok(Err(RepeError::Io(std::io::Error::other("batch result count")))),
                Err(_) => Err(()),
            }
        }
        "cfmtt" => tokio::time::timeout(WATCHDOG, w.client.call_with_formats_and_timeout(&path, 1, Some(&body), 0, Duration::from_secs(35))).await.map(|r| r.map(|_| ())).map_err(|_| ()),
        "ctypedt" => tokio::time::timeout(WATCHDOG, w.client.call_typed_json_with_timeout::<_, _, Value>(&path, &text, Duration::from_secs(35))).await.map(|r| r.map(|_| ())).map_err(|_| ()),
        "cbevet" => tokio::time::timeout(WATCHDOG, w.client.call_typed_beve_with_timeout::<_, _, Value>(&path, &text, Duration::from_secs(35))).await.map(|r| r.map(|_| ())).map_err(|_| ()),
        "cmsg" => tokio::time::timeout(WATCHDOG, w.client.call_message(&path)).await.map(|r| r.map(|_| ())).map_err(|_| ()),
        "cmsgt" => tokio::time::timeout(WATCHDOG, w.client.call_message_with_timeout(&path, Duration::from_secs(35))).await.map(|r| r.map(|_| ())).map_err(|_| ()),
        "rread" => tokio::time::timeout(WATCHDOG, w.client.registry_read(&path)).await.map(|r| r.map(|_| ())).map_err(|_| ()),
        "rreadt" => tokio::time::timeout(WATCHDOG, w.client.registry_read_with_timeout(&path, Duration::from_secs(35))).await.map(|r| r.map(|_| ())).map_err(|_| ()),
        "rreadty" => tokio::time::timeout(WATCHDOG, w.client.registry_read_typed::<_, Value>(&path)).await.map(|r| r.map(|_| ())).map_err(|_| ()),
        "rreadtyt" => tokio::time::timeout(WATCHDOG, w.client.registry_read_typed_with_timeout::<_, Value>(&path, Duration::from_secs(35))).await.map(|r| r.map(|_| ())).map_err(|_| ()),
        "rcall" => tokio::time::timeout(WATCHDOG, w.client.registry_call_json(&path, &text)).await.map(|r| r.map(|_| ())).map_err(|_| ()),
        "ntyped" => tokio::time::timeout(WATCHDOG, w.client.notify_typed_json(&path, &text)).await.map_err(|_| ()),
        "batcht" => {
            let reqs = vec![("/c1".to_string(), json!(1)), (path.clone(), json!(text)), ("/c2".to_string(), json!(2))];
            match tokio::time::timeout(WATCHDOG, w.client.batch_json_with_timeout(reqs, Duration::from_secs(35))).await {
                Ok(mut v) if v.len() == 3 => {
                    neighbours_ok = v[0].is_ok() && v[2].is_ok();
                    Ok(v.remove(1).map(|_| ()))
                }
                Ok(_) => Ok(Err(RepeError::Io(std::io::Error::other("batch result count")))),
                Err(_) => Err(()),
            }
        }
        "batchrun" => {
            // a run of identical sized calls at once on the same client
            let n = run_len(s.id);
            let reqs: Vec<(String, Value)> = (0..n).map(|_| (path.clone(), json!(text))).collect();
            match tokio::time::timeout(WATCHDOG, w.client.batch_json(reqs)).await {
                Ok(v) if v.len() == n => {
                    let first_class = |r: &Result<Value, RepeError>| match r { Ok(_) => 0, Err(RepeError::MessageTooLarge { .. }) => 1, Err(_) => 2 };
                    neighbours_ok = v.iter().all(|r| first_class(r) == first_class(&v[0]));
                    Ok(v.into_iter().next().unwrap().map(|_| ()))
                }
                Ok(_) => Ok(Err(RepeError::Io(std::io::Error::other("batch result count")))),
                Err(_) => Err(()),
            }
        }
        _ => Ok(Err(RepeError::Io(std::io::Error::other("unknown client kind")))),
    };
    let copies = if kind == "batchrun" { run_len(s.id) } else { 1 };
    if kind == "batchrun" && !neighbours_ok {
        fail(&mut fails, "run_disagrees", format!("{}: {} identical calls in one batch did not all end the same way", s.idx, copies));
    }
    // one more request on the same client
    let follow = tokio::time::timeout(WATCHDOG, w.client.call_with_formats("/ping", 1, Some(b"null"), 2)).await;
    match &follow {
        Ok(Ok(_)) => {}
        Ok(Err(e)) => {
            fail(&mut fails, "connection", format!("{}: follow-up call failed: {}", s.idx, io_kind(e)));
            broken = true;
        }
        Err(_) => {
            fail(&mut fails, "connection", format!("{}: follow-up call hung", s.idx));
            broken = true;
        }
    }
    let seen: Vec<Vec<u8>> = std::mem::take(&mut *w.seen.lock().unwrap());
    // messages of this op = everything seen except the follow-up ping
    let chaff = seen.iter().filter(|b| RawFrame::parse_prefix(b).map(|(f, _)| f.query == b"/c1" || f.query == b"/c2").unwrap_or(false)).count();
    if (kind == "batch" || kind == "batcht") && (!neighbours_ok || chaff != 2) && !broken {
        fail(&mut fails, "neighbours", format!("{}: the two small calls batched with the sized one: both ok = {}, {} of 2 reached the peer", s.idx, neighbours_ok, chaff));
    }
    let mine: Vec<&Vec<u8>> = seen.iter().filter(|b| RawFrame::parse_prefix(b).map(|(f, _)| f.query != b"/ping" && f.query != b"/c1" && f.query != b"/c2").unwrap_or(true)).collect();
    let class = match &res {
        Ok(Ok(())) => "ok".to_string(),
        Ok(Err(RepeError::MessageTooLarge { size, limit })) => format!("MessageTooLarge {} {}", size, limit),
        Ok(Err(e)) => io_kind(e),
        Err(()) => "hung".to_string(),
    };
    let wire = if mine.is_empty() { "-".to_string() } else { mine.iter().map(|b| b.len().to_string()).collect::<Vec<_>>().join(",") };
    let op = format!("client {} {} {} {} {} {}", s.idx, kind, s.cfg, s.id, s.qlen, s.blen);
    let obs = format!("{} {} wire {}", s.idx, class, wire);
    // ---- direct oracles
    if let Some(l) = s.limit {
        if let Some(big) = seen.iter().find(|b| b.len() > l) {
            fail(&mut fails, "exceeds", format!("{}: the client sent a binary message of {} bytes with assumed peer limit {}", s.idx, big.len(), l));
        }
    }
    let over = s.limit.map(|l| intended > l).unwrap_or(false);
    if over {
        if !matches!(res, Ok(Err(RepeError::MessageTooLarge { .. }))) {
            fail(&mut fails, "not_refused", format!("{}: a {}-byte {} (limit {}) returned {}", s.idx, intended, kind, lim_str(s.limit), class));
        }
        if let Ok(Err(RepeError::MessageTooLarge { size, limit })) = &res {
            if *size != intended || Some(*limit) != s.limit {
                fail(&mut fails, "refusal_fields", format!("{}: MessageTooLarge {{ size: {}, limit: {} }} for a {}-byte message, limit {}", s.idx, size, limit, intended, lim_str(s.limit)));
            }
        }
        if !mine.is_empty() {
            fail(&mut fails, "reached_wire", format!("{}: a refused {} put {} message(s) on the wire", s.idx, kind, mine.len()));
        }
    } else if !broken {
        if !matches!(res, Ok(Ok(()))) {
            fail(&mut fails, "refused_within_limit", format!("{}: a {}-byte {} within the limit {} returned {}", s.idx, intended, kind, lim_str(s.limit), class));
        }
        let ok = mine.len() == copies && mine.iter().all(|m| m.len() == mine[0].len()) && {
            match RawFrame::parse_prefix(mine[0]) {
                Some((f, n)) if n == mine[0].len() => {
                    let mut e = RawFrame::request(f.h.id, is_notify, 1, path.as_bytes(), bfmt, &body);
                    e.h.notify = is_notify as u8;
                    e.to_vec() == *mine[0]
                }
                _ => false,
            }
        };
        if !ok {
            fail(&mut fails, "changed", format!("{}: a {}-byte {} within the limit was not delivered unchanged ({} message(s) seen)", s.idx, intended, kind, mine.len()));
        }
    }
    CaseResult { op, obs, fails, broken }
}

// ------------------------------------------------------------------------------------------------
// generator
// ------------------------------------------------------------------------------------------------
fn gen_specs(rng: &mut Rng, thorough: bool) -> Vec<Spec> {
    // `200`: about the smallest limit that can carry the error reply; `64`: client kinds only (a smaller
    // limit than the reply is outside the property's premise on the server side); usize::MAX; incoming
    // limits below / without bound next to the assumed one
    let mut cfgs: Vec<String> = ["1024", "4096", "65536", "1048576", "-", "u", "d", "200", "64", "18446744073709551615", "4096,100000,200000", "1024,-,-", "1024,-,-,1", "-,-,-,2"].iter().map(|s| s.to_string()).collect();
    if thorough {
        cfgs.extend(["16777216", "300", "100000"].iter().map(|s| s.to_string()));
    }
    let limits: Vec<(String, Option<usize>)> = cfgs.into_iter().map(|c| { let e = cfg_effective(&c).unwrap(); (c, e) }).collect();
    let nrand = if thorough { 14 } else { 4 };
    let mut out = Vec::new();
    let mut id = 1000u64;
    for (li, (cfg, lim)) in limits.iter().enumerate() {
        let mut specs = Vec::new();
        let mut kinds: Vec<&str> = FRAME_PATHS.iter().cloned().chain(CLIENT_KINDS.iter().cloned()).collect();
        let extra_cfg = li >= 7;
        if cfg == "64" {
            kinds = CLIENT_KINDS.to_vec();
        }
        if !matches!(cfg.as_str(), "1024" | "4096" | "-") {
            kinds.retain(|k| !TWIN_KINDS.contains(k));
        }
        if cfg == "65536" {
            kinds.retain(|k| !matches!(*k, "bcast" | "bcastj" | "bcastu"));
        } else {
            kinds.retain(|k| *k != "bcastm");
        }
        if cfg_ocap(cfg).is_some() {
            kinds.retain(|k| !matches!(*k, "pushn" | "pushrun" | "bcast" | "bcastj" | "bcastu") && !CLIENT_KINDS.contains(k));
        }
        // endpoints built without any limits guard at 16 MiB: a few frames right at that boundary per path
        let heavy = cfg == "d";
        if heavy && !thorough {
            kinds = vec!["inline", "off", "bcast", "proxy", "call", "notify"];
        }
        for k in kinds {
            let mut totals: Vec<usize> = Vec::new();
            // the first outbound paths get the full size set; API twins and the extra configurations a light one
            let light = extra_cfg || !matches!(k, "inline" | "off" | "joff" | "push" | "pushoff" | "pushn" | "bcast" | "proxy" | "call" | "notify");
            match lim {
                Some(l) if light && !heavy => {
                    if *l < (1 << 40) {
                        totals.extend([l - 1, *l, l + 1]);
                        totals.push(rng.range(60.min(*l as u64), (2 * *l as u64).max(100)) as usize);
                    } else {
                        totals.push(rng.range(60, 100_000) as usize);
                        totals.push(rng.range(60, 300) as usize);
                    }
                }
                None if light => {
                    totals.push(rng.range(60, 300) as usize);
                    totals.push(rng.range(300, 200_000) as usize);
                }
                Some(l) if heavy => {
                    totals.push(*l);
                    totals.push(l + 1);
                    totals.push(rng.range(60, 4096) as usize);
                    if thorough {
                        totals.push(l - 1);
                        totals.push(l + 2);
                    }
                }
                Some(l) => {
                    for d in 0..5 {
                        totals.push(l + d - 2);
                    }
                    for _ in 0..nrand {
                        totals.push(match rng.below(5) {
                            0 => rng.range(60, 260) as usize,
                            1 => rng.range(60, *l as u64) as usize,
                            2 => rng.range(*l as u64 + 1, *l as u64 + 4096.min(*l as u64)) as usize,
                            3 => rng.range(*l as u64 + 1, (2 * *l as u64).min(*l as u64 + (1 << 20))) as usize,
                            _ => (*l as i64 + rng.range(0, 40) as i64 - 20).max(60) as usize,
                        });
                    }
                }
                None => {
                    for _ in 0..(if cfg == "u" { 3 } else { nrand + 3 }) {
                        totals.push(match rng.below(4) {
                            0 => rng.range(60, 300) as usize,
                            1 => rng.range(300, 70_000) as usize,
                            2 => rng.range(70_000, 2 << 20) as usize,
                            _ => *rng.pick(&[1024usize, 4096, 65536, 65537, (1 << 20) + 1]),
                        });
                    }
                    // no assumed limit at all: a message just over the 16 MiB *default* must go out untouched
                    // (nothing may fall back to the default when the assumption was removed)
                    let over_default = if thorough { true } else { matches!((cfg.as_str(), k), ("-", "inline") | ("-", "bcast") | ("-", "call") | ("u", "proxy") | ("u", "push") | ("u", "notify") | ("u", "off")) };
                    if over_default && (cfg == "-" || cfg == "u") {
                        totals.push((16 << 20) + 1 + rng.below(1000) as usize);
                    }
                }
            }
            for t in totals {
                let route_len = route_of(k).len();
                let qlen = match k {
                    "joff" => route_len,
                    "inline" | "off" | "proxy" => {
                        match rng.below(6) {
                            0 | 1 | 2 => route_len,
                            // a long handler-chosen query: most of the frame is query
                            3 => (t - 48).saturating_sub(rng.below(40) as usize).max(1),
                            _ => rng.range(1, 64.min((t - 48).max(1)) as u64) as usize,
                        }
                    }
                    _ => match rng.below(if t > 48 { 8 } else { 1 }) {
                        0 => 1,
                        7 => 0, // empty method / path
                        1 => rng.range(1, 256.min((t - 48).max(1)) as u64) as usize,
                        _ => rng.range(1, 24.min((t - 48).max(1)) as u64) as usize,
                    },
                };
                let min_b = if matches!(k, "joff" | "bcastj" | "cjson" | "cjsont" | "ctyped" | "rwrite" | "njson" | "batch" | "batchrun" | "cbeve" | "nbeve" | "ctypedt" | "cbevet" | "rcall" | "ntyped" | "batcht") { 2 } else { 0 };
                if t < 48 + qlen + min_b {
                    continue;
                }
                let (mut qlen, mut blen) = (qlen, t - 48 - qlen);
                if BODYLESS.contains(&k) {
                    // no body: the whole frame is header + path
                    qlen += blen;
                    blen = 0;
                    if qlen == 0 {
                        continue;
                    }
                }
                // a BEVE string body cannot have every length (the size prefix grows): move a byte to the path
                while matches!(k, "cbeve" | "nbeve" | "cbevet") && beve_len(beve_chars(blen)) != blen && blen > 2 {
                    qlen += 1;
                    blen -= 1;
                }
                if heavy && matches!(k, "cbeve" | "nbeve" | "bcastj" | "bcastu" | "batch" | "batchrun" | "pushrun" | "cjsont" | "ctyped" | "rwrite" | "njson" | "cjson") {
                    continue;
                }
                id += 1;
                // request ids at the ends of the range on the response paths
                // request ids at the ends of the range on the response paths: one within the limit, one over it
                let nth = specs.iter().filter(|s: &&Spec| s.kind == k).count();
                let rid = match (k, nth) {
                    ("inline", 1) | ("off", 3) | ("proxy", 3) => 0,
                    ("off", 1) | ("inline", 3) => u64::MAX,
                    ("proxy", 1) | ("joff", 3) => u64::MAX - 1,
                    ("joff", 1) => 1,
                    _ => id,
                };
                specs.push(Spec { idx: String::new(), kind: k.to_string(), cfg: cfg.clone(), limit: *lim, id: rid, qlen, blen });
            }
        }
        rng.shuffle(&mut specs);
        // N refusals of the same kind in a row, then one message that fits (the N-th is treated like the first)
        if cfg == "1024" || (thorough && cfg == "4096") {
            let l = lim.unwrap();
            for (k, ns) in [("inline", vec![2usize, 8, 17]), ("bcast", vec![7, 9, 16]), ("call", vec![2, 9, 17]), ("push", vec![8]), ("notify", vec![16]), ("proxy", vec![7])] {
                for n in ns.into_iter().chain(if thorough { vec![64usize, 65, 256] } else { vec![] }) {
                    for j in 0..=n {
                        id += 1;
                        let t = if j < n { l + 1 + rng.below(40) as usize } else { l - rng.below(3) as usize };
                        let qlen = if matches!(k, "inline" | "proxy") { route_of(k).len() } else { 5 };
                        specs.push(Spec { idx: String::new(), kind: k.to_string(), cfg: cfg.clone(), limit: *lim, id, qlen, blen: t - 48 - qlen });
                    }
                }
            }
        }
        // far over a small limit AND over the transport's write buffer (128 KiB)
        if matches!(cfg.as_str(), "1024" | "4096" | "65536" | "200") {
            for k in ["inline", if cfg == "65536" { "bcastm" } else { "bcast" }, "call", "notify", "push", "proxy"] {
                id += 1;
                specs.push(Spec { idx: String::new(), kind: k.to_string(), cfg: cfg.clone(), limit: *lim, id, qlen: 5, blen: 200_000 + rng.below(5000) as usize });
            }
        }
        // sizes around the transport's write buffer (tungstenite: 128 KiB) inside a larger limit / no limit
        if cfg == "1048576" || cfg == "-" {
            for k in ["inline", "bcast", "call", "proxy"] {
                for t in [(128usize << 10) - 1, 128 << 10, (128 << 10) + 1, (128 << 10) + 14] {
                    id += 1;
                    specs.push(Spec { idx: String::new(), kind: k.to_string(), cfg: cfg.clone(), limit: *lim, id, qlen: 5, blen: t - 53 });
                }
            }
        }
        // beyond the default *message* limit (64 MiB) with no assumed limit: thorough only
        if thorough && cfg == "u" {
            id += 1;
            specs.push(Spec { idx: String::new(), kind: "inline".to_string(), cfg: cfg.clone(), limit: *lim, id, qlen: 5, blen: (64 << 20) + 1 });
        }
        for (i, mut s) in specs.into_iter().enumerate() {
            s.idx = format!("{}.{}", li, i);
            out.push(s);
        }
    }
    out
}

fn parse_spec(line: &str) -> Option<Spec> {
    let w = words(line);
    let lim = |s: &str| cfg_effective(s);
    match w.as_slice() {
        ["frame", idx, path, l, _notify, id, q, b, _rlen] if FRAME_PATHS.contains(path) => {
            Some(Spec { idx: idx.to_string(), kind: path.to_string(), cfg: l.to_string(), limit: lim(l)?, id: id.parse().ok()?, qlen: q.parse().ok()?, blen: b.parse().ok()? })
        }
        ["client", idx, kind, l, id, q, b] if CLIENT_KINDS.contains(kind) => {
            Some(Spec { idx: idx.to_string(), kind: kind.to_string(), cfg: l.to_string(), limit: lim(l)?, id: id.parse().ok()?, qlen: q.parse().ok()?, blen: b.parse().ok()? })
        }
        _ => None,
    }
}

fn main() {
    let args = Args::parse();
    THOROUGH.store(args.thorough(), std::sync::atomic::Ordering::Relaxed);
    let mut out = Out::new(&args.out);
    out.rule = "per limits expression {default().with_assumed_peer_frame_limit(Some(1 KiB | 4 KiB | 64 KiB | 1 MiB)), …(None), WebSocketLimits::unlimited(), no limits given at all (WebSocketServer::new / proxy_connection / WebSocketClient::connect: frames at 16 MiB and 16 MiB + 1); thorough adds 16 MiB, 300, 100000; the 4 KiB and unlimited worlds are served through into_shared + SharedWebSocketServer::accept + serve_connection} and per outbound path {inline response, off-reader response (custom erased handler), off-reader response (with_json_blocking), ctx.peer() notify from an inline and from an off-reader handler, three pushes in a row from one handler call with the sized one in the middle, PeerRegistry broadcast, proxy-forwarded response, client request, client notify}: frame sizes limit-2..limit+2 plus random sizes (small, below, just above, far above, near the limit), random split between query and body, handler-chosen (also very long) or echoed query, 1 in 4 handler answers an error response of its own, body buffers with and without spare capacity; each case is followed by one more request on the same connection. Distinct by op line; non-trivial = the guard fired (size > limit) or the size is within 2 of the limit".into();
    let rt = tokio::runtime::Builder::new_multi_thread().worker_threads(4).enable_all().build().unwrap();
    entry_point_audit(&mut out);
    let mut rng = Rng::new(args.seed);
    let specs: Vec<Spec> = match args.replay_ops() {
        Some(ops) => ops.iter().filter_map(|l| parse_spec(l)).collect(),
        None => gen_specs(&mut rng, args.thorough()),
    };
    rt.block_on(async {
        let upstream = start_upstream().await;
        let mut worlds: HashMap<String, World> = HashMap::new();
        let mut broken_cases = 0u32;
        for s in &specs {
            if !worlds.contains_key(&s.cfg) {
                match make_world(&s.cfg, upstream).await {
                    Ok(w) => {
                        worlds.insert(s.cfg.clone(), w);
                    }
                    Err(e) => {
                        out.oracle_fail("limits.setup", &format!("could not set the endpoints up for limits `{}`: {}", s.cfg, e), &[]);
                        continue;
                    }
                }
            }
            let w = worlds.get_mut(&s.cfg).unwrap();
            let provisional = format!("{} {} {} {} {} {}", if CLIENT_KINDS.contains(&s.kind.as_str()) { "client" } else { "frame" }, s.idx, s.kind, s.cfg, s.qlen, s.blen);
            out.begin(&provisional);
            let r = if CLIENT_KINDS.contains(&s.kind.as_str()) { run_client(w, s).await } else { run_frame(w, s).await };
            let intended = 48 + s.qlen + s.blen;
            let over = s.limit.map(|l| intended > l).unwrap_or(false);
            let near = s.limit.map(|l| (intended as i64 - l as i64).abs() <= 2).unwrap_or(false);
            out.count(&format!("limits.path.{}", s.kind));
            out.count(&format!("limits.limit.{}", s.cfg));
            out.count(if over { "limits.size.over" } else if s.limit.is_some() { "limits.size.within" } else { "limits.size.no_limit" });
            if near {
                out.count("limits.size.within2_of_limit");
            }
            out.count(&format!("limits.outcome.{}", r.obs.split(' ').nth(1).unwrap_or("?")));
            out.case(&r.op, &r.obs, over || near);
            for (sig, detail) in &r.fails {
                out.oracle_fail(sig, detail, &[r.op.clone()]);
            }
            let seen_bad: Vec<String> = std::mem::take(&mut *worlds.get(&s.cfg).unwrap().observer_bad.lock().unwrap());
            for b in seen_bad.iter().take(1) {
                out.oracle_fail("limits.observer", &format!("while the cases ran an observer saw: {}", b), &[r.op.clone()]);
            }
            if out.oracle_failures >= 12 {
                // a broken tree has said enough: report quickly
                out.count("limits.stopped_early_after_12_oracle_failures");
                break;
            }
            if r.broken {
                worlds.remove(&s.cfg);
                broken_cases += 1;
                if broken_cases >= 3 {
                    // every further case would spend a watchdog period on a property that has already failed
                    out.count("limits.stopped_early_after_broken_connections");
                    break;
                }
            }
        }
    });
    out.finish();
    std::process::exit(0);
}
