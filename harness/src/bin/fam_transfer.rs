//! Family `transfer` (C11 flow-control accounting, C13 replay ring / resume): drives the real
//! `repe::TransferControl` through its public methods only (the `ReplayRing` is private and fully
//! observable through `replay_chunks_from(0)`), with waits called with an already-expired deadline /
//! zero timeout.  Usage: fam_transfer <credit|ring> --tier T --seed N --out DIR
//!
//! Op lines and observation format: see lean/RepeVerif/Driver/Transfer.lean (both sides print the
//! same text; `enum` lines are enumerated by both sides in the same canonical order).
use repe::{NotifyBody, PeerHandle, PeerId, PeerSendError, PeerSink, ReconnectOutcome, ResumeRejection, TransferControl, TransferRegistry};
use repe_verif_harness::*;
use std::sync::Arc;
use std::time::{Duration, Instant};

fn mode_name() -> &'static str {
    if cfg!(debug_assertions) { "checks" } else { "wraps" }
}

/// How long a sink's `Drop` takes (ns). 0 for the sequential families; the concurrent sub-family lets the
/// teardown of a displaced connection take a few microseconds, as a real sink (socket close, its own locks)
/// would: legitimate embedder code, and it runs wherever `TransferControl` drops the last handle.
static DROP_SPIN_NS: std::sync::atomic::AtomicU64 = std::sync::atomic::AtomicU64::new(0);

struct Dummy;
impl Drop for Dummy {
    fn drop(&mut self) {
        let ns = DROP_SPIN_NS.load(std::sync::atomic::Ordering::Relaxed);
        if ns > 0 {
            let t0 = Instant::now();
            while (t0.elapsed().as_nanos() as u64) < ns {
                std::hint::spin_loop();
            }
        }
    }
}
impl PeerSink for Dummy {
    fn send_notify(&self, _m: &str, _b: NotifyBody) -> Result<(), PeerSendError> {
        Ok(())
    }
    fn is_connected(&self) -> bool {
        true
    }
}
fn peer(id: u64) -> PeerHandle {
    PeerHandle::new(PeerId(id), Arc::new(Dummy))
}

const FNV_BASIS: u64 = 0xcbf29ce484222325;
const FNV_PRIME: u64 = 0x100000001b3;
fn fnv_chain(mut h: u64, bs: &[u8]) -> u64 {
    for b in bs {
        h ^= *b as u64;
        h = h.wrapping_mul(FNV_PRIME);
    }
    h
}
fn mix(a: u64, d: u64) -> u64 {
    let x = (a ^ d).wrapping_mul(FNV_PRIME);
    x ^ (x >> 29)
}

// ------------------------------------------------------------------------------------------
// ops
// ------------------------------------------------------------------------------------------
#[derive(Clone, Debug)]
enum Op {
    Sent(u64),
    Ack(u32, u64),
    Cancel(u64),
    Advance(u32),
    Resume(u64, u32, u64),
    Credit(u64),
    Reconnect,
    Push(u64, u64, bool, Vec<u8>),
    Replay(u64),
    SetPeer(u64),
    /// `wait_for_credit(len, deadline)` with a deadline other than "now" (`wait_code`)
    CreditW(u64, u8),
    /// `wait_for_reconnect(timeout)` with a timeout other than zero (`wait_code`)
    ReconnectW(u8),
}

/// The deadline / timeout parameter of the two waits, as a code recorded on the op line. The outcome of a wait
/// whose caller is alone on the object does not depend on it (one pass through the loop decides; if that pass
/// neither grants nor reports, nobody can change the state during the wait, so it ends in Timeout) — so the model
/// has no such parameter and its driver ignores the token.
///   0 = already expired (deadline = now / timeout = 0)      1 = in the past (now - 1 s) / 1 ns
///   2 = 2 ms ahead (really parks when not satisfied)         3 = one hour ahead
/// Code 3 is generated only where the harness's own bookkeeping (op log) says the call returns at once; every
/// call with code >= 2 runs on a helper thread and is given up after `WAIT_GUARD`.
const WAIT_GUARD: Duration = Duration::from_secs(10);
/// waits given up so far: after the second one the guard shrinks (a tree on which such waits hang would
/// otherwise cost minutes; the verdict is there after the first)
static WAITS_GIVEN_UP: std::sync::atomic::AtomicU64 = std::sync::atomic::AtomicU64::new(0);

impl Op {
    fn line(&self, idx: &str) -> String {
        match self {
            Op::Sent(o) => format!("sent {} {}", idx, o),
            Op::Ack(f, o) => format!("ack {} {} {}", idx, f, o),
            Op::Cancel(r) => format!("cancel {} {}", idx, r),
            Op::Advance(f) => format!("advance {} {}", idx, f),
            Op::Resume(p, f, o) => format!("resume {} {} {} {}", idx, p, f, o),
            Op::Credit(l) => format!("credit {} {}", idx, l),
            Op::Reconnect => format!("reconnect {}", idx),
            Op::CreditW(l, c) => format!("credit {} {} d{}", idx, l, c),
            Op::ReconnectW(c) => format!("reconnect {} t{}", idx, c),
            Op::Push(o, d, l, b) => format!("push {} {} {} {} {}", idx, o, d, *l as u8, hex(b)),
            Op::Replay(o) => format!("replay {} {}", idx, o),
            Op::SetPeer(p) => format!("setpeer {} {}", idx, p),
        }
    }
    fn kind(&self) -> &'static str {
        match self {
            Op::Sent(..) => "sent",
            Op::Ack(..) => "ack",
            Op::Cancel(..) => "cancel",
            Op::Advance(..) => "advance",
            Op::Resume(..) => "resume",
            Op::Credit(..) => "credit",
            Op::Reconnect | Op::ReconnectW(..) => "reconnect",
            Op::CreditW(..) => "credit",
            Op::Push(..) => "push",
            Op::Replay(..) => "replay",
            Op::SetPeer(..) => "setpeer",
        }
    }
    /// the same call without its wait parameter (what the bookkeeping and the oracles look at)
    fn base(&self) -> Op {
        match self {
            Op::CreditW(l, _) => Op::Credit(*l),
            Op::ReconnectW(_) => Op::Reconnect,
            o => o.clone(),
        }
    }
}

fn parse_op(w: &[&str]) -> Option<Op> {
    let n = |i: usize| -> Option<u64> { w.get(i)?.parse().ok() };
    let f = |i: usize| -> Option<u32> { w.get(i)?.parse().ok() };
    Some(match (w[0], w.len()) {
        ("sent", 3) => Op::Sent(n(2)?),
        ("ack", 4) => Op::Ack(f(2)?, n(3)?),
        ("cancel", 3) => Op::Cancel(n(2)?),
        ("advance", 3) => Op::Advance(f(2)?),
        ("resume", 5) => Op::Resume(n(2)?, f(3)?, n(4)?),
        ("credit", 3) => Op::Credit(n(2)?),
        ("reconnect", 2) => Op::Reconnect,
        ("credit", 4) => Op::CreditW(n(2)?, w[3].strip_prefix('d')?.parse().ok()?),
        ("reconnect", 3) => Op::ReconnectW(w[2].strip_prefix('t')?.parse().ok()?),
        ("push", 6) => Op::Push(n(2)?, n(3)?, match w[4] { "1" => true, "0" => false, _ => return None }, unhex(w[5])?),
        ("replay", 3) => Op::Replay(n(2)?),
        ("setpeer", 3) => Op::SetPeer(n(2)?),
        _ => return None,
    })
}

#[derive(Clone, Debug, PartialEq)]
enum Ret {
    Unit,
    CreditOk,
    CreditCancelled(String),
    CreditTimeout,
    ReconnResume(u64),
    ReconnCancelled(String),
    ReconnTimeout,
    ResumeOk(u64),
    ResumeWrongFile(u32, u32),
    ResumeOutOfWindow,
    ResumeCancelled,
    Chunks(Vec<Chunk>),
    Panic(String),
    /// a wait that should have returned at once was still parked after `WAIT_GUARD`
    Blocked,
}

#[derive(Clone, Debug, PartialEq)]
struct Chunk {
    off: u64,
    dlen: u64,
    last: bool,
    body: Arc<Vec<u8>>,
}

fn show_chunk(c: &Chunk) -> String {
    format!("{}:{}:{}:{}:{}", c.off, c.dlen, c.last as u8, c.body.len(), fnv_chain(FNV_BASIS, &c.body))
}

/// Cancel reasons are opaque values for the model (one `Nat` token per distinct string). Token `k` below
/// 10^9+7 is the string `r<k>`; the tokens from 10^9+7 on are the edge strings of `reason_text` (the
/// watchdog's own reason, the empty string, whitespace, a very long one, non-ASCII, and strings that only
/// differ from another reason by case / surrounding blanks). Any other string prints as `?<text>` and will
/// not match the model.
const IDLE_REASON: u64 = 1_000_000_007;
const EMPTY_REASON: u64 = 1_000_000_008;
const BLANK_REASON: u64 = 1_000_000_009;
const LONG_REASON: u64 = 1_000_000_010;
const UNICODE_REASON: u64 = 1_000_000_011;
const NUL_REASON: u64 = 1_000_000_012;
const PADDED_IDLE_REASON: u64 = 1_000_000_013;
const EDGE_REASONS: [u64; 7] = [IDLE_REASON, EMPTY_REASON, BLANK_REASON, LONG_REASON, UNICODE_REASON, NUL_REASON, PADDED_IDLE_REASON];
const LONG_REASON_LEN: usize = 65_537;

fn reason_text(tok: u64) -> String {
    match tok {
        IDLE_REASON => "transfer idle".to_string(),
        EMPTY_REASON => String::new(),
        BLANK_REASON => " \t\n".to_string(),
        LONG_REASON => "x".repeat(LONG_REASON_LEN),
        UNICODE_REASON => "отмена \u{2702} 取消 \u{1F6D1}".to_string(),
        NUL_REASON => "\0".to_string(),
        PADDED_IDLE_REASON => " Transfer Idle ".to_string(),
        k => format!("r{}", k),
    }
}

fn show_reason(r: &str) -> String {
    for tok in EDGE_REASONS {
        // (length first: no 64 KiB string is built unless the length matches)
        if (tok != LONG_REASON || r.len() == LONG_REASON_LEN) && r == reason_text(tok) {
            return tok.to_string();
        }
    }
    match r.strip_prefix('r').and_then(|k| if k.starts_with('+') { None } else { k.parse::<u64>().ok() }) {
        Some(k) if k < IDLE_REASON && r == format!("r{}", k) => k.to_string(),
        _ => format!("?{}[{} bytes]", r.chars().take(40).collect::<String>().escape_debug(), r.len()),
    }
}

/// the reasons the random generators draw from: mostly small tokens, one third edge strings
fn pick_reason(r: &mut Rng) -> u64 {
    if r.chance(1, 3) { *r.pick(&EDGE_REASONS) } else { r.below(3) }
}

fn show_ret(r: &Ret) -> String {
    match r {
        Ret::Unit => "unit".into(),
        Ret::CreditOk => "credit-ok".into(),
        Ret::CreditCancelled(r) => format!("credit-cancelled {}", show_reason(r)),
        Ret::CreditTimeout => "credit-timeout".into(),
        Ret::ReconnResume(o) => format!("reconnect-resume {}", o),
        Ret::ReconnCancelled(r) => format!("reconnect-cancelled {}", show_reason(r)),
        Ret::ReconnTimeout => "reconnect-timeout".into(),
        Ret::ResumeOk(o) => format!("resume-ok {}", o),
        Ret::ResumeWrongFile(a, b) => format!("resume-wrongfile {} {}", a, b),
        Ret::ResumeOutOfWindow => "resume-outofwindow".into(),
        Ret::ResumeCancelled => "resume-cancelled".into(),
        Ret::Chunks(cs) => {
            let mut s = format!("replay {}", cs.len());
            for c in cs {
                s.push(' ');
                s.push_str(&show_chunk(c));
            }
            s
        }
        Ret::Panic(_) => "PANIC".into(),
        Ret::Blocked => "BLOCKED".into(),
    }
}

/// Everything the public API lets us see (None = the mutex is poisoned: every accessor panics).
#[derive(Clone, Debug, PartialEq)]
struct Snap {
    sent: u64,
    acked: u64,
    reason: Option<String>,
    is_cancelled: bool,
    peer: Option<u64>,
    ring: Vec<Chunk>,
}

fn show_snap(s: &Option<Snap>) -> String {
    match s {
        None => "POISONED".into(),
        Some(s) => {
            let mut t = format!(
                "{} {} {} {}",
                s.sent,
                s.acked,
                s.reason.as_deref().map(show_reason).unwrap_or_else(|| "-".into()),
                s.peer.map(|p| p.to_string()).unwrap_or_else(|| "-".into())
            );
            for c in &s.ring {
                t.push(' ');
                t.push_str(&show_chunk(c));
            }
            t
        }
    }
}

// ------------------------------------------------------------------------------------------
// the object under test + what the op log alone tells us (for the direct oracles)
// ------------------------------------------------------------------------------------------
struct Ctl {
    tc: Arc<TransferControl>,
    window: u64,
    capacity: u64,
    /// from the op log: file index of the last `advance`
    file: u32,
    /// from the op log: chunks pushed since the last `advance` (pushes that returned)
    log: Vec<Chunk>,
    /// every push since the last advance started where the previous one ended (and no end overflowed u64)
    abutting: bool,
    /// first reason ever observed through cancel_reason()
    first_reason: Option<String>,
    /// offset of the latest accepted resume not yet handed to wait_for_reconnect / discarded by advance
    expect_pending: Option<u64>,
    /// documented-loop ghost: credit granted for `len` and not yet used
    grant: Option<u64>,
    last_len: u64,
    disciplined: bool,
    poisoned: bool,
    /// a guarded wait did not come back: the history ends here
    abandoned: bool,
}

impl Ctl {
    fn new(window: u64, capacity: u64) -> Ctl {
        Ctl {
            tc: TransferControl::with_replay_capacity(window, capacity),
            window,
            capacity,
            file: 0,
            log: vec![],
            abutting: true,
            first_reason: None,
            expect_pending: None,
            grant: None,
            last_len: 0,
            disciplined: true,
            poisoned: false,
            abandoned: false,
        }
    }

    fn snap(&self) -> Option<Snap> {
        let tc = &self.tc;
        catch(|| {
            let (sent, acked) = tc.offsets();
            Snap {
                sent,
                acked,
                reason: tc.cancel_reason(),
                is_cancelled: tc.is_cancelled(),
                peer: tc.peer().map(|p| p.peer_id().0),
                ring: tc
                    .replay_chunks_from(0)
                    .into_iter()
                    .map(|c| Chunk { off: c.offset, dlen: c.data_len, last: c.last, body: c.body_bytes })
                    .collect(),
            }
        })
        .ok()
    }

    /// Run one op on the real object.
    fn call(&self, op: &Op) -> Ret {
        match op {
            Op::CreditW(..) | Op::ReconnectW(..) => call_wait(&self.tc, op),
            _ => call_tc(&self.tc, op),
        }
    }
}

/// The two waits with a deadline / timeout other than "expired".
fn call_wait(tc: &Arc<TransferControl>, op: &Op) -> Ret {
    let tc2 = tc.clone();
    let op2 = op.clone();
    let run = move || -> Ret {
        let r = catch(|| match op2 {
            Op::CreditW(l, code) => {
                let now = Instant::now();
                let deadline = match code {
                    0 => now,
                    1 => now.checked_sub(Duration::from_secs(1)).unwrap_or(now),
                    2 => now + Duration::from_millis(2),
                    _ => now + Duration::from_secs(3600),
                };
                match tc2.wait_for_credit(l, deadline) {
                    Ok(()) => Ret::CreditOk,
                    Err(repe::CreditError::Cancelled(r)) => Ret::CreditCancelled(r),
                    Err(repe::CreditError::Timeout) => Ret::CreditTimeout,
                }
            }
            Op::ReconnectW(code) => {
                let timeout = match code {
                    0 => Duration::ZERO,
                    1 => Duration::from_nanos(1),
                    2 => Duration::from_millis(2),
                    _ => Duration::from_secs(3600),
                };
                match tc2.wait_for_reconnect(timeout) {
                    ReconnectOutcome::ResumeReady(p) => Ret::ReconnResume(p.resume_at_offset),
                    ReconnectOutcome::Cancelled(r) => Ret::ReconnCancelled(r),
                    ReconnectOutcome::Timeout => Ret::ReconnTimeout,
                }
            }
            _ => unreachable!(),
        });
        match r {
            Ok(r) => r,
            Err(msg) => Ret::Panic(msg),
        }
    };
    let code = match op {
        Op::CreditW(_, c) | Op::ReconnectW(c) => *c,
        _ => 0,
    };
    if code < 2 {
        return run();
    }
    let (tx, rx) = std::sync::mpsc::channel();
    std::thread::spawn(move || {
        let _ = tx.send(run());
    });
    let guard = if WAITS_GIVEN_UP.load(std::sync::atomic::Ordering::Relaxed) >= 2 { Duration::from_millis(300) } else { WAIT_GUARD };
    rx.recv_timeout(guard).unwrap_or_else(|_| {
        WAITS_GIVEN_UP.fetch_add(1, std::sync::atomic::Ordering::Relaxed);
        Ret::Blocked
    })
}

/// Run one op on the real object.
fn call_tc(tc: &TransferControl, op: &Op) -> Ret {
    {
        let r = catch(|| match op {
            Op::Sent(o) => {
                tc.record_sent(*o);
                Ret::Unit
            }
            Op::Ack(f, o) => {
                tc.record_ack(*f, *o);
                Ret::Unit
            }
            Op::Cancel(r) => {
                // `reason: impl Into<String>`: an owned String, a borrowed &str, a boxed str
                let text = reason_text(*r);
                match *r % 3 {
                    0 => tc.cancel(text),
                    1 => tc.cancel(&text[..]),
                    _ => tc.cancel(text.into_boxed_str()),
                }
                Ret::Unit
            }
            Op::Advance(f) => {
                tc.advance_to_file(*f);
                Ret::Unit
            }
            Op::Resume(p, f, o) => match tc.request_resume(peer(*p), *f, *o) {
                Ok(o) => Ret::ResumeOk(o),
                Err(e) => {
                    // `ResumeRejection::reason()` (wire string) is exercised, not part of C11 / C13
                    std::hint::black_box(e.reason().len());
                    match e {
                        ResumeRejection::WrongFileIndex { requested, current } => Ret::ResumeWrongFile(requested, current),
                        ResumeRejection::OutOfWindow => Ret::ResumeOutOfWindow,
                        ResumeRejection::Cancelled => Ret::ResumeCancelled,
                    }
                }
            },
            Op::Credit(l) => {
                // deadline already reached: one pass through the wait loop, never parks
                let deadline = Instant::now();
                match tc.wait_for_credit(*l, deadline) {
                    Ok(()) => Ret::CreditOk,
                    Err(e) => {
                        // `Display` / `Error` of CreditError are exercised, not part of C11
                        std::hint::black_box(e.to_string().len());
                        match e {
                            repe::CreditError::Cancelled(r) => Ret::CreditCancelled(r),
                            repe::CreditError::Timeout => Ret::CreditTimeout,
                        }
                    }
                }
            }
            Op::Reconnect => match tc.wait_for_reconnect(Duration::ZERO) {
                ReconnectOutcome::ResumeReady(p) => Ret::ReconnResume(p.resume_at_offset),
                ReconnectOutcome::Cancelled(r) => Ret::ReconnCancelled(r),
                ReconnectOutcome::Timeout => Ret::ReconnTimeout,
            },
            Op::Push(o, d, l, b) => {
                tc.push_replay(*o, *d, *l, b.clone());
                Ret::Unit
            }
            Op::Replay(o) => Ret::Chunks(
                tc.replay_chunks_from(*o)
                    .into_iter()
                    .map(|c| Chunk { off: c.offset, dlen: c.data_len, last: c.last, body: c.body_bytes })
                    .collect(),
            ),
            Op::SetPeer(p) => {
                tc.set_peer(peer(*p));
                Ret::Unit
            }
            Op::CreditW(..) | Op::ReconnectW(..) => unreachable!("waits with a parameter go through call_wait"),
        });
        match r {
            Ok(r) => r,
            Err(msg) => Ret::Panic(msg),
        }
    }
}

impl Ctl {
    /// Update what the op log tells us (no observation of the object needed except `sent` for the loop ghost).
    fn track(&mut self, op: &Op, ret: &Ret, before_sent: Option<u64>) {
        if let Ret::Panic(_) = ret {
            self.poisoned = true;
            return;
        }
        match op {
            Op::Advance(f) => {
                self.file = *f;
                self.log.clear();
                self.abutting = true;
                self.expect_pending = None;
                if self.grant.is_some() {
                    self.disciplined = false;
                }
            }
            Op::Push(o, d, l, b) => {
                if let Some(c) = self.log.last() {
                    if c.off.checked_add(c.dlen) != Some(*o) {
                        self.abutting = false;
                    }
                }
                self.log.push(Chunk { off: *o, dlen: *d, last: *l, body: Arc::new(b.clone()) });
            }
            Op::Resume(_, _, o) => {
                if let Ret::ResumeOk(_) = ret {
                    self.expect_pending = Some(*o);
                }
            }
            Op::Reconnect => {
                if let Ret::ReconnResume(_) = ret {
                    self.expect_pending = None;
                }
            }
            Op::Credit(l) => {
                self.grant = if *ret == Ret::CreditOk { Some(*l) } else { None };
            }
            Op::Sent(o) => {
                let ok = match (self.grant, before_sent) {
                    (Some(len), Some(sent)) => sent.checked_add(len) == Some(*o),
                    _ => false,
                };
                if ok {
                    self.last_len = self.grant.unwrap();
                } else {
                    self.disciplined = false;
                }
                self.grant = None;
            }
            _ => {}
        }
    }
}

// ------------------------------------------------------------------------------------------
// direct oracles: the property's own statements, evaluated on what the real object did
// ------------------------------------------------------------------------------------------
struct Fail {
    sig: String,
    detail: String,
}

/// `credit` (C11) reports the accounting / credit / cancel oracles, `ring` (C13) the ring / resume /
/// reconnect / advance oracles; both run all of them (shared code), each reports only its own property.
static RING_FAMILY: std::sync::atomic::AtomicBool = std::sync::atomic::AtomicBool::new(false);

fn relevant(sig: &str) -> bool {
    let c13 = ["transfer.ring.", "transfer.resume.", "transfer.reconnect.", "transfer.advance."].iter().any(|p| sig.starts_with(p));
    // concurrent outcomes concern both properties; "a resume is accepted only before cancellation" is a clause
    // of C13 as well as of C11
    if sig.starts_with("transfer.conc.") || sig.starts_with("transfer.reuse.") || sig == "transfer.call_never_returned" || sig == "transfer.cancel.resume_accepted" {
        return true;
    }
    if RING_FAMILY.load(std::sync::atomic::Ordering::Relaxed) { c13 } else { !c13 }
}

fn oracles(c: &Ctl, op: &Op, ret: &Ret, before: &Option<Snap>, after: &Option<Snap>, file_before: u32, expect_before: Option<u64>, fails: &mut Vec<Fail>) {
    let mut fail = |sig: &str, detail: String| fails.push(Fail { sig: sig.to_string(), detail });
    let b = match before {
        Some(b) => b,
        None => return, // already poisoned by an earlier (reported) panic
    };
    let in_flight_b = b.sent.saturating_sub(b.acked);
    // ---- panics
    if let Ret::Panic(msg) = ret {
        match op {
            Op::Credit(len) => {
                if in_flight_b.checked_add(*len).is_none() {
                    fail("transfer.credit.panic.sum_overflow", format!("wait_for_credit({}) panicked with sent={} acked={}: {}", len, b.sent, b.acked, msg));
                } else {
                    fail("transfer.credit.panic", format!("wait_for_credit({}) panicked: {}", len, msg));
                }
            }
            // a non-abutting push trips the documented debug_assert (caller contract), and ring offsets whose
            // end exceeds u64 are outside C13's domain: not property failures (the model predicts them)
            Op::Push(..) | Op::Resume(..) => {}
            _ => fail(&format!("transfer.{}.panic", op.kind()), format!("{} panicked: {}", op.kind(), msg)),
        }
        return;
    }
    let a = match after {
        Some(a) => a,
        None => {
            fail("transfer.poisoned_without_panic", format!("accessors panic after {} returned normally", op.kind()));
            return;
        }
    };
    // ---- C11: acked <= sent
    if a.acked > a.sent {
        fail("transfer.inv.acked_gt_sent", format!("after {}: acked {} > sent {}", op.kind(), a.acked, a.sent));
    }
    // ---- C11: foreign or stale ack is inert
    if let Op::Ack(f, o) = op {
        if (*f != file_before || *o <= b.acked) && a != b {
            fail("transfer.ack.foreign_or_stale_changed_state", format!("ack(file {}, off {}) with current file {} acked {} changed the state", f, o, file_before, b.acked));
        }
    }
    // ---- C11: credit only if nothing in flight or it fits (sum in u128)
    if let Op::Credit(len) = op {
        if *ret == Ret::CreditOk {
            if b.reason.is_some() || b.is_cancelled {
                fail("transfer.credit.granted_after_cancel", format!("credit({}) granted although cancelled", len));
            }
            let fits = in_flight_b == 0 || (in_flight_b as u128 + *len as u128) <= c.window as u128;
            if !fits {
                if in_flight_b.checked_add(*len).is_none() {
                    fail("transfer.credit.overgrant.sum_overflow", format!("credit({}) granted with in-flight {} window {}: the u64 sum wrapped", len, in_flight_b, c.window));
                } else {
                    fail("transfer.credit.overgrant", format!("credit({}) granted with in-flight {} window {}", len, in_flight_b, c.window));
                }
            }
        }
    }
    // ---- C11: documented loop => at most one window (or one oversized chunk) in flight
    if c.disciplined {
        let infl = a.sent.saturating_sub(a.acked);
        if infl > c.window && infl > c.last_len {
            fail("transfer.loop.window_exceeded", format!("producer followed the loop but in-flight {} > window {} and > last chunk {}", infl, c.window, c.last_len));
        }
    }
    // ---- C11: cancellation is permanent, first reason wins, waits report it, resume refused
    if a.is_cancelled != a.reason.is_some() {
        fail("transfer.cancel.flag_reason_disagree", "is_cancelled() and cancel_reason() disagree".into());
    }
    if let Some(first) = &c.first_reason {
        if a.reason.as_ref() != Some(first) {
            fail("transfer.cancel.reason_changed", format!("cancel reason was {} ({:?}), now {}", show_reason(first), first.chars().take(40).collect::<String>(), a.reason.as_deref().map(show_reason).unwrap_or_else(|| "-".into())));
        }
        match ret {
            Ret::CreditOk | Ret::CreditTimeout | Ret::ReconnResume(_) | Ret::ReconnTimeout | Ret::Blocked => {
                fail("transfer.cancel.wait_not_reported", format!("{} after cancel returned {}", op.kind(), show_ret(ret)))
            }
            Ret::CreditCancelled(r) | Ret::ReconnCancelled(r) if r != first => {
                fail("transfer.cancel.wait_wrong_reason", format!("{} reported reason {}, first reason {}", op.kind(), show_reason(r), show_reason(first)))
            }
            Ret::ResumeOk(_) => fail("transfer.cancel.resume_accepted", "request_resume accepted after cancel".into()),
            _ => {}
        }
    } else if let Op::Cancel(r) = op {
        let want = reason_text(*r);
        if a.reason.as_deref() != Some(&want[..]) {
            fail("transfer.cancel.not_recorded", format!("first cancel (reason token {}) left reason {}", r, a.reason.as_deref().map(show_reason).unwrap_or_else(|| "-".into())));
        }
    }
    // ---- C13: ring = suffix of the pushes since the last advance, byte-identical, newest kept, bounded
    let n = a.ring.len();
    if n > c.log.len() || a.ring[..] != c.log[c.log.len() - n..] {
        fail("transfer.ring.not_suffix_of_pushes", format!("ring holds {} chunks that are not the newest {} of the {} pushed", n, n, c.log.len()));
    }
    if let Op::Push(..) = op {
        if n == 0 {
            fail("transfer.ring.empty_after_push", "the most recent chunk was not retained".into());
        }
    }
    let held: u128 = a.ring.iter().map(|c| c.body.len() as u128).sum();
    if n > 1 && held > c.capacity as u128 {
        fail("transfer.ring.over_capacity", format!("{} chunks hold {} wire bytes > capacity {}", n, held, c.capacity));
    }
    if c.abutting {
        for w in a.ring.windows(2) {
            if w[0].off.checked_add(w[0].dlen) != Some(w[1].off) {
                fail("transfer.ring.gap", format!("chunk at {} (+{}) is followed by chunk at {}", w[0].off, w[0].dlen, w[1].off));
            }
        }
    }
    // ---- C13: resume accepted only for current file, before cancel, at boundary / trailing edge / 0 on empty
    if let (Op::Resume(p, f, o), Ret::ResumeOk(ro)) = (op, ret) {
        if ro != o {
            fail("transfer.resume.wrong_offset_returned", format!("asked {}, returned {}", o, ro));
        }
        if *f != file_before {
            fail("transfer.resume.accepted_wrong_file", format!("file {} accepted, current {}", f, file_before));
        }
        let edge = b.ring.last().and_then(|c| c.off.checked_add(c.dlen));
        let boundary = if b.ring.is_empty() { *o == 0 } else { b.ring.iter().any(|c| c.off == *o) || edge == Some(*o) };
        // ring ends beyond u64 are outside the property's domain (wrapping edge): only judge when it is representable
        if !boundary && (b.ring.is_empty() || edge.is_some()) {
            fail("transfer.resume.accepted_off_boundary", format!("offset {} accepted; ring starts {:?}, edge {:?}", o, b.ring.iter().map(|c| c.off).collect::<Vec<_>>(), edge));
        }
        if a.peer != Some(*p) {
            fail("transfer.resume.peer_not_installed", format!("peer() is {:?} after accepted resume from {}", a.peer, p));
        }
        // the replay tail: starts at o, contiguous, ends at the last byte pushed, identical bodies
        if c.abutting && boundary {
            let tail: Vec<Chunk> = c
                .tc
                .replay_chunks_from(*o)
                .into_iter()
                .map(|c| Chunk { off: c.offset, dlen: c.data_len, last: c.last, body: c.body_bytes })
                .collect();
            let edge_log = c.log.last().and_then(|c| c.off.checked_add(c.dlen));
            let n = tail.len();
            let mut bad: Option<String> = None;
            if n > c.log.len() || tail[..] != c.log[c.log.len() - n..] {
                bad = Some("the tail is not the newest chunks pushed (byte-identical)".into());
            } else if let Some(first) = tail.first() {
                if first.off != *o {
                    bad = Some(format!("the tail starts at {} not at {}", first.off, o));
                }
            } else if !(c.log.is_empty() && *o == 0) && edge_log != Some(*o) {
                bad = Some(format!("empty tail although {} is not the trailing edge {:?}", o, edge_log));
            }
            if let Some(why) = bad {
                fail("transfer.resume.replay_not_gapless", format!("replay from accepted offset {}: {}", o, why));
            }
        }
    }
    // ---- C13: reconnect hands over the pending resume exactly once; advance discards it and empties the ring
    if let Op::Reconnect = op {
        if c.first_reason.is_none() && b.reason.is_none() {
            match (expect_before, ret) {
                (Some(o), Ret::ReconnResume(r)) if *r == o => {}
                (None, Ret::ReconnTimeout) => {}
                (None, Ret::Blocked) => {} // generated only for replays of other failures; the model line disagrees
                (Some(o), _) => fail("transfer.reconnect.pending_not_delivered", format!("accepted resume at {} pending, wait_for_reconnect returned {}", o, show_ret(ret))),
                (None, _) => fail("transfer.reconnect.stale_or_double_delivery", format!("no resume pending, wait_for_reconnect returned {}", show_ret(ret))),
            }
        }
    }
    if let Op::Advance(_) = op {
        if !a.ring.is_empty() {
            fail("transfer.advance.ring_not_cleared", format!("{} chunks survive advance_to_file", a.ring.len()));
        }
        if a.sent != 0 || a.acked != 0 {
            fail("transfer.advance.offsets_not_reset", format!("offsets ({}, {}) after advance", a.sent, a.acked));
        }
    }
}


// ------------------------------------------------------------------------------------------
// (o) liveness of the check itself: every stretch of work on the object under test (one op with its snapshots,
// one enumerated sequence, one race) is bracketed by `watch_begin` / `watch_end`; a monitor thread gives up on a
// stretch that has been running for `CALL_GUARD` (no call of this API may take that long: the waits are asked for
// at most `WAIT_GUARD`), writes the oracle failure `transfer.call_never_returned` with the op lines that lead
// there, and ends the process — the thread inside the call cannot be got back.
// ------------------------------------------------------------------------------------------
const CALL_GUARD: Duration = Duration::from_secs(30);
const WATCH_SLOTS: usize = 16;

struct WatchSlot {
    /// milliseconds since `WATCH_BASE` at which the current stretch began, + 1 (0 = idle)
    since: std::sync::atomic::AtomicU64,
    /// the op lines that reproduce the stretch, or a description the monitor expands: `@hist` = the op lines of
    /// the current random history / replay (`HIST_MIRROR`), `@enum <domain>` = the enumerated sequence in `path`
    what: std::sync::Mutex<Vec<String>>,
    path: [std::sync::atomic::AtomicU8; 12],
    plen: std::sync::atomic::AtomicU8,
}
static WATCH: [WatchSlot; WATCH_SLOTS] = [const {
    WatchSlot {
        since: std::sync::atomic::AtomicU64::new(0),
        what: std::sync::Mutex::new(Vec::new()),
        path: [const { std::sync::atomic::AtomicU8::new(0) }; 12],
        plen: std::sync::atomic::AtomicU8::new(0),
    }
}; WATCH_SLOTS];
static HIST_MIRROR: std::sync::Mutex<Vec<String>> = std::sync::Mutex::new(Vec::new());

fn watch_set_path(path: &[usize], last: usize) {
    use std::sync::atomic::Ordering::Relaxed;
    WATCH_MINE.with(|i| {
        let sl = &WATCH[*i];
        let mut n = 0;
        for &k in path.iter().chain(std::iter::once(&last)).take(12) {
            sl.path[n].store(k as u8, Relaxed);
            n += 1;
        }
        sl.plen.store(n as u8, Relaxed);
    });
}

fn watch_expand(slot: &WatchSlot) -> Vec<String> {
    let what = slot.what.lock().map(|g| g.clone()).unwrap_or_default();
    match what.first().map(|s| s.as_str()) {
        Some("@hist") => HIST_MIRROR.lock().map(|g| g.clone()).unwrap_or_default(),
        Some(t) if t.starts_with("@enum ") => {
            let dom = &t[6..];
            let mut ops = vec![format!("mode {}", mode_name())];
            if let Some((window, cap, alpha)) = domain(dom) {
                ops.push(format!("new 0 {} {}", window, cap));
                let mut g = Ghost::default();
                let n = slot.plen.load(std::sync::atomic::Ordering::Relaxed) as usize;
                for k in 0..n {
                    let j = slot.path[k].load(std::sync::atomic::Ordering::Relaxed) as usize;
                    if j < alpha.len() {
                        ops.push(concrete(&alpha[j], &mut g).line(&format!("{}", k + 1)));
                    }
                }
            }
            ops
        }
        _ => what,
    }
}
static WATCH_NEXT: std::sync::atomic::AtomicUsize = std::sync::atomic::AtomicUsize::new(0);
static WATCH_BASE: std::sync::OnceLock<Instant> = std::sync::OnceLock::new();
static WATCH_OUT: std::sync::OnceLock<std::path::PathBuf> = std::sync::OnceLock::new();
thread_local! {
    static WATCH_MINE: usize = WATCH_NEXT.fetch_add(1, std::sync::atomic::Ordering::Relaxed) % WATCH_SLOTS;
}

fn watch_begin(what: impl FnOnce() -> Vec<String>, refresh_what: bool) {
    let base = *WATCH_BASE.get_or_init(Instant::now);
    WATCH_MINE.with(|i| {
        if refresh_what {
            *WATCH[*i].what.lock().unwrap() = what();
        }
        WATCH[*i].since.store(base.elapsed().as_millis() as u64 + 1, std::sync::atomic::Ordering::Release);
    });
}
fn watch_end() {
    WATCH_MINE.with(|i| WATCH[*i].since.store(0, std::sync::atomic::Ordering::Release));
}

fn start_call_monitor(out_dir: &std::path::Path) {
    let _ = WATCH_OUT.set(out_dir.to_path_buf());
    let base = *WATCH_BASE.get_or_init(Instant::now);
    std::thread::spawn(move || loop {
        std::thread::sleep(Duration::from_millis(250));
        let now = base.elapsed().as_millis() as u64 + 1;
        for slot in WATCH.iter() {
            let since = slot.since.load(std::sync::atomic::Ordering::Acquire);
            if since != 0 && now.saturating_sub(since) > CALL_GUARD.as_millis() as u64 {
                let ops = watch_expand(slot);
                let v = serde_json::json!({
                    "sig": "transfer.call_never_returned",
                    "detail": format!("a call into TransferControl had not returned after {} s (every call of this API is a short critical section; the waits were asked for at most {} s); the last op line is the call", CALL_GUARD.as_secs(), WAIT_GUARD.as_secs()),
                    "ops": ops,
                });
                if let Some(dir) = WATCH_OUT.get() {
                    use std::io::Write;
                    if let Ok(mut f) = std::fs::OpenOptions::new().append(true).create(true).open(dir.join("oracle.txt")) {
                        let _ = writeln!(f, "{}", v);
                    }
                }
                eprintln!("fam_transfer: a call never returned; giving up on the run");
                std::process::exit(3);
            }
        }
    });
}

/// stop generating once a broken tree has shown itself often enough
const MAX_ORACLE_FAILURES: u64 = 12;

// ------------------------------------------------------------------------------------------
// executing op lines (random histories and replays)
// ------------------------------------------------------------------------------------------
struct Exec {
    ctl: Ctl,
    /// op lines since (and including) the last `new`, for replays
    hist: Vec<String>,
    /// run the reuse (twin) oracle on the next op line (always in a replay; a PRNG draw otherwise)
    twin_now: bool,
}

/// "64 MiB" as written in the documentation of `DEFAULT_REPLAY_RING_BYTES` / `TransferControl::new` (the
/// harness's own number, not the crate's constant)
const DOC_DEFAULT_RING_BYTES: u64 = 64 * 1024 * 1024;

/// A fresh object brought, through public calls only, to the visible state `snap` (+ the pending resume the op
/// log expects). `None` when that state cannot be rebuilt this way (a non-abutting ring in the dev profile, a
/// pending resume whose offset has been evicted since, a poisoned object) or when the rebuilt object does not show
/// `snap` after all.
fn twin_of(ctl: &Ctl, snap: &Snap) -> Option<Ctl> {
    for w in snap.ring.windows(2) {
        if w[0].off.checked_add(w[0].dlen) != Some(w[1].off) {
            return None;
        }
    }
    if snap.ring.last().map(|c| c.off.checked_add(c.dlen).is_none()).unwrap_or(false) {
        return None;
    }
    let (window, capacity, file, pending) = (ctl.window, ctl.capacity, ctl.file, ctl.expect_pending);
    let snap2 = snap.clone();
    let built = catch(move || {
        let tc = TransferControl::with_replay_capacity(window, capacity);
        if file != 0 {
            tc.advance_to_file(file);
        }
        for c in &snap2.ring {
            tc.push_replay(c.off, c.dlen, c.last, (*c.body).clone());
        }
        match (pending, snap2.peer) {
            (Some(o), Some(p)) => {
                if tc.request_resume(peer(p), file, o).is_err() {
                    return None;
                }
            }
            (Some(_), None) => return None,
            (None, Some(p)) => tc.set_peer(peer(p)),
            (None, None) => {}
        }
        tc.record_sent(snap2.sent);
        tc.record_ack(file, snap2.acked);
        if let Some(r) = &snap2.reason {
            tc.cancel(r.clone());
        }
        Some(tc)
    })
    .ok()??;
    let tw = Ctl { tc: built, ..Ctl::new(0, 0) };
    if tw.snap().as_ref() == Some(snap) { Some(tw) } else { None }
}

/// One step on the real object with the direct oracles; returns (ret, after-snapshot, state changed).
fn do_op(ctl: &mut Ctl, op: &Op, known_before: Option<&Option<Snap>>, fails: &mut Vec<Fail>) -> (Ret, Option<Snap>, bool, &'static str) {
    let before = match known_before {
        Some(b) => b.clone(),
        None => ctl.snap(),
    };
    let file_before = ctl.file;
    let expect_before = ctl.expect_pending;
    // the watchdog's inputs: which of (last_chunk_at, last_ack_at) does this call refresh? Make sure the clock
    // has moved past both stamps first, so that a refresh is always a strictly later Instant.
    let tc0 = ctl.tc.clone();
    let stamps0 = catch(|| tc0.timestamps()).ok();
    if let Some((c, a)) = stamps0 {
        while Instant::now() <= c.max(a) {
            std::hint::spin_loop();
        }
    }
    let ret = ctl.call(op);
    let stamps1 = catch(|| tc0.timestamps()).ok();
    let stamps = match (stamps0, stamps1) {
        (Some((c0, a0)), Some((c1, a1))) => match (c1 > c0, a1 > a0) {
            (false, false) => "00",
            (true, false) => "10",
            (false, true) => "01",
            (true, true) => "11",
        },
        _ => "00",
    };
    let after = ctl.snap();
    // log-derived bookkeeping first: the ring oracle compares against the pushes including this one and the
    // loop oracle applies after a disciplined record_sent; `first_reason` is still the value before this op
    let base = op.base();
    ctl.track(&base, &ret, before.as_ref().map(|b| b.sent));
    oracles(ctl, &base, &ret, &before, &after, file_before, expect_before, fails);
    if ret == Ret::Blocked {
        // the helper thread is still parked on the object and may act on it later: nothing after this is a
        // sequential history any more
        ctl.abandoned = true;
    }
    fails.retain(|f| relevant(&f.sig));
    if ctl.first_reason.is_none() {
        if let Some(a) = &after {
            ctl.first_reason = a.reason.clone();
        }
    }
    let changed = before != after;
    (ret, after, changed, stamps)
}

fn exec_line(ex: &mut Exec, out: &mut Out, line: &str) -> (String, bool) {
    let w = words(line);
    let idx = w.get(1).copied().unwrap_or("?");
    if w[0] == "new" {
        let (win, cap) = (w[2].parse::<u64>().expect("window"), w[3].parse::<u64>().expect("capacity"));
        ex.ctl = Ctl::new(win, cap);
        ex.hist.clear();
        ex.hist.push(format!("mode {}", mode_name()));
        ex.hist.push(line.to_string());
        if let Ok(mut m) = HIST_MIRROR.lock() {
            *m = ex.hist.clone();
        }
        out.count("op.new");
        return (format!("{} new | {}", idx, show_snap(&ex.ctl.snap())), false);
    }
    if w[0] == "newdef" {
        // `TransferControl::new(window)`: the documented twin of `with_replay_capacity(window, 64 MiB)`
        let win = w[2].parse::<u64>().expect("window");
        ex.ctl = Ctl { tc: TransferControl::new(win), ..Ctl::new(win, DOC_DEFAULT_RING_BYTES) };
        ex.hist.clear();
        ex.hist.push(format!("mode {}", mode_name()));
        ex.hist.push(line.to_string());
        if let Ok(mut m) = HIST_MIRROR.lock() {
            *m = ex.hist.clone();
        }
        out.count("op.newdef");
        return (format!("{} new | {}", idx, show_snap(&ex.ctl.snap())), false);
    }
    let op = parse_op(&w).unwrap_or_else(|| panic!("unknown op line: {}", line));
    ex.hist.push(line.to_string());
    let mut fails = vec![];
    // reuse oracle: the same call on a fresh object brought to the same visible state must do the same
    if let Ok(mut m) = HIST_MIRROR.lock() {
        m.push(line.to_string());
    }
    watch_begin(|| vec!["@hist".to_string()], true);
    let twin = if ex.twin_now { ex.ctl.snap().and_then(|b| twin_of(&ex.ctl, &b)) } else { None };
    let (ret, after, changed, stamps) = do_op(&mut ex.ctl, &op, None, &mut fails);
    watch_end();
    if let Some(tw) = twin {
        out.count("reuse.twin_checked");
        let tret = tw.call(&op);
        let tafter = tw.snap();
        if ret != Ret::Blocked && (tret != ret || tafter != after) && relevant("transfer.reuse.differs_from_fresh_object") {
            let d = format!(
                "{} on the object with this history: {} | {}; on a fresh object brought to the same visible state (advance, the retained pushes, peer / accepted resume, sent, ack, cancel): {} | {}",
                op.kind(), show_ret(&ret), show_snap(&after), show_ret(&tret), show_snap(&tafter));
            fails.push(Fail { sig: "transfer.reuse.differs_from_fresh_object".into(), detail: d });
        }
    } else if ex.twin_now {
        out.count("reuse.twin_not_constructible");
    }
    for f in fails {
        out.oracle_fail(&f.sig, &f.detail, &ex.hist);
    }
    out.count(&format!("op.{}", op.kind()));
    let rs = show_ret(&ret);
    let branch = rs.split(' ').next().unwrap_or("");
    if branch != "unit" {
        out.count(&format!("ret.{}", branch));
    } else if changed {
        out.count(&format!("changed.{}", op.kind()));
    }
    let nontrivial = changed || !matches!(ret, Ret::Unit | Ret::CreditTimeout | Ret::ReconnTimeout);
    if stamps != "00" {
        out.count(&format!("stamps.{}.{}", op.kind(), stamps));
    }
    (format!("{} {} | {} ~{}", idx, rs, show_snap(&after), stamps), nontrivial)
}

// ------------------------------------------------------------------------------------------
// small-scope exhaustive enumeration (mirrors Driver/Transfer.lean)
// ------------------------------------------------------------------------------------------
#[derive(Clone)]
enum T {
    Op(Op),
    Push(u64, u64),
}

fn alpha(name: &str) -> Option<Vec<T>> {
    let o = T::Op;
    Some(match name {
        "c11" => vec![
            o(Op::Sent(1)), o(Op::Sent(2)), o(Op::Sent(3)),
            o(Op::Ack(0, 0)), o(Op::Ack(0, 1)), o(Op::Ack(0, 2)), o(Op::Ack(0, 3)),
            o(Op::Ack(1, 1)), o(Op::Ack(1, 2)), o(Op::Ack(1, 3)),
            o(Op::Cancel(0)), o(Op::Cancel(EMPTY_REASON)), o(Op::Advance(0)), o(Op::Advance(1)),
            o(Op::Resume(7, 0, 0)), o(Op::Resume(7, 0, 1)), o(Op::Resume(7, 0, 2)),
            o(Op::Resume(7, 1, 0)), o(Op::Resume(7, 1, 1)), o(Op::Resume(7, 1, 2)),
            o(Op::Credit(1)), o(Op::Credit(2)), o(Op::Credit(3)), o(Op::Reconnect),
            T::Push(1, 0), T::Push(2, 1),
        ],
        "c11s" => vec![
            o(Op::Sent(1)), o(Op::Sent(3)), o(Op::Ack(0, 1)), o(Op::Ack(0, 3)), o(Op::Ack(1, 3)),
            o(Op::Credit(1)), o(Op::Credit(3)), o(Op::Cancel(0)), o(Op::Advance(1)), o(Op::Resume(7, 0, 1)),
        ],
        // cancel with every edge reason string, and everything that reports or could disturb the reason
        "c11r" => vec![
            o(Op::Cancel(0)), o(Op::Cancel(IDLE_REASON)), o(Op::Cancel(EMPTY_REASON)), o(Op::Cancel(BLANK_REASON)),
            o(Op::Cancel(LONG_REASON)), o(Op::Cancel(UNICODE_REASON)), o(Op::Cancel(NUL_REASON)), o(Op::Cancel(PADDED_IDLE_REASON)),
            o(Op::Credit(3)), o(Op::Reconnect), o(Op::Advance(1)), o(Op::Resume(7, 0, 0)),
        ],
        "c13" => vec![
            T::Push(0, 0), T::Push(0, 1), T::Push(1, 0), T::Push(1, 1), T::Push(2, 0), T::Push(2, 1),
            o(Op::Resume(7, 0, 0)), o(Op::Resume(7, 0, 1)), o(Op::Resume(7, 0, 2)),
            o(Op::Resume(7, 0, 3)), o(Op::Resume(7, 0, 4)), o(Op::Resume(8, 1, 0)),
            o(Op::Reconnect), o(Op::Advance(0)), o(Op::Advance(1)), o(Op::Cancel(0)),
            o(Op::Replay(1)), o(Op::Replay(2)), o(Op::Replay(3)),
            o(Op::Sent(2)), o(Op::Sent(4)),
        ],
        "c13s" => vec![
            T::Push(1, 0), T::Push(2, 1), T::Push(0, 1), o(Op::Resume(7, 0, 1)), o(Op::Resume(7, 0, 2)),
            o(Op::Advance(0)), o(Op::Cancel(0)), o(Op::Reconnect),
        ],
        _ => return None,
    })
}

fn domain(d: &str) -> Option<(u64, u64, Vec<T>)> {
    let parts: Vec<&str> = d.split('.').collect();
    match parts[..] {
        ["c11"] => Some((2, 3, alpha("c11")?)),
        ["c11s"] => Some((2, 3, alpha("c11s")?)),
        ["c11r"] => Some((2, 3, alpha("c11r")?)),
        // the same alphabet under another window (0, 1, 3 = exactly one chunk, 2^64-1) and capacity 0
        ["c11s", win] => Some((win.parse().ok()?, 0, alpha("c11s")?)),
        ["c13", cap] => Some((4, cap.parse().ok()?, alpha("c13")?)),
        ["c13s", cap] => Some((4, cap.parse().ok()?, alpha("c13s")?)),
        _ => None,
    }
}

#[derive(Clone, Copy, Default)]
struct Ghost {
    next_off: u64,
    pushes: u64,
}

fn concrete(t: &T, g: &mut Ghost) -> Op {
    match t {
        T::Op(op) => {
            if let Op::Advance(_) = op {
                g.next_off = 0;
            }
            op.clone()
        }
        T::Push(dlen, ovh) => {
            let body = vec![(g.pushes % 256) as u8; (*dlen + *ovh) as usize];
            let op = Op::Push(g.next_off, *dlen, false, body);
            g.next_off += *dlen;
            g.pushes += 1;
            op
        }
    }
}

struct Enum {
    window: u64,
    cap: u64,
    alpha: Vec<T>,
    len: usize,
    group: usize,
    idx: String,
    dom: String,
    lines: Vec<String>,
    sequences: u64,
    nontrivial: u64,
    fails: Vec<(String, String, Vec<String>)>,
}

impl Enum {
    /// Re-create the object and re-run the prefix (the object cannot be cloned), keeping the log-derived ghost.
    fn build(&self, path: &[usize]) -> (Ctl, Ghost) {
        let mut ctl = Ctl::new(self.window, self.cap);
        let mut g = Ghost::default();
        for &i in path {
            let op = concrete(&self.alpha[i], &mut g);
            let before_sent = if matches!(op, Op::Sent(_)) { catch(|| ctl.tc.offsets().0).ok() } else { None };
            let ret = ctl.call(&op);
            ctl.track(&op, &ret, before_sent);
            if ctl.first_reason.is_none() {
                if let Op::Cancel(_) = op {
                    ctl.first_reason = ctl.tc.cancel_reason();
                }
            }
        }
        (ctl, g)
    }

    /// Execute sequence `path ++ [i]` (`before` = what the object showed after `path`);
    /// returns the chained digest and the snapshot after.
    fn node(&mut self, path: &[usize], i: usize, h: u64, before: &Option<Snap>) -> (u64, Option<Snap>) {
        watch_set_path(path, i);
        watch_begin(Vec::new, false);
        let (mut ctl, mut g) = self.build(path);
        let op = concrete(&self.alpha[i], &mut g);
        let mut fails = vec![];
        let (ret, after, changed, stamps) = do_op(&mut ctl, &op, Some(before), &mut fails);
        watch_end();
        // a broken tree has shown itself: keep the first few failing sequences, skip the rest of this subtree's work
        if self.fails.len() >= MAX_ORACLE_FAILURES as usize {
            fails.clear();
        }
        if !fails.is_empty() {
            // the failing sequence as plain op lines (a replay executes them one by one)
            let mut ops = vec![format!("mode {}", mode_name()), format!("new 0 {} {}", self.window, self.cap)];
            let mut gg = Ghost::default();
            for (k, &j) in path.iter().chain(std::iter::once(&i)).enumerate() {
                ops.push(concrete(&self.alpha[j], &mut gg).line(&format!("{}", k + 1)));
            }
            for f in fails {
                self.fails.push((f.sig, format!("[enum {}] {}", self.dom, f.detail), ops.clone()));
            }
        }
        self.sequences += 1;
        if changed || !matches!(ret, Ret::Unit | Ret::CreditTimeout | Ret::ReconnTimeout) {
            self.nontrivial += 1;
        }
        let obs = format!("{} | {} ~{}\n", show_ret(&ret), show_snap(&after), stamps);
        (fnv_chain(h, obs.as_bytes()), after)
    }

    fn fold_sub(&mut self, path: &mut Vec<usize>, h: u64, snap: &Option<Snap>, mut acc: u64) -> u64 {
        for i in 0..self.alpha.len() {
            if self.fails.len() >= MAX_ORACLE_FAILURES as usize {
                return acc;
            }
            let (h2, after) = self.node(path, i, h, snap);
            acc = mix(acc, h2);
            if path.len() + 1 < self.len {
                path.push(i);
                acc = self.fold_sub(path, h2, &after, acc);
                path.pop();
            }
        }
        acc
    }

    /// children `range` of the sequence `path`
    fn dfs(&mut self, path: &mut Vec<usize>, h: u64, snap: &Option<Snap>, range: std::ops::Range<usize>) {
        for i in range {
            if self.fails.len() >= MAX_ORACLE_FAILURES as usize {
                return;
            }
            let (h2, after) = self.node(path, i, h, snap);
            path.push(i);
            let name: String = path.iter().map(|k| format!(".{}", k)).collect();
            if path.len() == self.group && path.len() < self.len {
                let acc = self.fold_sub(path, h2, &after, h2);
                self.lines.push(format!("{}{} {}", self.idx, name, acc));
            } else {
                self.lines.push(format!("{}{} {}", self.idx, name, h2));
                if path.len() < self.len {
                    let n = self.alpha.len();
                    self.dfs(path, h2, &after, 0..n);
                }
            }
            path.pop();
        }
    }
}

const ENUM_THREADS: usize = 4;

fn exec_enum(out: &mut Out, line: &str) {
    let w = words(line);
    let (idx, dom, len, group) = (w[1], w[2], w[3].parse::<usize>().unwrap(), w[4].parse::<usize>().unwrap());
    let (window, cap, alpha) = domain(dom).unwrap_or_else(|| panic!("unknown enum domain {}", dom));
    let n = alpha.len();
    let mk = || Enum { window, cap, alpha: alpha.clone(), len, group: group.min(len), idx: idx.to_string(), dom: dom.to_string(),
                       lines: vec![], sequences: 0, nontrivial: 0, fails: vec![] };
    // the subtrees under the first op are independent: split them over a few threads, keep canonical order
    let root = Ctl::new(window, cap).snap();
    let per = (n + ENUM_THREADS - 1) / ENUM_THREADS;
    let parts: Vec<Enum> = std::thread::scope(|sc| {
        let hs: Vec<_> = (0..ENUM_THREADS)
            .map(|t| {
                let mut e = mk();
                let root = root.clone();
                let range = (t * per).min(n)..((t + 1) * per).min(n);
                sc.spawn(move || {
                    WATCH_MINE.with(|i| *WATCH[*i].what.lock().unwrap() = vec![format!("@enum {}", e.dom)]);
                    e.dfs(&mut vec![], FNV_BASIS, &root, range);
                    e
                })
            })
            .collect();
        hs.into_iter().map(|h| h.join().expect("enum thread")).collect()
    });
    let mut lines: Vec<String> = vec![];
    let (mut seqs, mut nt) = (0u64, 0u64);
    for e in parts {
        lines.extend(e.lines);
        seqs += e.sequences;
        nt += e.nontrivial;
        for (sig, detail, ops) in e.fails {
            out.oracle_fail(&sig, &detail, &ops);
        }
    }
    out.case(line, &lines.join("\n"), true);
    // one case() call, but `seqs` sequences were executed on the real object, all distinct by construction
    out.evaluations += seqs - 1;
    out.nontrivial_distinct += nt.saturating_sub(1);
    out.add(&format!("enum.{}.sequences", dom), seqs);
    out.add(&format!("enum.{}.nontrivial", dom), nt);
}


// ------------------------------------------------------------------------------------------
// concurrent sub-family: 2-3 threads race short programs on one real object; the outcome (every
// return value in program order per thread + the final state) must be the outcome of some
// sequential order of the calls that respects each thread's program order.
//   conc <i> <window> <cap> <setup> :: <prog> <prog> [<prog>] :: <observed outcome>…
// programs are comma-separated op codes: s<off> a<file>.<off> c<r> v<file> r<peer>.<file>.<off> k<len> w
// p<off>.<dlen>.<wlen> y<off> t<peer> and the reads o (offsets) i (is_cancelled) n (cancel_reason) g (peer)
// ------------------------------------------------------------------------------------------
#[derive(Clone, Debug)]
enum COp {
    Op(Op),
    ROff,
    RIsc,
    RReason,
    RPeer,
    /// hammer every observer until the other threads are done (class j)
    Hammer,
}

fn parse_cop(c: &str) -> Option<COp> {
    let (h, rest) = c.split_at(1);
    let nums: Vec<u64> = if rest.is_empty() { vec![] } else { rest.split('.').map(|x| x.parse::<u64>().ok()).collect::<Option<Vec<_>>>()? };
    let n = |i: usize| nums.get(i).copied();
    Some(match (h, nums.len()) {
        ("s", 1) => COp::Op(Op::Sent(n(0)?)),
        ("a", 2) => COp::Op(Op::Ack(n(0)? as u32, n(1)?)),
        ("c", 1) => COp::Op(Op::Cancel(n(0)?)),
        ("v", 1) => COp::Op(Op::Advance(n(0)? as u32)),
        ("r", 3) => COp::Op(Op::Resume(n(0)?, n(1)? as u32, n(2)?)),
        ("k", 1) => COp::Op(Op::Credit(n(0)?)),
        ("w", 0) => COp::Op(Op::Reconnect),
        ("p", 3) => COp::Op(Op::Push(n(0)?, n(1)?, false, vec![(n(0)? + n(1)?) as u8; n(2)? as usize])),
        ("y", 1) => COp::Op(Op::Replay(n(0)?)),
        ("t", 1) => COp::Op(Op::SetPeer(n(0)?)),
        ("o", 0) => COp::ROff,
        ("i", 0) => COp::RIsc,
        ("n", 0) => COp::RReason,
        ("g", 0) => COp::RPeer,
        ("h", 0) => COp::Hammer,
        _ => return None,
    })
}

fn parse_prog(w: &str) -> Option<Vec<COp>> {
    if w == "-" {
        return Some(vec![]);
    }
    w.split(',').map(parse_cop).collect()
}

/// One call of a concurrent program on the real object; the result as one token.
fn call_cop(tc: &TransferControl, c: &COp) -> String {
    let s = match c {
        COp::Op(op) => show_ret(&call_tc(tc, op)),
        COp::ROff => catch(|| tc.offsets()).map(|(s, a)| format!("off {} {}", s, a)).unwrap_or_else(|_| "PANIC".into()),
        COp::RIsc => catch(|| tc.is_cancelled()).map(|b| format!("isc {}", b as u8)).unwrap_or_else(|_| "PANIC".into()),
        COp::RReason => catch(|| tc.cancel_reason())
            .map(|r| format!("reason {}", r.as_deref().map(show_reason).unwrap_or_else(|| "-".into())))
            .unwrap_or_else(|_| "PANIC".into()),
        COp::RPeer => catch(|| tc.peer().map(|p| p.peer_id().0))
            .map(|p| format!("peer {}", p.map(|p| p.to_string()).unwrap_or_else(|| "-".into())))
            .unwrap_or_else(|_| "PANIC".into()),
        COp::Hammer => "h".into(),
    };
    s.replace(' ', "_")
}

/// What each observer shows right now, one string per observer (each is one lock region of its own).
fn observer_views(tc: &TransferControl) -> Vec<String> {
    let mut v: Vec<String> = [COp::ROff, COp::RIsc, COp::RReason, COp::RPeer].iter().map(|c| call_cop(tc, c)).collect();
    v.push(
        catch(|| tc.replay_chunks_from(0))
            .map(|cs| {
                let mut t = String::from("ring");
                for c in cs {
                    t.push('_');
                    t.push_str(&show_chunk(&Chunk { off: c.offset, dlen: c.data_len, last: c.last, body: c.body_bytes }));
                }
                t
            })
            .unwrap_or_else(|_| "PANIC".into()),
    );
    v
}

/// Final observation once every thread is done: the whole visible state, then what a reconnect wait hands over.
fn conc_final(tc: &Arc<TransferControl>) -> String {
    let c = Ctl { tc: tc.clone(), ..Ctl::new(0, 0) };
    let snap = show_snap(&c.snap());
    let rec = show_ret(&call_tc(tc, &Op::Reconnect));
    format!("{}/{}", snap, rec).replace(' ', "_")
}

fn conc_fresh(window: u64, cap: u64, setup: &[COp]) -> Arc<TransferControl> {
    let tc = TransferControl::with_replay_capacity(window, cap);
    for c in setup {
        call_cop(&tc, c);
    }
    tc
}

/// Outcomes of every sequential order (program order kept per thread), each run on a fresh real object.
/// … and, when asked, every observer view in every state those orders pass through (`views`).
fn conc_seq_outcomes_views(window: u64, cap: u64, setup: &[COp], progs: &[Vec<COp>], mut views: Option<&mut std::collections::BTreeSet<String>>) -> std::collections::BTreeSet<String> {
    fn orders(progs: &[Vec<COp>], pos: &mut Vec<usize>, cur: &mut Vec<usize>, out: &mut Vec<Vec<usize>>) {
        if (0..progs.len()).all(|i| pos[i] == progs[i].len()) {
            out.push(cur.clone());
            return;
        }
        for i in 0..progs.len() {
            if pos[i] < progs[i].len() {
                pos[i] += 1;
                cur.push(i);
                orders(progs, pos, cur, out);
                cur.pop();
                pos[i] -= 1;
            }
        }
    }
    let mut all = vec![];
    orders(progs, &mut vec![0; progs.len()], &mut vec![], &mut all);
    let mut res = std::collections::BTreeSet::new();
    for order in all {
        let tc = conc_fresh(window, cap, setup);
        let mut pos = vec![0usize; progs.len()];
        let mut rets: Vec<Vec<String>> = vec![vec![]; progs.len()];
        if let Some(v) = views.as_deref_mut() {
            v.extend(observer_views(&tc));
        }
        for t in order {
            rets[t].push(call_cop(&tc, &progs[t][pos[t]]));
            pos[t] += 1;
            if let Some(v) = views.as_deref_mut() {
                v.extend(observer_views(&tc));
            }
        }
        let r: Vec<String> = rets.iter().map(|v| v.join(",")).collect();
        res.insert(format!("{}|{}", r.join(";"), conc_final(&tc)));
    }
    res
}

fn spin_until(cond: impl Fn() -> bool, limit: Duration) -> bool {
    let t0 = Instant::now();
    let mut n = 0u64;
    while !cond() {
        n += 1;
        if n % 64 == 0 {
            std::thread::yield_now();
        }
        if n % 4096 == 0 && t0.elapsed() > limit {
            return false;
        }
        std::hint::spin_loop();
    }
    true
}

struct ConcShared {
    slot: std::sync::Mutex<Option<Arc<TransferControl>>>,
    gen: std::sync::atomic::AtomicUsize,
    ready: std::sync::atomic::AtomicUsize,
    done: std::sync::atomic::AtomicUsize,
    quit: std::sync::atomic::AtomicBool,
    rets: Vec<std::sync::Mutex<Vec<String>>>,
    progs: Vec<Vec<COp>>,
    /// calls finished by the threads that are not hammers
    done_work: std::sync::atomic::AtomicUsize,
    /// what the hammer threads saw (distinct views) and what they found wrong on the spot
    hammer_views: std::sync::Mutex<std::collections::BTreeSet<String>>,
    hammer_bad: std::sync::Mutex<Vec<String>>,
    hammer_reads: std::sync::atomic::AtomicU64,
}

struct ConcResult {
    observed: std::collections::BTreeSet<String>,
    stuck: bool,
    reps: u64,
    hammer_views: std::collections::BTreeSet<String>,
    hammer_bad: Vec<String>,
    hammer_reads: u64,
}

/// One hammer thread during one race: read every observer over and over until the working threads are done.
/// Checked on the spot (clauses of the property, no expectation needed): acked <= sent in every `offsets()`,
/// a transfer seen cancelled stays cancelled, a reason seen stays that reason, time stamps never go back.
fn hammer(tc: &TransferControl, sh: &ConcShared, until: usize) {
    use std::sync::atomic::Ordering::{Acquire, Relaxed};
    let mut seen_cancelled = false;
    let mut seen_reason: Option<String> = None;
    let mut stamps: Option<(Instant, Instant)> = None;
    let mut local: std::collections::BTreeSet<String> = Default::default();
    let mut bad: Vec<String> = vec![];
    let mut reads = 0u64;
    loop {
        let last_round = sh.done_work.load(Acquire) >= until || sh.quit.load(Acquire);
        if let Ok((s, a)) = catch(|| tc.offsets()) {
            if a > s {
                bad.push(format!("offsets() returned acked {} > sent {}", a, s));
            }
        }
        if let Ok(c) = catch(|| tc.is_cancelled()) {
            if seen_cancelled && !c {
                bad.push("is_cancelled() returned false after it had returned true".into());
            }
            seen_cancelled |= c;
        }
        if let Ok(r) = catch(|| tc.cancel_reason()) {
            if let (Some(old), new) = (&seen_reason, &r) {
                if new.as_ref() != Some(old) {
                    bad.push(format!("cancel_reason() was {}, then {}", show_reason(old), new.as_deref().map(show_reason).unwrap_or_else(|| "-".into())));
                }
            }
            if seen_reason.is_none() {
                seen_reason = r;
            }
        }
        if let Ok((c, a)) = catch(|| tc.timestamps()) {
            if let Some((c0, a0)) = stamps {
                if c < c0 || a < a0 {
                    bad.push("timestamps() went backwards".into());
                }
            }
            stamps = Some((c, a));
        }
        local.extend(observer_views(tc));
        reads += 9;
        if last_round || local.len() > 4000 || bad.len() > 8 {
            break;
        }
    }
    sh.hammer_reads.fetch_add(reads, Relaxed);
    sh.hammer_views.lock().unwrap().extend(local);
    sh.hammer_bad.lock().unwrap().extend(bad);
}

/// Race the programs `reps` times (or until the wall-clock budget is used, at least 20 times).
/// Workers are detached so a deadlock inside the object can be reported instead of hanging the run.
fn run_conc(window: u64, cap: u64, setup: &[COp], progs: &[Vec<COp>], reps: u64, budget: Duration, drop_ns: u64) -> ConcResult {
    use std::sync::atomic::Ordering::{AcqRel, Acquire, Release};
    let t = progs.len();
    let sh = Arc::new(ConcShared {
        slot: std::sync::Mutex::new(None),
        gen: Default::default(),
        ready: Default::default(),
        done: Default::default(),
        quit: Default::default(),
        rets: (0..t).map(|_| std::sync::Mutex::new(Vec::new())).collect(),
        progs: progs.to_vec(),
        done_work: Default::default(),
        hammer_views: Default::default(),
        hammer_bad: Default::default(),
        hammer_reads: Default::default(),
    });
    let n_work = progs.iter().filter(|p| !matches!(p[..], [COp::Hammer])).count();
    let mut res = ConcResult { observed: Default::default(), stuck: false, reps: 0, hammer_views: Default::default(), hammer_bad: vec![], hammer_reads: 0 };
    let long = Duration::from_secs(3600);
    let mut joins = vec![];
    for ti in 0..t {
        let sh = sh.clone();
        joins.push(std::thread::spawn(move || {
            let mut rep = 0usize;
            loop {
                rep += 1;
                if !spin_until(|| sh.gen.load(Acquire) >= rep || sh.quit.load(Acquire), long) || sh.quit.load(Acquire) {
                    return;
                }
                let tc = sh.slot.lock().unwrap().clone().unwrap();
                sh.ready.fetch_add(1, AcqRel);
                if !spin_until(|| sh.ready.load(Acquire) >= rep * sh.progs.len() || sh.quit.load(Acquire), long) || sh.quit.load(Acquire) {
                    return;
                }
                let my: Vec<String> = if matches!(sh.progs[ti][..], [COp::Hammer]) {
                    hammer(&tc, &sh, rep * n_work);
                    vec!["h".into()]
                } else {
                    let my = sh.progs[ti].iter().map(|c| call_cop(&tc, c)).collect();
                    sh.done_work.fetch_add(1, AcqRel);
                    my
                };
                *sh.rets[ti].lock().unwrap() = my;
                drop(tc);
                sh.done.fetch_add(1, AcqRel);
            }
        }));
    }
    let t0 = Instant::now();
    for rep in 1..=(reps as usize) {
        if rep > 10 && t0.elapsed() > budget {
            break;
        }
        DROP_SPIN_NS.store(0, std::sync::atomic::Ordering::Relaxed);
        let tc = conc_fresh(window, cap, setup);
        DROP_SPIN_NS.store(drop_ns, std::sync::atomic::Ordering::Relaxed);
        *sh.slot.lock().unwrap() = Some(tc.clone());
        sh.gen.store(rep, Release);
        if !spin_until(|| sh.done.load(Acquire) >= rep * t, Duration::from_secs(20)) {
            res.stuck = true;
            sh.quit.store(true, Release);
            DROP_SPIN_NS.store(0, std::sync::atomic::Ordering::Relaxed);
            std::mem::forget(tc);
            return res;
        }
        DROP_SPIN_NS.store(0, std::sync::atomic::Ordering::Relaxed);
        *sh.slot.lock().unwrap() = None;
        let r: Vec<String> = sh.rets.iter().map(|m| m.lock().unwrap().join(",")).collect();
        res.observed.insert(format!("{}|{}", r.join(";"), conc_final(&tc)));
        res.reps += 1;
    }
    sh.quit.store(true, Release);
    for j in joins {
        let _ = j.join();
    }
    res.hammer_views = std::mem::take(&mut *sh.hammer_views.lock().unwrap());
    res.hammer_bad = std::mem::take(&mut *sh.hammer_bad.lock().unwrap());
    res.hammer_reads = sh.hammer_reads.load(Acquire);
    res
}

struct ConcCfg {
    reps: u64,
    budget: Duration,
    drop_ns: u64,
}

/// Execute one `conc` line: race on the real object, decide membership against the sequential orders run on
/// the real object (direct oracle), and emit the observed outcomes on the op line so that the model decides
/// membership against *its* sequential orders too (diffed like every other observation).
fn exec_conc(out: &mut Out, line: &str, cfg: &ConcCfg) {
    let w = words(line);
    let idx = w[1];
    let bad = |out: &mut Out| out.case(line, &format!("{} bad-op", idx), false);
    let seps: Vec<usize> = w.iter().enumerate().filter(|(_, x)| **x == "::").map(|(i, _)| i).collect();
    if w.len() < 8 || seps.is_empty() || seps[0] != 5 {
        return bad(out);
    }
    let (Ok(window), Ok(cap)) = (w[2].parse::<u64>(), w[3].parse::<u64>()) else { return bad(out) };
    let Some(setup) = parse_prog(w[4]) else { return bad(out) };
    let end = seps.get(1).copied().unwrap_or(w.len());
    let mut progs = vec![];
    for p in &w[6..end] {
        let Some(p) = parse_prog(p) else { return bad(out) };
        progs.push(p);
    }
    if progs.is_empty() || progs.len() > 4 || progs.iter().map(|p| p.len()).sum::<usize>() > 9 {
        return bad(out);
    }
    // a hammer is a program of its own, and somebody has to do the work
    if progs.iter().any(|p| p.len() > 1 && p.iter().any(|c| matches!(c, COp::Hammer))) || progs.iter().all(|p| matches!(p[..], [COp::Hammer])) {
        return bad(out);
    }
    let head = w[..end].join(" ");
    let res = run_conc(window, cap, &setup, &progs, cfg.reps, cfg.budget, cfg.drop_ns);
    if res.stuck {
        out.oracle_fail("transfer.conc.stuck", "concurrent callers did not finish within 20 s", &[head.clone()]);
        out.case(&head, &format!("{} conc STUCK", idx), false);
        return;
    }
    let has_hammer = progs.iter().any(|p| p.iter().any(|c| matches!(c, COp::Hammer)));
    let mut views = std::collections::BTreeSet::new();
    let allowed = conc_seq_outcomes_views(window, cap, &setup, &progs, if has_hammer { Some(&mut views) } else { None });
    if has_hammer {
        out.add("conc.hammer_reads", res.hammer_reads);
        out.add("conc.hammer_distinct_views", res.hammer_views.len() as u64);
        // (j) every single observation is what that observer shows in a state some sequential order passes through
        let mut bad = res.hammer_bad.clone();
        if let Some(v) = res.hammer_views.iter().find(|v| !views.contains(*v)) {
            bad.push(format!("an observer returned `{}`, which it returns in no state that a sequential order of the calls passes through ({} admissible views)", v, views.len()));
        }
        if let Some(b) = bad.first() {
            out.oracle_fail(
                "transfer.conc.observer_saw_inadmissible_state",
                &format!("while the programs {} ran, a thread that only reads saw: {}", w[6..end].join(" | "), b),
                &[format!("mode {}", mode_name()), head.clone()],
            );
        }
    }
    out.add("conc.races", res.reps);
    out.add("conc.distinct_outcomes_observed", res.observed.len() as u64);
    out.count(&format!("conc.threads{}", progs.len()));
    out.evaluations += res.reps.saturating_sub(1);
    let full = format!("{} :: {}", head, res.observed.iter().cloned().collect::<Vec<_>>().join(" "));
    match res.observed.iter().find(|o| !allowed.contains(*o)) {
        Some(bad_o) => {
            out.count("conc.nonlinearizable");
            out.oracle_fail(
                "transfer.conc.nonlinearizable",
                &format!("racing the programs {} gave the outcome `{}`, which is not the outcome of any sequential order of the calls (the {} sequential orders' outcomes: {})",
                         w[6..end].join(" | "), bad_o, allowed.len(), allowed.iter().cloned().collect::<Vec<_>>().join(" ")),
                &[format!("mode {}", mode_name()), head.clone()],
            );
            out.case(&full, &format!("{} conc NONLIN {}", idx, bad_o), true);
        }
        None => out.case(&full, &format!("{} conc ok {}", idx, res.observed.len()), allowed.len() > 1),
    }
}

/// Targeted races: a resume (displacing a peer whose teardown takes a moment) against cancel / advance and a
/// reader that looks right after them.
fn conc_targeted(ring: bool) -> Vec<String> {
    let setup = "t9,p0.1.1,p1.1.1,s2";
    let mut v: Vec<String> = vec![
        format!("8 8 {} :: r7.0.1 c0,o,i", setup),
        format!("8 8 {} :: r7.0.1 c0,o o,i,o", setup),
        format!("8 8 {} :: r7.0.1,o c0,n,o", setup),
        format!("8 8 {} :: r7.0.1 v1,o,w", setup),
        format!("8 8 {} :: r7.0.1 v1,o o,g", setup),
        format!("8 8 {} :: r7.0.2,w c1,o,n a0.1,o", setup),
    ];
    // (j) threads that only read — offsets, is_cancelled, cancel_reason, peer, time stamps, the ring — while the
    // calls of the property run
    v.push(format!("8 8 {} :: r7.0.1 c0,o,i h", setup));
    v.push(format!("2 8 {} :: s3,a0.3,v1 c5,a0.1,c6 h h", setup));
    v.push(format!("8 2 {} :: p2.1.1,p3.1.1 r7.0.1,w,v1 h", setup));
    if ring {
        v.push(format!("8 8 {} :: r7.0.1 v0,w,o p2.1.1,y0", setup));
        v.push(format!("8 2 {} :: r7.0.1,w p2.1.1,p3.1.1 y0,o", setup));
    } else {
        v.push(format!("2 8 {} :: r7.0.1,k1 c0,k1,o a0.2,k1", setup));
        v.push(format!("2 8 {} :: s3,k1 a0.3,o a1.3,k2", setup));
        // a blank cancel racing the watchdog's reason and a reporting wait: whichever is first stays
        v.push(format!("2 8 {} :: c{},k3,n c{},n,w k3,n", setup, EMPTY_REASON, IDLE_REASON));
        v.push(format!("2 8 {},c{} :: c{},n c{},k3 w,n", setup, EMPTY_REASON, IDLE_REASON, BLANK_REASON));
    }
    v
}

fn gen_conc(r: &mut Rng, ring: bool) -> String {
    let window = *r.pick(&[2u64, 4, 8]);
    let cap = *r.pick(&[0u64, 2, 3, 8]);
    // setup: optionally a first peer (so a resume displaces one), some pushes, sent, ack
    let mut setup: Vec<String> = vec![];
    if r.chance(3, 4) {
        setup.push("t9".into());
    }
    let npush = r.below(4);
    let mut off = 0u64;
    for _ in 0..npush {
        let d = r.range(0, 2);
        setup.push(format!("p{}.{}.{}", off, d, d + r.below(2)));
        off += d;
    }
    if r.chance(3, 4) {
        setup.push(format!("s{}", r.range(1, 4)));
    }
    if r.chance(1, 3) {
        setup.push(format!("a0.{}", r.range(0, 2)));
    }
    let threads = r.range(2, 3) as usize;
    let mut progs: Vec<String> = vec![];
    let mut total = 0;
    let mut pusher_used = false;
    for t in 0..threads {
        let n = r.range(1, 3).min(7u64.saturating_sub(total)).max(1);
        total += n;
        let pusher = ring && !pusher_used && r.chance(1, 3);
        pusher_used |= pusher;
        let mut ops: Vec<String> = vec![];
        let mut poff = off;
        for _ in 0..n {
            let k = if t == 0 && ops.is_empty() { r.below(3) } else { r.below(14) };
            ops.push(match k {
                0 | 1 => format!("r{}.{}.{}", 7 + t, r.below(2), r.below(off + 2)),
                2 | 3 => if r.chance(1, 3) { format!("c{}", r.pick(&EDGE_REASONS)) } else { format!("c{}", t) },
                4 => format!("v{}", r.below(2)),
                5 => format!("a{}.{}", r.below(2), r.range(0, 4)),
                6 => format!("s{}", r.range(1, 5)),
                7 | 8 => "o".into(),
                9 => if r.chance(1, 2) { "i".into() } else { "n".into() },
                10 => "w".into(),
                11 => format!("k{}", r.range(1, 3)),
                12 if pusher => {
                    let d = r.range(0, 2);
                    let c = format!("p{}.{}.{}", poff, d, d + r.below(2));
                    poff += d;
                    c
                }
                12 => "g".into(),
                _ => if ring { format!("y{}", r.below(off + 1)) } else { "o".into() },
            });
        }
        progs.push(ops.join(","));
    }
    if progs.len() <= 3 && r.chance(1, 3) {
        progs.push("h".into());
        if progs.len() <= 3 && r.chance(1, 3) {
            progs.push("h".into());
        }
    }
    format!("{} {} {} :: {}", window, cap, if setup.is_empty() { "-".into() } else { setup.join(",") }, progs.join(" "))
}


// ------------------------------------------------------------------------------------------
// the idle watchdog on a real registry (`watchdog <i>`): a real `spawn_watchdog` thread, a short idle
// timeout; one-sided waits (the tick is floored at 1 s by the code; we allow 30 s)
// ------------------------------------------------------------------------------------------
static WATCHDOG_NOTE: std::sync::Mutex<Vec<String>> = std::sync::Mutex::new(Vec::new());

/// threads of this process named like the watchdog's (`/proc/self/task/*/comm`, 15 characters)
fn watchdog_threads_alive() -> u64 {
    let mut n = 0;
    if let Ok(rd) = std::fs::read_dir("/proc/self/task") {
        for e in rd.flatten() {
            if std::fs::read_to_string(e.path().join("comm")).map(|c| c.trim() == "repe-stream-wat").unwrap_or(false) {
                n += 1;
            }
        }
    }
    n
}

fn watchdog_scenario() -> (String, Vec<Fail>) {
    let mut fails: Vec<Fail> = vec![];
    let mut fail = |sig: &str, detail: String| fails.push(Fail { sig: sig.to_string(), detail });
    let mk = || {
        let tc = TransferControl::with_replay_capacity(8, 64);
        tc.set_peer(peer(3));
        tc.push_replay(0, 5, false, vec![1, 2, 3, 4, 5]);
        tc.record_sent(5);
        tc.record_ack(0, 2);
        tc
    };
    let snap_of = |tc: &Arc<TransferControl>| Ctl { tc: tc.clone(), ..Ctl::new(0, 0) }.snap();
    let (a, b, c, d) = (mk(), TransferControl::with_replay_capacity(8, 64), TransferControl::with_replay_capacity(8, 64), TransferControl::with_replay_capacity(8, 64));
    b.cancel("r5");
    // E: idle like A, but already cancelled with a blank reason (a wire cancel without `reason`)
    let e = mk();
    e.cancel("");
    let a_before = snap_of(&a);
    let reg: Arc<TransferRegistry<u64>> = Arc::new(TransferRegistry::new());
    let mut reg_ok = true;
    reg_ok &= reg.is_empty() && reg.len() == 0 && reg.get(1).is_none();
    reg.register(1, a.clone());
    reg.register(2, b.clone());
    reg.register(3, c.clone());
    reg.register(3, c.clone()); // re-registering a key replaces, does not duplicate
    reg_ok &= reg.len() == 3 && !reg.is_empty();
    reg_ok &= reg.get(1).map(|x| Arc::ptr_eq(&x, &a)).unwrap_or(false) && reg.get(9).is_none();
    reg_ok &= reg.unregister(3).map(|x| Arc::ptr_eq(&x, &c)).unwrap_or(false) && reg.unregister(3).is_none();
    let mut keys: Vec<u64> = reg.snapshot().into_iter().map(|(k, _)| k).collect();
    keys.sort();
    reg_ok &= keys == vec![1, 2] && reg.len() == 2;
    reg.register(5, e.clone());
    if !reg_ok {
        fail("transfer.registry.map_semantics", "register / get / unregister / snapshot / len do not behave as a map from keys to controls".into());
    }
    let reg2: Arc<TransferRegistry<u64>> = Arc::new(TransferRegistry::new());
    reg2.register(4, d.clone());
    // the idle timeout at its boundaries: zero (every transfer is idle at every tick), Duration::MAX (none ever is)
    let (g, h, l) = (mk(), mk(), mk());
    let reg3: Arc<TransferRegistry<u64>> = Arc::new(TransferRegistry::new());
    reg3.register(0, g.clone());
    let reg4: Arc<TransferRegistry<u64>> = Arc::new(TransferRegistry::new());
    reg4.register(u64::MAX, h.clone());
    // (h) idle timeout 4 s: idle / 4 is exactly the lower clamp of the tick (1 s)
    let kk = mk();
    let reg5: Arc<TransferRegistry<u64>> = Arc::new(TransferRegistry::new());
    reg5.register(11, kk.clone());
    let kk_born = Instant::now();
    // (l) a control whose mutex is poisoned sits in a watched registry next to six idle ones: observed only
    let reg6: Arc<TransferRegistry<u64>> = Arc::new(TransferRegistry::new());
    let neighbours: Vec<Arc<TransferControl>> = (0..6).map(|_| mk()).collect();
    for (i, n) in neighbours.iter().enumerate() {
        reg6.register(i as u64, n.clone());
    }
    let poisoned = mk();
    poisoned.set_peer(PeerHandle::new(PeerId(1), Arc::new(OddSink { kind: 1, back: std::sync::Mutex::new(None) })));
    {
        let p2 = poisoned.clone();
        let _ = catch(move || p2.set_peer(peer(2)));
    }
    let really_poisoned = catch(|| poisoned.offsets()).is_err();
    reg6.register(99, poisoned.clone());
    repe::spawn_watchdog(reg.clone(), Duration::from_millis(30));
    // (m) a second watchdog on the same registry: both cancel, the first reason stays
    repe::spawn_watchdog(reg.clone(), Duration::from_millis(40));
    repe::spawn_watchdog(reg2.clone(), Duration::from_secs(3600));
    repe::spawn_watchdog(reg5.clone(), Duration::from_secs(4));
    repe::spawn_watchdog(reg6.clone(), Duration::from_millis(30));
    repe::spawn_watchdog(reg3.clone(), Duration::ZERO);
    repe::spawn_watchdog(reg4.clone(), Duration::MAX);
    let t0 = Instant::now();
    while !a.is_cancelled() && t0.elapsed() < Duration::from_secs(30) {
        std::thread::sleep(Duration::from_millis(20));
    }
    let show = |tc: &Arc<TransferControl>| match tc.cancel_reason() {
        None => "-".to_string(),
        Some(r) if r == "transfer idle" => "idle".to_string(),
        Some(r) => show_reason(&r),
    };
    if !a.is_cancelled() {
        fail("transfer.watchdog.idle_not_cancelled", "an idle registered transfer was not cancelled within 30 s (idle timeout 30 ms, tick 1 s)".into());
    }
    // a transfer registered after the watchdog's first scan is seen by a later one (the same thread, the same
    // registry, scanned again and again)
    reg.register(6, l.clone());
    // (l) … and three more idle ones join the registry with the poisoned control after its watchdog's first scan
    let late_neighbours: Vec<Arc<TransferControl>> = (0..3).map(|_| mk()).collect();
    for (i, n) in late_neighbours.iter().enumerate() {
        reg6.register(50 + i as u64, n.clone());
    }
    let t1 = Instant::now();
    while !(l.is_cancelled() && g.is_cancelled()) && t1.elapsed() < Duration::from_secs(30) {
        std::thread::sleep(Duration::from_millis(20));
    }
    if !l.is_cancelled() {
        fail("transfer.watchdog.idle_not_cancelled", "an idle transfer registered after the watchdog's first scan was not cancelled within 30 s".into());
    }
    if !g.is_cancelled() {
        fail("transfer.watchdog.idle_not_cancelled", "a transfer under a zero idle timeout was not cancelled within 30 s".into());
    }
    if h.is_cancelled() {
        fail("transfer.watchdog.cancelled_not_idle", "a transfer under an idle timeout of Duration::MAX was cancelled".into());
    }
    let kk_early = kk.is_cancelled();
    if kk_early && kk_born.elapsed() < Duration::from_millis(3500) {
        fail("transfer.watchdog.cancelled_not_idle", "a transfer under a 4 s idle timeout was cancelled less than 3.5 s after its last activity".into());
    }
    while !kk.is_cancelled() && kk_born.elapsed() < Duration::from_secs(34) {
        std::thread::sleep(Duration::from_millis(50));
    }
    if !kk.is_cancelled() {
        fail("transfer.watchdog.idle_not_cancelled", "a transfer under a 4 s idle timeout (tick at its 1 s clamp) was not cancelled within 34 s".into());
    }
    let n_cancelled = neighbours.iter().filter(|n| n.is_cancelled()).count();
    let n_late = late_neighbours.iter().filter(|n| n.is_cancelled()).count();
    let neighbour_note = format!("watchdog.poisoned_neighbour.{}.cancelled_{}_of_6.late_{}_of_3", if really_poisoned { "poisoned" } else { "not_poisoned" }, n_cancelled, n_late);
    // give another tick the chance to do more damage, then look
    std::thread::sleep(Duration::from_millis(200));
    let a_after = snap_of(&a);
    let same = match (&a_before, &a_after) {
        (Some(x), Some(y)) => {
            let mut y2 = y.clone();
            y2.reason = x.reason.clone();
            y2.is_cancelled = x.is_cancelled;
            *x == y2
        }
        _ => false,
    };
    if !same {
        fail("transfer.watchdog.changed_state", format!("the watchdog changed more than the cancel flag: before {:?} after {:?}", a_before, a_after));
    }
    if b.cancel_reason().as_deref() != Some("r5") {
        fail("transfer.watchdog.overwrote_reason", format!("a transfer cancelled with r5 now has reason {:?}", b.cancel_reason()));
    }
    if e.cancel_reason().as_deref() != Some("") {
        fail("transfer.watchdog.overwrote_reason", format!("a transfer cancelled with the empty reason now has reason {:?}", e.cancel_reason()));
    }
    if c.is_cancelled() {
        fail("transfer.watchdog.cancelled_unregistered", "a transfer that was unregistered before the watchdog started was cancelled".into());
    }
    if d.is_cancelled() {
        fail("transfer.watchdog.cancelled_not_idle", "a transfer with a one-hour idle timeout was cancelled after seconds".into());
    }
    drop(reg);
    drop(reg2);
    drop(reg3);
    drop(reg4);
    drop(reg5);
    drop(reg6);
    std::mem::forget(poisoned); // dropping a poisoned control is fine, but its Drop-panicking sink is gone anyway
    WATCHDOG_NOTE.lock().unwrap().push(neighbour_note);
    (format!("watchdog A={}/{} B={} C={} D={} E={} G={} H={} L={} K={} reg={}", show(&a), if same { "same" } else { "changed" }, show(&b), show(&c), show(&d), show(&e), show(&g), show(&h), show(&l), show(&kk), if reg_ok { "ok" } else { "bad" }), fails)
}

// ------------------------------------------------------------------------------------------
// user code that runs inside `TransferControl` / `TransferRegistry` (`sinks <i>`): the only callbacks are the
// `Drop` of a displaced `PeerSink` (it runs inside `set_peer` / `request_resume`, under the control's mutex; the
// sink's `send_notify` / `is_connected` are never called by stream.rs) and `Hash` / `Eq` of the registry key.
// C11 / C13 say nothing about a sink whose `Drop` panics, blocks or calls back into the control, so this only
// exercises those paths and counts what happened (`sinks.*` counters in the evidence); the one thing asserted is
// a clause of the property: whatever the sink did, an object that still answers obeys acked <= sent and keeps its
// first cancel reason.
// ------------------------------------------------------------------------------------------
static SINK_CALLS: std::sync::atomic::AtomicU64 = std::sync::atomic::AtomicU64::new(0);
static THOROUGH: std::sync::atomic::AtomicBool = std::sync::atomic::AtomicBool::new(false);
static SEARCH_DEADLINE: std::sync::OnceLock<Instant> = std::sync::OnceLock::new();

struct OddSink {
    /// 0 String panic, 1 &'static str panic, 2 non-string payload, 3 slow (30 ms), 4 calls back into the control
    kind: u8,
    back: std::sync::Mutex<Option<std::sync::Weak<TransferControl>>>,
}
impl PeerSink for OddSink {
    fn send_notify(&self, _m: &str, _b: NotifyBody) -> Result<(), PeerSendError> {
        SINK_CALLS.fetch_add(1, std::sync::atomic::Ordering::Relaxed);
        Err(PeerSendError::Disconnected)
    }
    fn is_connected(&self) -> bool {
        SINK_CALLS.fetch_add(1, std::sync::atomic::Ordering::Relaxed);
        false
    }
}
impl Drop for OddSink {
    fn drop(&mut self) {
        match self.kind {
            0 => panic!("{}", String::from("sink teardown failed")),
            1 => panic!("sink teardown failed"),
            2 => std::panic::panic_any(17u32),
            3 => std::thread::sleep(Duration::from_millis(30)),
            _ => {
                if let Some(tc) = self.back.lock().ok().and_then(|g| g.as_ref().and_then(|w| w.upgrade())) {
                    let _ = tc.offsets();
                }
            }
        }
    }
}

/// a registry key whose `Hash` sends every key to the same bucket and whose `Eq` is slow
#[derive(Clone, Copy, PartialEq, Eq, Debug)]
struct ClashKey(u64);
impl std::hash::Hash for ClashKey {
    fn hash<H: std::hash::Hasher>(&self, h: &mut H) {
        h.write_u8(7);
    }
}

fn sinks_scenario() -> (Vec<(String, u64)>, Vec<Fail>) {
    let mut fails: Vec<Fail> = vec![];
    let mut counts: Vec<(String, u64)> = vec![];
    let mut count = |k: String| counts.push((k, 1));
    for kind in 0u8..5 {
        for via_resume in [false, true] {
            // (a sink that was not displaced after all is dropped with the control, here: keep its panic in)
            let mut local: Vec<String> = vec![];
            let mut lfails: Vec<Fail> = vec![];
            let _ = catch(|| {
            let tc = TransferControl::with_replay_capacity(8, 64);
            tc.push_replay(0, 3, false, vec![1, 2, 3]);
            tc.record_sent(3);
            tc.record_ack(0, 1);
            let sink = Arc::new(OddSink { kind, back: std::sync::Mutex::new(Some(Arc::downgrade(&tc))) });
            tc.set_peer(PeerHandle::new(PeerId(1), sink));
            let tc2 = tc.clone();
            let (tx, rx) = std::sync::mpsc::channel();
            std::thread::spawn(move || {
                let r = catch(|| {
                    if via_resume {
                        let _ = tc2.request_resume(peer(2), 0, 3);
                    } else {
                        tc2.set_peer(peer(2));
                    }
                });
                let _ = tx.send(r.is_ok());
            });
            let how = match rx.recv_timeout(Duration::from_millis(1500)) {
                Ok(true) => "returned",
                Ok(false) => "panicked",
                Err(_) => "stuck",
            };
            let path = if via_resume { "request_resume" } else { "set_peer" };
            local.push(format!("sinks.drop_kind{}.{}.{}", kind, path, how));
            if how == "stuck" {
                return; // the helper thread holds the mutex for good; nothing more can be asked of this object
            }
            let after = Ctl { tc: tc.clone(), ..Ctl::new(0, 0) }.snap();
            match after {
                None => local.push(format!("sinks.drop_kind{}.{}.then_poisoned", kind, path)),
                Some(a) => {
                    local.push(format!("sinks.drop_kind{}.{}.then_usable", kind, path));
                    if a.acked > a.sent {
                        lfails.push(Fail { sig: "transfer.inv.acked_gt_sent".into(), detail: format!("after a sink whose Drop misbehaves (kind {}) was displaced by {}: acked {} > sent {}", kind, path, a.acked, a.sent) });
                    }
                    // first reason still wins on an object that went through this
                    let r = catch(|| {
                        tc.cancel("");
                        tc.cancel("later");
                        tc.cancel_reason()
                    });
                    if let Ok(got) = r {
                        if got.as_deref() != Some("") {
                            lfails.push(Fail { sig: "transfer.cancel.reason_changed".into(), detail: format!("after a misbehaving sink (kind {}, {}): cancel(\"\"), cancel(\"later\") left {:?}", kind, path, got) });
                        }
                    }
                }
            }
            });
            for k in local {
                count(k);
            }
            fails.extend(lfails);
        }
    }
    // (m) a cancel issued from a destructor while its thread unwinds (a producer's guard object), with a credit
    // wait and a reconnect wait parked on the transfer: "every pending … wait reports it", first reason wins
    {
        struct CancelOnDrop(Arc<TransferControl>);
        impl Drop for CancelOnDrop {
            fn drop(&mut self) {
                self.0.cancel("producer panicked");
                self.0.cancel("second thought");
            }
        }
        let tc = TransferControl::with_replay_capacity(2, 8);
        tc.record_sent(2);
        let (tx, rx) = std::sync::mpsc::channel();
        for kind in 0..2u8 {
            let (tc2, tx2) = (tc.clone(), tx.clone());
            std::thread::spawn(move || {
                let r = catch(|| {
                    if kind == 0 {
                        match tc2.wait_for_credit(1, Instant::now() + Duration::from_secs(3600)) {
                            Err(repe::CreditError::Cancelled(r)) => format!("cancelled {}", r),
                            Err(repe::CreditError::Timeout) => "timeout".to_string(),
                            Ok(()) => "granted".to_string(),
                        }
                    } else {
                        match tc2.wait_for_reconnect(Duration::from_secs(3600)) {
                            ReconnectOutcome::Cancelled(r) => format!("cancelled {}", r),
                            ReconnectOutcome::Timeout => "timeout".to_string(),
                            ReconnectOutcome::ResumeReady(_) => "resume".to_string(),
                        }
                    }
                });
                let _ = tx2.send((kind, r.unwrap_or_else(|m| format!("panicked {}", m))));
            });
        }
        std::thread::sleep(Duration::from_millis(30)); // let them park (if they have not, they see the flag on entry)
        let tc3 = tc.clone();
        let _ = std::thread::spawn(move || {
            let _g = CancelOnDrop(tc3);
            panic!("producer failed");
        })
        .join();
        let reason = catch(|| tc.cancel_reason()).unwrap_or(None);
        if reason.as_deref() != Some("producer panicked") {
            fails.push(Fail { sig: "transfer.cancel.not_recorded".into(), detail: format!("cancel(\"producer panicked\") called from a destructor during unwinding left reason {:?}", reason) });
        }
        for _ in 0..2 {
            match rx.recv_timeout(Duration::from_secs(10)) {
                Ok((_, got)) if got == "cancelled producer panicked" => count("sinks.unwind_cancel.wait_reported".to_string()),
                Ok((kind, got)) => fails.push(Fail { sig: "transfer.cancel.wait_wrong_reason".into(), detail: format!("a {} wait parked while a destructor cancelled the transfer during unwinding returned `{}`", if kind == 0 { "credit" } else { "reconnect" }, got) }),
                Err(_) => {
                    fails.push(Fail { sig: "transfer.cancel.wait_not_reported".into(), detail: "a wait parked on the transfer was still parked 10 s after a destructor cancelled it during unwinding".into() });
                    break;
                }
            }
        }
    }
    // (s) + (u) waits that really park for longer than any plausible internal timer (300 ms, 600 ms, 1.1 s; thorough
    // also 2.5 s, 5.5 s, 11 s), all stalls side by side: (1) a caller alone on a full window / with nothing pending
    // can only get Timeout, and nothing changes; (2) the documented loop with blocking waits against a receiver that
    // stalls that long before every ACK (and sends foreign / stale ones meanwhile): the clauses of C11 hold on that
    // path too — acked <= sent, never more than one window (or one chunk) unacknowledged, the final cancel is
    // reported. Whether a parked wait wakes up in time is C12's business: a Timeout in (2) is only counted.
    {
        let stalls: Vec<u64> = if THOROUGH.load(std::sync::atomic::Ordering::Relaxed) { vec![300, 600, 1100, 2500, 5500, 11_000] } else { vec![300, 600, 1100] };
        let (tx, rx) = std::sync::mpsc::channel::<(Vec<String>, Vec<Fail>)>();
        for ms in stalls.iter().copied() {
            let tx = tx.clone();
            std::thread::spawn(move || {
                let mut counts: Vec<String> = vec![];
                let mut fails: Vec<Fail> = vec![];
                let stall = Duration::from_millis(ms);
                let r = catch(|| {
                    // (1) alone
                    let tc = TransferControl::with_replay_capacity(8, 64);
                    tc.push_replay(0, 8, false, vec![7; 8]);
                    tc.record_sent(8);
                    match tc.wait_for_credit(1, Instant::now() + stall) {
                        Ok(()) => fails.push(Fail { sig: "transfer.credit.overgrant".into(), detail: format!("credit(1) granted to a caller parked for up to {} ms with in-flight 8 window 8 and nobody else touching the transfer", ms) }),
                        Err(repe::CreditError::Cancelled(r)) => fails.push(Fail { sig: "transfer.cancel.wait_wrong_reason".into(), detail: format!("a credit wait on a transfer nobody cancelled reported Cancelled({:?})", r) }),
                        Err(repe::CreditError::Timeout) => counts.push(format!("stall.{}ms.credit_timeout", ms)),
                    }
                    match tc.wait_for_reconnect(stall) {
                        ReconnectOutcome::Timeout => counts.push(format!("stall.{}ms.reconnect_timeout", ms)),
                        ReconnectOutcome::ResumeReady(p) => fails.push(Fail { sig: "transfer.reconnect.stale_or_double_delivery".into(), detail: format!("no resume pending, a reconnect wait parked for {} ms returned ResumeReady({})", ms, p.resume_at_offset) }),
                        ReconnectOutcome::Cancelled(r) => fails.push(Fail { sig: "transfer.cancel.wait_wrong_reason".into(), detail: format!("a reconnect wait on a transfer nobody cancelled reported Cancelled({:?})", r) }),
                    }
                    let (s1, a1) = tc.offsets();
                    let ring = tc.replay_chunks_from(0).len();
                    if (s1, a1) != (8, 0) || tc.is_cancelled() {
                        fails.push(Fail { sig: "transfer.ack.foreign_or_stale_changed_state".into(), detail: format!("two waits that timed out after {} ms left offsets ({}, {}), cancelled {}", ms, s1, a1, tc.is_cancelled()) });
                    }
                    if ring != 1 {
                        fails.push(Fail { sig: "transfer.ring.empty_after_push".into(), detail: format!("after two waits that timed out ({} ms) the ring holds {} chunks instead of the one pushed", ms, ring) });
                    }
                    // (2) the documented loop, blocking, against a stalling receiver
                    let tc = TransferControl::with_replay_capacity(8, 64);
                    let rcv = tc.clone();
                    let stop = Arc::new(std::sync::atomic::AtomicBool::new(false));
                    let stop2 = stop.clone();
                    let receiver = std::thread::spawn(move || {
                        while !stop2.load(std::sync::atomic::Ordering::Acquire) {
                            // stalled, but not silent: stale and foreign ACKs keep coming
                            let t0 = Instant::now();
                            while t0.elapsed() < stall && !stop2.load(std::sync::atomic::Ordering::Acquire) {
                                rcv.record_ack(7, u64::MAX);
                                rcv.record_ack(0, 0);
                                std::thread::sleep(Duration::from_millis(5));
                            }
                            let (sent, _) = rcv.offsets();
                            rcv.record_ack(0, sent);
                        }
                    });
                    let mut sent = 0u64;
                    for _chunk in 0..6 {
                        let len = 4u64;
                        match tc.wait_for_credit(len, Instant::now() + stall * 3 + Duration::from_secs(10)) {
                            Ok(()) => {}
                            Err(repe::CreditError::Timeout) => {
                                counts.push(format!("stall.{}ms.loop_credit_timeout", ms));
                                break;
                            }
                            Err(repe::CreditError::Cancelled(r)) => {
                                fails.push(Fail { sig: "transfer.cancel.wait_wrong_reason".into(), detail: format!("the loop's credit wait reported Cancelled({:?}) before anybody cancelled", r) });
                                break;
                            }
                        }
                        tc.push_replay(sent, len, false, vec![1; len as usize]);
                        sent += len;
                        tc.record_sent(sent);
                        let (s, a) = tc.offsets();
                        if a > s {
                            fails.push(Fail { sig: "transfer.inv.acked_gt_sent".into(), detail: format!("blocking loop, receiver stalling {} ms: acked {} > sent {}", ms, a, s) });
                        }
                        if s - a.min(s) > 8 {
                            fails.push(Fail { sig: "transfer.loop.window_exceeded".into(), detail: format!("blocking loop, receiver stalling {} ms: the producer followed the loop but has {} bytes unacknowledged with window 8, chunk 4", ms, s - a.min(s)) });
                        }
                    }
                    counts.push(format!("stall.{}ms.loop_done", ms));
                    tc.cancel("loop over");
                    stop.store(true, std::sync::atomic::Ordering::Release);
                    let _ = receiver.join();
                    match tc.wait_for_credit(4, Instant::now() + stall) {
                        Err(repe::CreditError::Cancelled(r)) if r == "loop over" => {}
                        other => fails.push(Fail { sig: "transfer.cancel.wait_not_reported".into(), detail: format!("after cancel(\"loop over\") the loop's credit wait returned {:?}", other.map_err(|e| e.to_string())) }),
                    }
                });
                if r.is_err() {
                    counts.push(format!("stall.{}ms.panicked", ms));
                }
                let _ = tx.send((counts, fails));
            });
        }
        drop(tx);
        let limit = Duration::from_millis(stalls.iter().max().copied().unwrap_or(0) * 12 + 30_000);
        let t0 = Instant::now();
        let mut got = 0;
        while got < stalls.len() {
            match rx.recv_timeout(limit.saturating_sub(t0.elapsed()).max(Duration::from_millis(1))) {
                Ok((c, f)) => {
                    for k in c {
                        count(format!("sinks.{}", k));
                    }
                    fails.extend(f);
                    got += 1;
                }
                Err(_) => {
                    fails.push(Fail { sig: "transfer.call_never_returned".into(), detail: "a blocking-loop / stall scenario did not finish (a wait with a deadline, or a short critical section, never returned)".into() });
                    break;
                }
            }
        }
    }
    let sink_calls = SINK_CALLS.load(std::sync::atomic::Ordering::Relaxed);
    // registry: `Default`, a key type with a degenerate Hash, boundary keys, re-use of a key after unregister
    let reg: TransferRegistry<ClashKey> = TransferRegistry::default();
    let ctrls: Vec<Arc<TransferControl>> = (0..40).map(|_| TransferControl::new(8)).collect();
    let keys: Vec<u64> = (0..38).chain([u64::MAX - 1, u64::MAX]).collect();
    let mut ok = reg.is_empty();
    for (k, c) in keys.iter().zip(&ctrls) {
        reg.register(ClashKey(*k), c.clone());
    }
    ok &= reg.len() == 40 && keys.iter().zip(&ctrls).all(|(k, c)| reg.get(ClashKey(*k)).map(|x| Arc::ptr_eq(&x, c)).unwrap_or(false));
    ok &= reg.unregister(ClashKey(0)).map(|x| Arc::ptr_eq(&x, &ctrls[0])).unwrap_or(false) && reg.get(ClashKey(0)).is_none() && reg.len() == 39;
    reg.register(ClashKey(0), ctrls[1].clone()); // the key is free again; the same control under two keys
    ok &= reg.get(ClashKey(0)).map(|x| Arc::ptr_eq(&x, &ctrls[1])).unwrap_or(false) && reg.len() == 40;
    let mut snap: Vec<u64> = reg.snapshot().into_iter().map(|(k, _)| k.0).collect();
    snap.sort();
    let mut want = keys.clone();
    want.sort();
    ok &= snap == want;
    if !ok {
        fails.push(Fail { sig: "transfer.registry.map_semantics".into(), detail: "register / get / unregister / snapshot / len / Default do not behave as a map (40 keys with one hash value, keys 0 and u64::MAX, a key re-used after unregister)".into() });
    }
    counts.push(("sinks.send_notify_or_is_connected_calls".into(), sink_calls));
    counts.push(("sinks.scenarios".into(), 1));
    (counts, fails)
}

fn exec_sinks(out: &mut Out, line: &str, res: (Vec<(String, u64)>, Vec<Fail>)) {
    for (k, n) in res.0 {
        out.add(&k, n);
    }
    for f in res.1 {
        if relevant(&f.sig) {
            out.oracle_fail(&f.sig, &f.detail, &[format!("mode {}", mode_name()), line.to_string()]);
        }
    }
}

fn exec_watchdog(out: &mut Out, line: &str, res: (String, Vec<Fail>)) {
    let idx = words(line).get(1).copied().unwrap_or("?").to_string();
    for f in res.1 {
        if relevant(&f.sig) {
            out.oracle_fail(&f.sig, &f.detail, &[format!("mode {}", mode_name()), line.to_string()]);
        }
    }
    out.count("watchdog.scenarios");
    for k in WATCHDOG_NOTE.lock().unwrap().drain(..) {
        out.count(&k);
    }
    out.case(line, &format!("{} {}", idx, res.0), true);
}


// ------------------------------------------------------------------------------------------
// (n) which public entry points of the anchored file does this harness drive? Read `pub fn` (per `impl`) from
// src/stream.rs of the tree under test and compare: anything not in DRIVEN and not in NOT_DRIVEN_BECAUSE is put
// into stats.json (`extra.not_driven`), counted and written to stderr.
// ------------------------------------------------------------------------------------------
const DRIVEN: [&str; 27] = [
    "TransferControl::new", "TransferControl::with_replay_capacity", "TransferControl::set_peer", "TransferControl::peer",
    "TransferControl::push_replay", "TransferControl::replay_chunks_from", "TransferControl::request_resume",
    "TransferControl::wait_for_reconnect", "TransferControl::wait_for_credit", "TransferControl::record_sent",
    "TransferControl::record_ack", "TransferControl::cancel", "TransferControl::is_cancelled", "TransferControl::cancel_reason",
    "TransferControl::advance_to_file", "TransferControl::timestamps", "TransferControl::offsets",
    "TransferRegistry::new", "TransferRegistry::register", "TransferRegistry::unregister", "TransferRegistry::get",
    "TransferRegistry::snapshot", "TransferRegistry::len", "TransferRegistry::is_empty",
    "ResumeRejection::reason", "::spawn_watchdog", "Default for TransferRegistry::default",
];
/// `(entry point, why it is not driven)`
const NOT_DRIVEN_BECAUSE: [(&str, &str); 0] = [];

fn source_entry_points() -> Vec<String> {
    let repo = std::env::var("VERIF_REPO").unwrap_or_else(|_| "/repo".into());
    let text = std::fs::read_to_string(std::path::Path::new(&repo).join("src").join("stream.rs")).unwrap_or_default();
    let text = text.split("#[cfg(test)]").next().unwrap_or("").to_string();
    let mut names: Vec<String> = vec![];
    let mut cur = String::new();
    for line in text.lines() {
        let t = line.trim_end();
        if let Some(rest) = t.strip_prefix("impl") {
            // `impl X {`, `impl<K: …> X<K> {`, `impl<K> Default for X<K> {`
            let mut r = rest.trim_start();
            if r.starts_with('<') {
                let mut depth = 0;
                let mut cut = 0;
                for (i, ch) in r.char_indices() {
                    if ch == '<' { depth += 1 } else if ch == '>' { depth -= 1; if depth == 0 { cut = i + 1; break } }
                }
                r = r[cut..].trim_start();
            }
            let head = r.split('{').next().unwrap_or("").trim();
            let clean = |x: &str| x.split('<').next().unwrap_or("").trim().to_string();
            cur = match head.split_once(" for ") {
                Some((tr, ty)) => format!("{} for {}", clean(tr), clean(ty)),
                None => clean(head),
            };
            continue;
        }
        if t.starts_with('}') || t.starts_with("pub fn ") || t.starts_with("fn ") {
            // back at top level
            if !t.starts_with("pub fn ") { if t.starts_with('}') { cur.clear(); } continue; }
            cur.clear();
        }
        let tt = t.trim_start();
        let public = tt.starts_with("pub fn ") || tt.starts_with("pub async fn ");
        // methods of a trait impl are public without the keyword
        let trait_method = cur.contains(" for ") && (tt.starts_with("fn ") || tt.starts_with("async fn ")) && cur.starts_with("Default");
        if public || trait_method {
            let rest = tt.trim_start_matches("pub ").trim_start_matches("async ").trim_start_matches("fn ");
            let name: String = rest.chars().take_while(|c| c.is_alphanumeric() || *c == '_').collect();
            let full = format!("{}::{}", cur, name);
            if !name.is_empty() && !names.contains(&full) {
                names.push(full);
            }
        }
    }
    names
}

fn entry_point_audit(out: &mut Out) -> Vec<String> {
    let found = source_entry_points();
    let mut missing = vec![];
    for f in &found {
        if !DRIVEN.contains(&f.as_str()) && !NOT_DRIVEN_BECAUSE.iter().any(|(n, _)| n == f) {
            out.count(&format!("entry.NOT_DRIVEN.{}", f));
            missing.push(f.clone());
        }
    }
    out.add("entry.points_in_source", found.len() as u64);
    out.extra.insert("not_driven".into(), serde_json::json!(missing));
    out.extra.insert("driven_but_gone".into(), serde_json::json!(DRIVEN.iter().filter(|d| !found.iter().any(|f| f == *d)).collect::<Vec<_>>()));
    if !missing.is_empty() {
        eprintln!("fam_transfer: public entry points of src/stream.rs NOT DRIVEN by this harness: {:?}", missing);
    }
    missing
}

// ------------------------------------------------------------------------------------------
// random long histories over the 64-bit boundary lattice
// ------------------------------------------------------------------------------------------
fn lattice(r: &mut Rng, near: &[u64]) -> u64 {
    match r.below(10) {
        0 => r.below(6),
        1 | 2 | 3 => {
            let b = *r.pick(near);
            match r.below(5) {
                0 => b,
                1 => b.wrapping_add(1),
                2 => b.wrapping_sub(1),
                3 => b.wrapping_add(r.below(16)),
                _ => b.wrapping_sub(r.below(16)),
            }
        }
        4 => u64::MAX - r.below(4),
        5 => *r.pick(&[1u64 << 31, 1 << 32, (1 << 32) + 1, 1 << 47, 1 << 48, (1 << 48) + 1, 1 << 62, 1 << 63, (1 << 63) + 1]),
        6 => r.boundary(64),
        7 => r.below(64),
        8 => r.below(1 << 20),
        _ => r.next(),
    }
}

fn gen_len(r: &mut Rng, window: u64) -> u64 {
    // chunk lengths are bounded by 2^48 (the property's quantifier)
    let v = match r.below(8) {
        0 => 0,
        1 => 1,
        2 => window,
        3 => window.wrapping_add(1),
        4 => window / 2 + 1,
        5 => 1 << 48,
        6 => r.below(64),
        _ => lattice(r, &[window]),
    };
    v.min(1 << 48)
}

fn gen_body(r: &mut Rng) -> Vec<u8> {
    let n = match r.below(10) {
        0 => 0,
        1 | 2 | 3 => r.below(4) as usize,
        4 | 5 | 6 => r.below(24) as usize,
        7 | 8 => r.below(80) as usize,
        // now and then a body far larger than every small capacity (and than 64 KiB)
        _ => if r.chance(1, 40) { 65_536 + r.below(5000) as usize } else { r.below(600) as usize },
    };
    r.bytes(n)
}

/// chunk lengths for a free-form credit wait: the theorems need no 2^48 bound, so go beyond it too
fn gen_len_any(r: &mut Rng, window: u64) -> u64 {
    if r.chance(1, 10) {
        *r.pick(&[(1u64 << 48) + 1, 1 << 63, u64::MAX - 1, u64::MAX])
    } else {
        gen_len(r, window)
    }
}

/// peer ids: small ones (so that displaced / re-installed peers coincide) and the boundary values
fn gen_peer(r: &mut Rng) -> u64 {
    match r.below(10) {
        0 => 0,
        1 => u64::MAX,
        2 => r.boundary(64),
        _ => r.range(1, 5),
    }
}

/// deadline / timeout code of a wait (see `WAIT_GUARD`); `immediate` = the op log says the wait returns at once
fn wait_code(r: &mut Rng, immediate: bool) -> u8 {
    match r.below(24) {
        0 => 1,
        1 => 2,
        2 | 3 if immediate => 3,
        _ => 0,
    }
}

fn gen_credit(r: &mut Rng, ctl: &Ctl, snap: &Snap, len: u64) -> Op {
    let infl = snap.sent.saturating_sub(snap.acked);
    let immediate = ctl.first_reason.is_some() || infl == 0 || (infl as u128 + len as u128) <= ctl.window as u128;
    match wait_code(r, immediate) {
        0 => Op::Credit(len),
        c => Op::CreditW(len, c),
    }
}

fn gen_reconnect(r: &mut Rng, ctl: &Ctl) -> Op {
    let immediate = ctl.first_reason.is_some() || ctl.expect_pending.is_some();
    match wait_code(r, immediate) {
        0 => Op::Reconnect,
        c => Op::ReconnectW(c),
    }
}

fn gen_file(r: &mut Rng, cur: u32) -> u32 {
    match r.below(8) {
        0 | 1 | 2 | 3 => cur,
        4 => cur.wrapping_add(1),
        5 => cur.wrapping_sub(1),
        6 => *r.pick(&[0u32, 1, u32::MAX]),
        _ => r.next() as u32,
    }
}

/// Next op of a free-form hostile history, biased by what the object currently shows.
fn gen_free(r: &mut Rng, ctl: &Ctl, snap: &Snap, ring_bias: bool) -> Op {
    let near = [snap.sent, snap.acked, ctl.window, snap.sent.saturating_sub(snap.acked)];
    let edge = ctl.log.last().map(|c| c.off.wrapping_add(c.dlen)).unwrap_or(0);
    let k = if ring_bias { r.below(20) } else { r.below(16) };
    match k {
        0 | 1 => Op::Sent(lattice(r, &near)),
        2 => Op::Sent(snap.sent.saturating_add(gen_len(r, ctl.window))),
        3 | 4 | 5 => Op::Ack(gen_file(r, ctl.file), lattice(r, &near)),
        6 | 7 => {
            let len = gen_len_any(r, ctl.window);
            gen_credit(r, ctl, snap, len)
        }
        8 => {
            if r.chance(1, 6) { Op::Cancel(pick_reason(r)) } else { gen_reconnect(r, ctl) }
        }
        9 => {
            if r.chance(1, 3) { Op::Advance(gen_file(r, ctl.file)) } else { Op::SetPeer(gen_peer(r)) }
        }
        10 | 11 | 16 => {
            // resume: ring boundaries, trailing edge, mid-chunk, evicted offsets, hostile values
            let off = match r.below(8) {
                0 | 1 if !snap.ring.is_empty() => r.pick(&snap.ring).off,
                2 => edge,
                3 if !ctl.log.is_empty() => r.pick(&ctl.log).off,
                4 if !snap.ring.is_empty() => {
                    let c = r.pick(&snap.ring);
                    c.off.wrapping_add(r.below(c.dlen.max(1) + 1))
                }
                5 => 0,
                6 => lattice(r, &[edge, snap.sent, snap.acked]),
                _ => edge.wrapping_add(r.below(3)).wrapping_sub(1),
            };
            Op::Resume(gen_peer(r), gen_file(r, ctl.file), off)
        }
        12 | 17 => {
            let off = match r.below(4) {
                0 if !snap.ring.is_empty() => r.pick(&snap.ring).off,
                1 => edge,
                2 => 0,
                _ => lattice(r, &[edge]),
            };
            Op::Replay(off)
        }
        _ => {
            // push: abutting unless we deliberately break the contract (release profile: legal code path;
            // dev profile: trips the debug_assert, rarely exercised)
            let break_contract = if cfg!(debug_assertions) { r.chance(1, 150) } else { r.chance(1, 12) };
            let off = if ctl.log.is_empty() {
                match r.below(6) {
                    0 => lattice(r, &[0]),
                    1 => u64::MAX - r.below(40),
                    _ => 0,
                }
            } else if break_contract {
                edge.wrapping_add(r.range(1, 3))
            } else {
                edge
            };
            let body = gen_body(r);
            let dlen = match r.below(10) {
                0 => 0,
                1 | 2 | 3 | 4 | 5 => body.len() as u64,
                6 => (body.len() as u64).saturating_sub(r.below(4)),
                7 => body.len() as u64 + r.below(4),
                8 => r.below(1 << 20),
                _ => 1 << r.below(49),
            };
            Op::Push(off, dlen, r.chance(1, 10), body)
        }
    }
}

/// Next op of a history in which the producer follows the documented loop
/// (credit -> push -> record_sent(sent+len)) while inbound handlers misbehave.
struct Producer {
    grant: Option<u64>,
    pushed: bool,
    next_off: u64,
}

fn gen_loop(r: &mut Rng, ctl: &Ctl, snap: &Snap, p: &mut Producer) -> Op {
    let near = [snap.sent, snap.acked, ctl.window, snap.sent.saturating_sub(snap.acked)];
    if r.chance(2, 5) {
        // inbound handlers / hostile peer
        return match r.below(10) {
            0 | 1 | 2 => Op::Ack(ctl.file, snap.acked.saturating_add(r.below(ctl.window.saturating_add(2).min(1 << 50)))),
            3 => Op::Ack(ctl.file, snap.sent),
            4 | 5 => Op::Ack(gen_file(r, ctl.file), lattice(r, &near)),
            6 => Op::Resume(gen_peer(r), gen_file(r, ctl.file), if snap.ring.is_empty() { lattice(r, &near) } else { r.pick(&snap.ring).off }),
            7 => gen_reconnect(r, ctl),
            8 => {
                if r.chance(1, 8) { Op::Cancel(pick_reason(r)) } else { Op::Replay(lattice(r, &near)) }
            }
            _ => Op::Ack(ctl.file, u64::MAX - r.below(3)),
        };
    }
    match p.grant {
        None => {
            if r.chance(1, 25) {
                p.next_off = 0;
                return Op::Advance(ctl.file.wrapping_add(1));
            }
            let len = gen_len(r, ctl.window).min(u64::MAX - snap.sent);
            gen_credit(r, ctl, snap, len)
        }
        Some(len) if !p.pushed => {
            p.pushed = true;
            let body = gen_body(r);
            Op::Push(snap.sent, len, false, body)
        }
        Some(len) => Op::Sent(snap.sent + len),
    }
}

fn gen_window(r: &mut Rng) -> u64 {
    match r.below(10) {
        0 => 0,
        1 => 1,
        2 | 3 => r.range(2, 64),
        4 => if r.chance(1, 2) { 1 << 20 } else { (1u64 << 26) - 1 + r.below(3) }, // around DEFAULT_WINDOW_BYTES
        5 => 1 << 48,
        6 => u64::MAX,
        7 => u64::MAX - r.below(3),
        8 => (1 << 63) + r.below(3),
        _ => r.boundary(64),
    }
}

fn gen_capacity(r: &mut Rng) -> u64 {
    match r.below(10) {
        0 => 0,
        1 => 1,
        2 | 3 => r.range(2, 8),
        4 | 5 => r.range(8, 200),
        6 => if r.chance(1, 2) { 4096 } else { 65_535 + r.below(3) },
        7 => u64::MAX,
        8 => if r.chance(1, 2) { 1 << 32 } else { (1u64 << 26) - 1 + r.below(3) }, // around DEFAULT_REPLAY_RING_BYTES
        _ => r.below(2000),
    }
}

/// (g) the same call N times back to back: N from the usual thresholds (8, 16, 64, 256 and their neighbours)
const BURSTS: [u64; 9] = [2, 7, 8, 9, 16, 17, 64, 65, 256];

/// The op to repeat in a burst: a push is re-based so that it abuts what has been pushed so far.
fn burst_op(op: &Op, ctl: &Ctl) -> Option<Op> {
    match op {
        Op::Push(_, d, l, b) => {
            if b.len() > 1000 {
                return None;
            }
            let edge = match ctl.log.last() {
                Some(c) => c.off.checked_add(c.dlen)?,
                None => 0,
            };
            edge.checked_add(*d)?;
            Some(Op::Push(edge, *d, *l, b.clone()))
        }
        o => Some(o.clone()),
    }
}

fn run_random(ex: &mut Exec, out: &mut Out, rng: &mut Rng, histories: usize, max_len: u64, ring_bias: bool, k: &mut u64) {
    // (k) the two knobs of a control crossed at their extremes first, then PRNG-chosen pairs
    let ext = [0u64, 1, u64::MAX];
    let thorough = histories > 1000;
    for hno in 0..histories {
        if out.oracle_failures >= MAX_ORACLE_FAILURES {
            out.count("stopped_early.random");
            return;
        }
        if SEARCH_DEADLINE.get().map(|d| Instant::now() > *d).unwrap_or(false) {
            out.count("stopped_early.search_budget");
            return;
        }
        let rich = hno >= 12 && hno % 3 != 0 && rng.chance(1, 6);
        let line = if rich {
            // room for the prelude's chunks (1-3 wire bytes each), from "just enough" to unbounded
            format!("new {} {} {}", *k, gen_window(rng), *rng.pick(&[24u64, 40, 64, 200, 2000, u64::MAX]))
        } else if hno < 9 {
            format!("new {} {} {}", *k, ext[hno / 3], ext[hno % 3])
        } else if hno < 12 {
            format!("newdef {} {}", *k, ext[hno - 9])
        } else if rng.chance(1, 12) { format!("newdef {} {}", *k, gen_window(rng)) } else { format!("new {} {} {}", *k, gen_window(rng), gen_capacity(rng)) };
        *k += 1;
        out.begin(&line);
        let (obs, nt) = exec_line(ex, out, &line);
        out.case(&line, &obs, nt);
        let looped = hno % 3 == 0;
        // (q) one free-form history in 6 starts with 12-40 chunks already in the ring (small bodies, logical != wire
        // lengths; in the release profile, where that is legal, in a non-sorted order of offsets), so that resumes,
        // evictions of many chunks at once, cancels, advances and contract panics happen on a full ring as well
        if rich {
            let n = rng.range(12, 40);
            let mut off = if rng.chance(1, 4) { lattice(rng, &[0]) >> 1 } else { 0 };
            out.count("rich_prelude.histories");
            for j in 0..n {
                let blen = rng.range(1, 3) as usize;
                let body = rng.bytes(blen);
                let dlen = rng.range(0, 4);
                let unsorted = !cfg!(debug_assertions) && j > 0 && rng.chance(1, 3);
                let o = if unsorted { off.wrapping_sub(rng.range(1, 40)) } else { off };
                let op = Op::Push(o, dlen, false, body);
                let line = op.line(&k.to_string());
                *k += 1;
                out.begin(&line);
                let (obs, nt) = exec_line(ex, out, &line);
                out.case(&line, &obs, nt);
                off = match o.checked_add(dlen) {
                    Some(x) => x,
                    None => break,
                };
                if ex.ctl.poisoned {
                    break;
                }
            }
        }
        let mut prod = Producer { grant: None, pushed: false, next_off: 0 };
        let n = rng.range(max_len / 4, max_len);
        for _ in 0..n {
            if ex.ctl.abandoned {
                break;
            }
            let snap = match ex.ctl.snap() {
                Some(s) => s,
                None => break, // poisoned by a (reported or contract) panic: start a new history
            };
            let op = if looped { gen_loop(rng, &ex.ctl, &snap, &mut prod) } else { gen_free(rng, &ex.ctl, &snap, ring_bias) };
            let line = op.line(&k.to_string());
            *k += 1;
            out.begin(&line);
            ex.twin_now = rng.chance(1, 5);
            let (obs, nt) = exec_line(ex, out, &line);
            ex.twin_now = false;
            if looped {
                // producer bookkeeping from what the real object answered
                match &op.base() {
                    Op::Credit(l) => {
                        prod.grant = if obs.contains(" credit-ok ") { Some(*l) } else { None };
                        prod.pushed = false;
                    }
                    Op::Sent(_) => prod.grant = None,
                    _ => {}
                }
            }
            out.case(&line, &obs, nt);
            // (g) now and then the same call N times in a row; in a loop-following history only calls that
            // do not belong to the producer's own loop
            let inbound = matches!(op.base(), Op::Ack(..) | Op::Resume(..) | Op::Reconnect | Op::Cancel(..) | Op::Replay(..) | Op::Credit(..) | Op::SetPeer(..));
            if rng.chance(1, 40) && (!looped || inbound) && !matches!(op, Op::CreditW(_, 2 | 3) | Op::ReconnectW(2 | 3)) {
                // (a ring of hundreds of chunks is printed in full after every call: keep the longest runs of
                // pushes rare, and the 1000-in-a-row sweep for the calls with short observations, thorough only)
                let is_push = matches!(op, Op::Push(..));
                let n = if thorough && !is_push && rng.chance(1, 12) {
                    1000
                } else if !rng.chance(1, if is_push { 8 } else { 3 }) {
                    *rng.pick(&BURSTS[..8])
                } else {
                    *rng.pick(&BURSTS)
                };
                out.count(&format!("burst.{}.{}", op.kind(), n));
                for _ in 1..n {
                    if ex.ctl.abandoned || ex.ctl.poisoned {
                        break;
                    }
                    let Some(bop) = burst_op(&op, &ex.ctl) else { break };
                    let line = bop.line(&k.to_string());
                    *k += 1;
                    out.begin(&line);
                    ex.twin_now = rng.chance(1, 16);
                    let (obs, nt) = exec_line(ex, out, &line);
                    ex.twin_now = false;
                    out.case(&line, &obs, nt);
                }
                if ex.ctl.abandoned || ex.ctl.poisoned {
                    break;
                }
            }
        }
    }
}

fn main() {
    let args = Args::parse();
    let family = args.extra.first().cloned().unwrap_or_else(|| "credit".into());
    quiet_panics();
    RING_FAMILY.store(family == "ring", std::sync::atomic::Ordering::Relaxed);
    let mut out = Out::new(&args.out);
    let mut rng = Rng::new(args.seed);
    out.config(&format!("mode {}", mode_name()));
    out.extra.insert("build_profile".into(), serde_json::json!(mode_name()));
    start_call_monitor(&args.out);
    if std::env::args().any(|a| a == "--check-entry-points") {
        let missing = entry_point_audit(&mut out);
        println!("entry points of src/stream.rs: {:?}\nnot driven: {:?}", source_entry_points(), missing);
        std::process::exit(if missing.is_empty() { 0 } else { 1 });
    }
    entry_point_audit(&mut out);
    let mut ex = Exec { ctl: Ctl::new(0, 0), hist: vec![format!("mode {}", mode_name()), "new 0 0 0".into()], twin_now: false };
    let mut k: u64 = 0;

    if let Some(ops) = args.replay_ops() {
        for line in ops.into_iter().filter(|l| !l.starts_with("mode ")) {
            out.begin(&line);
            if line.starts_with("enum ") {
                exec_enum(&mut out, &line);
            } else if line.starts_with("watchdog ") {
                let res = watchdog_scenario();
                exec_watchdog(&mut out, &line, res);
            } else if line.starts_with("conc ") {
                // a replay races much longer than a regular run
                exec_conc(&mut out, &line, &ConcCfg { reps: 200_000, budget: Duration::from_secs(20), drop_ns: 40_000 });
            } else if line.starts_with("sinks ") {
                exec_sinks(&mut out, &line, sinks_scenario());
            } else {
                ex.twin_now = true;
                let (obs, nt) = exec_line(&mut ex, &mut out, &line);
                out.case(&line, &obs, nt);
            }
        }
        out.finish();
        return;
    }

    // the watchdog scenario needs seconds of wall-clock (the code floors the tick at 1 s): run it beside the rest
    let wd_thread = if family == "credit" { Some(std::thread::spawn(watchdog_scenario)) } else { None };
    THOROUGH.store(args.thorough() && !args.out.to_string_lossy().ends_with("-search"), std::sync::atomic::Ordering::Relaxed);
    let sinks_thread = std::thread::spawn(sinks_scenario);

    // corpus: F3 (DESIGN.md §9) first
    let corpus: &[&str] = if family == "ring" { &[] } else { &["new c0 8 8", "sent c1 18446744073709551615", "credit c2 1", "new c3 8 8", "sent c4 18446744073709551615", "ack c5 0 5", "credit c6 6"] };
    for line in corpus {
        out.begin(line);
        let (obs, nt) = exec_line(&mut ex, &mut out, line);
        out.case(line, &obs, nt);
    }

    // `check` re-runs the family with the thorough generators when a proof or the correspondence broke and the quick
    // run found no failing input (out dir `…-search`): that search is bounded here — thorough random histories and
    // scenarios, the quick enumerations, and a wall-clock budget — so that a broken tree is reported within minutes
    let search = args.out.to_string_lossy().ends_with("-search");
    if search {
        let _ = SEARCH_DEADLINE.set(Instant::now() + Duration::from_secs(100));
        out.count("search_run");
    }
    let thorough = args.thorough() && !search;
    let enums: Vec<String> = if family == "credit" {
        out.rule = "exhaustive: every op sequence of length <= 4 over alphabet c11 (26 ops: sent 1-3, acks file 0/1 x off 0-3, cancel with reason r0 and with the empty string, advance 0/1, resumes, credit 1-3 with window 2, reconnect, 2 pushes), length <= 7 over the 10-op alphabet c11s (and <= 5 under windows 0, 1, 3, 2^64-1 with capacity 0) and length <= 5 over the 12-op alphabet c11r (cancel with 8 reason strings: r0, the watchdog's \"transfer idle\", the empty string, blanks \" \\t\\n\", 65537 x 'x', non-ASCII incl. a 4-byte scalar, a NUL, \" Transfer Idle \"; credit, reconnect, advance, resume) (thorough: <= 5 / <= 7 / <= 6); random: the first 12 histories cross window and capacity in {0, 1, 2^64-1} (and `new`); one call in 40 is repeated 2-256 times back to back (thorough: up to 1000); cancel reasons drawn from r0-r2 and (one third) those edge strings; histories of <= 200 ops over the 64-bit boundary lattice (values near sent/acked/window, 2^32, 2^48, 2^63, 2^64-k), hostile acks (future, wrong file, u64::MAX), oversized chunks, one third following the documented producer loop. Distinct by op line; non-trivial = the op changed the observable state or returned something other than unit/timeout".into();
        if thorough {
            // c11s stays at the property's own bound (sequences of length <= 7): length 8 (111 M sequences, 200 s
            // of CPU) was what made this tier take 20 min on a busy machine
            let mut v: Vec<String> = vec!["enum e0 c11 5 3".into(), "enum e1 c11s 7 4".into(), "enum e2 c11r 6 3".into()];
            for (i, w) in [0u64, 1, 3, u64::MAX].iter().enumerate() {
                v.push(format!("enum w{} c11s.{} 6 3", i, w));
            }
            v
        } else {
            let mut v: Vec<String> = vec!["enum e0 c11 4 4".into(), "enum e1 c11s 7 4".into(), "enum e2 c11r 5 3".into()];
            for (i, w) in [0u64, 1, 3, u64::MAX].iter().enumerate() {
                v.push(format!("enum w{} c11s.{} 5 3", i, w));
            }
            v
        }
    } else {
        out.rule = "exhaustive: every push/resume/reconnect/advance/cancel/replay sequence of length <= 4 over alphabet c13 (21 ops: chunk sizes 0-2 x wire overhead 0-1, resumes at 0-4 and wrong file) for capacities 0,2,3,2^64-1, length <= 5 for capacity 2, and length <= 7 over the 8-op alphabet c13s for capacities 0,2,3 (thorough: <= 5 for capacities 2 and 3, <= 8 for capacity 2 in the dev profile); random: the first 12 histories cross window and capacity in {0, 1, 2^64-1}; one call in 40 is repeated 2-256 times back to back; histories of <= 200 ops with capacities 0..2^64-1, bodies 0-600 bytes, logical != wire lengths, resumes at ring boundaries / trailing edge / mid-chunk / evicted offsets / hostile values. Distinct by op line; non-trivial = the op changed the observable state or returned something other than unit/timeout".into();
        let inf = u64::MAX;
        if thorough {
            let mut v = vec![];
            for (i, cap) in [0, 2, 3, inf].iter().enumerate() {
                // the 21-op alphabet to length 5 (4.1 M sequences each) for the two capacities where eviction is
                // partial; 0 and 2^64-1 stay at the quick depth
                v.push(format!("enum e{} c13.{} {} 3", i, cap, if *cap == 2 || *cap == 3 { 5 } else { 4 }));
                // the statement's bound (8 operations) once: capacity 2, dev profile (16.7 M sequences); 7 elsewhere
                v.push(format!("enum s{} c13s.{} {} 4", i, cap, if cfg!(debug_assertions) && *cap == 2 { 8 } else { 7 }));
            }
            v
        } else {
            let mut v = vec![];
            for (i, cap) in [0, 2, 3, inf].iter().enumerate() {
                v.push(format!("enum e{} c13.{} 4 3", i, cap));
            }
            v.push("enum e4 c13.2 5 3".into());
            for (i, cap) in [0, 2, 3].iter().enumerate() {
                v.push(format!("enum s{} c13s.{} 7 4", i, cap));
            }
            v
        }
    };
    for line in enums {
        if out.oracle_failures >= MAX_ORACLE_FAILURES {
            out.count("stopped_early.enum");
            break;
        }
        out.begin(&line);
        exec_enum(&mut out, &line);
    }
    let ring_bias = family == "ring";
    let (histories, max_len) = if thorough || search { (3000, 200) } else { (600, 200) };
    run_random(&mut ex, &mut out, &mut rng, histories, max_len, ring_bias, &mut k);

    if let Some(h) = wd_thread {
        let line = "watchdog wd0";
        out.begin(line);
        match h.join() {
            Ok(res) => exec_watchdog(&mut out, line, res),
            Err(_) => out.oracle_fail("transfer.watchdog.scenario_panicked", "the watchdog scenario panicked", &[line.to_string()]),
        }
    }

    {
        let line = "sinks s0";
        match sinks_thread.join() {
            Ok(res) => exec_sinks(&mut out, line, res),
            Err(_) => out.oracle_fail("transfer.sinks.scenario_panicked", "the sink / registry scenario panicked", &[line.to_string()]),
        }
    }

    // concurrent callers: targeted races first, then generated ones
    out.rule.push_str(" | conc: 2-3 threads x 1-3 calls (resume / cancel / advance / ack / sent / credit / reconnect and the reads offsets, is_cancelled, cancel_reason, peer) released from a spin barrier on one real object whose displaced peer's sink takes a few microseconds to drop; the outcome (all return values + final state + what a reconnect wait hands over) must be the outcome of a sequential order respecting program order, decided on the real object's own sequential runs (oracle) and by the model (diff); non-trivial = more than one sequential outcome");
    let (t_reps, t_budget, g_n, g_reps, g_budget) = if thorough { (60_000, 1000, 600, 1500, 100) } else { (12_000, 450, 110, 300, 25) };
    let mut ci = 0;
    for spec in conc_targeted(ring_bias) {
        if out.oracle_failures >= MAX_ORACLE_FAILURES {
            break;
        }
        let line = format!("conc q{} {}", ci, spec);
        ci += 1;
        out.begin(&line);
        exec_conc(&mut out, &line, &ConcCfg { reps: t_reps, budget: Duration::from_millis(t_budget), drop_ns: 40_000 });
    }
    // generated races stop when their share of the wall clock is used (a saturated machine runs fewer specs,
    // never a different verdict)
    let g_wall = Duration::from_secs(if thorough { 40 } else { 9 });
    let g_t0 = Instant::now();
    for _ in 0..g_n {
        if g_t0.elapsed() > g_wall || out.oracle_failures >= MAX_ORACLE_FAILURES {
            out.count("conc.generated_specs_skipped_wall_budget");
            continue;
        }
        let line = format!("conc q{} {}", ci, gen_conc(&mut rng, ring_bias));
        ci += 1;
        out.begin(&line);
        exec_conc(&mut out, &line, &ConcCfg { reps: g_reps, budget: Duration::from_millis(g_budget), drop_ns: 8_000 });
    }
    // (m) shutdown path of the watchdog: its registries were dropped long ago (ticks are at most 5 s)
    if family == "credit" {
        out.add("watchdog.threads_alive_at_end", watchdog_threads_alive());
    }
    out.finish();
}
