//! Family `lifecycle` (C15): real WebSocket servers through `serve_listener`,
//! `serve_listener_with_graceful_drain`, an embedder-owned accept loop with
//! `serve_connection(_with_cancel)(_and_handshake)`, and `adopt_upgraded` over a tokio duplex stream.
//! User callbacks (not source hooks) append to a per-connection trace; a raw tokio-tungstenite client
//! records the order of frames; gated inline handlers and parked off-reader handlers report what
//! `ctx.is_cancelled()` says.  Every wait is on an observable event with a generous watchdog.
//!
//! Op lines (see lean/RepeVerif/Driver/Lifecycle.lean):
//!   group <g> <entry> <nconn> <nctx-effective> <ndisc> <reg> <cap> <drain-mode c|a|-> <nctx-registered>
//!   scen <idx> <phase> <cause> <notifies per connect callback|-> <at|-> <nreq> <got>
use futures_util::{SinkExt, StreamExt};
use repe::constants::ErrorCode;
use repe::server::Router;
use repe::{CallContext, HandshakeContext, NotifyBody, PeerHandle, PeerId, PeerRegistry, SharedWebSocketServer, ShutdownToken, WebSocketServer};
use repe_verif_harness::frames::RawFrame;
use repe_verif_harness::*;
use serde_json::{json, Value};
use std::collections::{BTreeMap, HashMap};
use std::sync::atomic::{AtomicBool, AtomicU64, Ordering};
use std::sync::{Arc, Condvar, Mutex};
use std::time::{Duration, Instant};
use tokio::io::{AsyncRead, AsyncWrite, AsyncWriteExt};
use tokio::sync::mpsc::{unbounded_channel, UnboundedReceiver, UnboundedSender};
use tokio_tungstenite::tungstenite::protocol::Role;
use tokio_tungstenite::tungstenite::Message as WsMsg;
use tokio_tungstenite::WebSocketStream;

/// Watchdog for every wait on an observable event.
const WD: Duration = Duration::from_secs(25);

trait Io: AsyncRead + AsyncWrite + Unpin + Send {}
impl<T: AsyncRead + AsyncWrite + Unpin + Send> Io for T {}
type BoxIo = Box<dyn Io>;
type Ws = WebSocketStream<BoxIo>;

// ---------------------------------------------------------------------------------------------
// scenario description
// ---------------------------------------------------------------------------------------------
#[derive(Clone, Copy, PartialEq, Eq, Debug)]
enum Entry {
    Listener,
    Drain,
    Conn,
    ConnCancel,
    Adopt,
}
impl Entry {
    fn name(self) -> &'static str {
        match self {
            Entry::Listener => "listener",
            Entry::Drain => "drain",
            Entry::Conn => "conn",
            Entry::ConnCancel => "conncancel",
            Entry::Adopt => "adopt",
        }
    }
    fn parse(s: &str) -> Option<Entry> {
        [Entry::Listener, Entry::Drain, Entry::Conn, Entry::ConnCancel, Entry::Adopt].into_iter().find(|e| e.name() == s)
    }
    fn all() -> [Entry; 5] {
        [Entry::Listener, Entry::Drain, Entry::Conn, Entry::ConnCancel, Entry::Adopt]
    }
}

#[derive(Clone, Debug)]
struct GroupCfg {
    g: usize,
    entry: Entry,
    nconn: usize,
    /// handshake-aware connect callbacks that fire (0 when no handshake is handed over)
    nctx: usize,
    /// handshake-aware connect callbacks registered on the builder
    nctx_reg: usize,
    ndisc: usize,
    reg: bool,
    cap: usize,
    /// graceful-drain groups: 'c' = long drain timeout (connections wind down on the cancelled token),
    /// 'a' = zero drain timeout (stragglers are aborted); '-' otherwise
    mode: char,
}
impl GroupCfg {
    fn line(&self) -> String {
        format!("group {} {} {} {} {} {} {} {} {}", self.g, self.entry.name(), self.nconn, self.nctx, self.ndisc, self.reg as u8, self.cap, self.mode, self.nctx_reg)
    }
    fn hs(&self) -> bool {
        self.nctx > 0
    }
}

#[derive(Clone, Debug)]
struct Scen {
    idx: String,
    /// idle | inline | parked | queued | connecting ; for hsfail: path | garbage | eof | stall
    phase: String,
    /// close drop proto protog malformed malformeds malformedl hpanic cpanic cancel abort hsfail
    cause: String,
    notif: Vec<usize>,
    at: Option<usize>,
    nreq: usize,
}
impl Scen {
    fn line(&self, got: usize) -> String {
        let notif = if self.notif.is_empty() { "-".to_string() } else { self.notif.iter().map(|n| n.to_string()).collect::<Vec<_>>().join(",") };
        let at = self.at.map(|a| a.to_string()).unwrap_or("-".into());
        format!("scen {} {} {} {} {} {} {}", self.idx, self.phase, self.cause, notif, at, self.nreq, got)
    }
    fn hsfail(&self) -> bool {
        self.cause == "hsfail"
    }
}

/// Is the strike a cancellation of the connection token's parent?
fn cancel_cause(cfg: &GroupCfg, cause: &str) -> bool {
    cause == "cancel" || (cause == "abort" && cfg.entry == Entry::Drain)
}

fn valid(entry: Entry, mode: char, phase: &str, cause: &str) -> bool {
    match cause {
        "close" | "drop" | "proto" | "protog" | "malformed" | "malformeds" | "malformedl" => true,
        "hpanic" => matches!(phase, "idle" | "inline" | "parked"),
        "cpanic" => phase == "connecting",
        "cancel" => match entry {
            Entry::Drain => mode == 'c',
            Entry::ConnCancel | Entry::Adopt => true,
            _ => false,
        },
        "abort" => match entry {
            Entry::Drain => mode == 'a',
            Entry::Listener => false,
            _ => true,
        },
        _ => false,
    }
}

// ---------------------------------------------------------------------------------------------
// server-side bookkeeping shared by the user callbacks
// ---------------------------------------------------------------------------------------------
struct Gate {
    m: Mutex<bool>,
    cv: Condvar,
}
impl Gate {
    fn new() -> Gate {
        Gate { m: Mutex::new(false), cv: Condvar::new() }
    }
    fn open(&self) {
        *self.m.lock().unwrap() = true;
        self.cv.notify_all();
    }
    fn is_open(&self) -> bool {
        *self.m.lock().unwrap()
    }
    /// Blocks the calling thread. User callbacks run on runtime workers: tell tokio (block_in_place) so the
    /// worker's queued tasks (its LIFO slot cannot be stolen) are handed to another thread meanwhile.
    fn wait(&self, d: Duration) -> bool {
        in_place(|| {
            let g = self.m.lock().unwrap();
            let (g, _) = self.cv.wait_timeout_while(g, d, |open| !*open).unwrap();
            *g
        })
    }
}

fn in_place<T>(f: impl FnOnce() -> T) -> T {
    match tokio::runtime::Handle::try_current() {
        Ok(h) if h.runtime_flavor() == tokio::runtime::RuntimeFlavor::MultiThread => tokio::task::block_in_place(f),
        _ => f(),
    }
}

#[derive(Debug)]
enum Evt {
    Connected,
    Held,
    InlineEntered,
    Parked,
    Big(u64),
    Ended,
    ParkDone,
}

type ProbeTx = std::sync::mpsc::Sender<std::sync::mpsc::Sender<bool>>;

struct ConnRec {
    scen: Scen,
    trace: Mutex<Vec<String>>,
    ev_tx: UnboundedSender<Evt>,
    hold: Gate,
    inline_gate: Gate,
    park_gate: Gate,
    probe: Mutex<Option<ProbeTx>>,
    peer_id: Mutex<Option<u64>>,
    inl: Mutex<Option<bool>>,
    park: Mutex<Option<bool>>,
    big_calls: AtomicU64,
}

struct Shared {
    cfg: GroupCfg,
    peers: Mutex<HashMap<u64, Arc<ConnRec>>>,
    establishing: Mutex<Option<Arc<ConnRec>>>,
    /// callbacks that could not be attributed to an accepted connection of this group
    unknown: AtomicU64,
    registry: Option<PeerRegistry>,
    hs_errors: AtomicU64,
}

impl Shared {
    fn rec_of(&self, id: u64) -> Option<Arc<ConnRec>> {
        self.peers.lock().unwrap().get(&id).cloned()
    }
    fn key(id: u64, u: usize) -> String {
        format!("k{}-{}", id, u)
    }
    fn n_user_connect(&self) -> usize {
        self.cfg.nconn + self.cfg.nctx_reg
    }
    fn registry_present(&self, id: u64, u: Option<usize>) -> bool {
        let reg = self.registry.as_ref().unwrap();
        reg.get(PeerId(id)).map(|h| h.peer_id().0) == Some(id)
            && match u {
                Some(u) => reg.get_by(Self::key(id, u).as_str()).map(|h| h.peer_id().0) == Some(id),
                None => true,
            }
    }
    fn registry_gone(&self, id: u64) -> bool {
        let reg = self.registry.as_ref().unwrap();
        reg.get(PeerId(id)).is_none() && (0..self.n_user_connect()).all(|u| reg.get_by(Self::key(id, u).as_str()).is_none()) && reg.aliases_for(PeerId(id)).is_empty()
    }

    /// user connect callback `u` (plain ones first, then the handshake-aware ones)
    fn on_connect(&self, peer: &PeerHandle, u: usize) {
        let id = peer.peer_id().0;
        let mut rec = self.rec_of(id);
        if rec.is_none() && u == 0 {
            if let Some(r) = self.establishing.lock().unwrap().take() {
                self.peers.lock().unwrap().insert(id, r.clone());
                *r.peer_id.lock().unwrap() = Some(id);
                let _ = r.ev_tx.send(Evt::Connected);
                rec = Some(r);
            }
        }
        let Some(rec) = rec else {
            self.unknown.fetch_add(1, Ordering::SeqCst);
            return;
        };
        let p = if let Some(reg) = &self.registry {
            reg.alias(PeerId(id), Self::key(id, u));
            if self.registry_present(id, Some(u)) { "p" } else { "a" }
        } else {
            "-"
        };
        rec.trace.lock().unwrap().push(format!("c{}:{}", u, p));
        for k in 0..rec.scen.notif.get(u).copied().unwrap_or(0) {
            let body = format!("{{\"h\":{},\"k\":{}}}", u, k);
            let _ = peer.send_notify("/n", NotifyBody::Json(body.into_bytes()));
        }
        if rec.scen.at == Some(u) && rec.scen.phase == "connecting" {
            if rec.scen.cause == "cpanic" {
                panic!("scripted connect-callback panic");
            }
            let _ = rec.ev_tx.send(Evt::Held);
            rec.hold.wait(WD + WD);
        }
    }

    fn on_disconnect(&self, id: PeerId, u: usize) {
        let Some(rec) = self.rec_of(id.0) else {
            self.unknown.fetch_add(1, Ordering::SeqCst);
            return;
        };
        let probe = rec.probe.lock().unwrap().clone();
        let x = match probe {
            Some(tx) => {
                let (rtx, rrx) = std::sync::mpsc::channel();
                if tx.send(rtx).is_ok() {
                    match in_place(|| rrx.recv_timeout(WD)) {
                        Ok(true) => "1",
                        Ok(false) => "0",
                        Err(_) => "t",
                    }
                } else {
                    "t"
                }
            }
            None => "-",
        };
        let p = if self.registry.is_some() { if self.registry_gone(id.0) { "a" } else { "p" } } else { "-" };
        rec.trace.lock().unwrap().push(format!("d{}:{}:{}", u, x, p));
        if u + 1 == self.cfg.ndisc {
            let _ = rec.ev_tx.send(Evt::Ended);
        }
    }
}

fn rec_of_ctx(sh: &Shared, ctx: &CallContext) -> Option<Arc<ConnRec>> {
    ctx.peer().and_then(|p| sh.rec_of(p.peer_id().0))
}

fn make_router(sh: &Arc<Shared>) -> Router {
    let (s1, s2, s3) = (sh.clone(), sh.clone(), sh.clone());
    Router::new()
        .with_json("/echo", |v: Value| Ok(v))
        .with_json("/panic", |_v: Value| -> Result<Value, (ErrorCode, String)> { panic!("scripted inline handler panic") })
        .with_json_ctx("/gate", move |ctx: &CallContext, _v: Value| {
            let Some(rec) = rec_of_ctx(&s1, ctx) else { return Ok(json!("unknown-peer")) };
            let _ = rec.ev_tx.send(Evt::InlineEntered);
            rec.inline_gate.wait(WD + WD);
            if cancel_cause(&s1.cfg, &rec.scen.cause) {
                // the strike cancels the token's parent: wait until this running handler sees it
                let t0 = Instant::now();
                in_place(|| {
                    while !ctx.is_cancelled() && t0.elapsed() < WD {
                        std::thread::sleep(Duration::from_millis(1));
                    }
                });
            }
            *rec.inl.lock().unwrap() = Some(ctx.is_cancelled());
            if rec.scen.cause == "hpanic" {
                panic!("scripted inline handler panic (gated)");
            }
            Ok(json!("gate"))
        })
        .with_json_ctx_blocking("/park", move |ctx: &CallContext, _v: Value| {
            let Some(rec) = rec_of_ctx(&s2, ctx) else { return Ok(json!("unknown-peer")) };
            let (ptx, prx) = std::sync::mpsc::channel::<std::sync::mpsc::Sender<bool>>();
            *rec.probe.lock().unwrap() = Some(ptx);
            let _ = rec.ev_tx.send(Evt::Parked);
            let t0 = Instant::now();
            while !rec.park_gate.is_open() && t0.elapsed() < WD * 3 {
                if let Ok(reply) = prx.recv_timeout(Duration::from_millis(2)) {
                    let _ = reply.send(ctx.is_cancelled());
                }
            }
            *rec.probe.lock().unwrap() = None;
            *rec.park.lock().unwrap() = Some(ctx.is_cancelled());
            let _ = rec.ev_tx.send(Evt::ParkDone);
            Ok(json!("park"))
        })
        .with_json_ctx("/big", move |ctx: &CallContext, v: Value| {
            let size = v.get("size").and_then(|s| s.as_u64()).unwrap_or(1) as usize;
            if let Some(rec) = rec_of_ctx(&s3, ctx) {
                let n = rec.big_calls.fetch_add(1, Ordering::SeqCst) + 1;
                let _ = rec.ev_tx.send(Evt::Big(n));
            }
            Ok(Value::String("x".repeat(size)))
        })
}

fn build_server(sh: &Arc<Shared>) -> WebSocketServer {
    let cfg = &sh.cfg;
    let mut server = WebSocketServer::new(make_router(sh)).with_outbound_capacity(cfg.cap);
    if let Some(reg) = &sh.registry {
        // registered first: its insert is connect hook 0 and its remove is disconnect hook 0
        server = server.with_peer_registry(reg.clone());
    }
    for u in 0..cfg.nconn {
        let s = sh.clone();
        server = server.on_peer_connect(move |peer: PeerHandle| s.on_connect(&peer, u));
    }
    for j in 0..cfg.nctx_reg {
        let s = sh.clone();
        let u = cfg.nconn + j;
        server = server.on_peer_connect_with_handshake(move |peer: &PeerHandle, _hs: &HandshakeContext| s.on_connect(peer, u));
    }
    for u in 0..cfg.ndisc {
        let s = sh.clone();
        server = server.on_peer_disconnect(move |id: PeerId| s.on_disconnect(id, u));
    }
    let s = sh.clone();
    server.on_error(move |e| {
        if matches!(e, repe::ConnectionError::Handshake(_)) {
            s.hs_errors.fetch_add(1, Ordering::SeqCst);
        }
    })
}

// ---------------------------------------------------------------------------------------------
// the group: one server instance, N connections
// ---------------------------------------------------------------------------------------------
struct ConnTask {
    handle: tokio::task::JoinHandle<()>,
    token: ShutdownToken,
}

enum ServerCtl {
    Listener { task: tokio::task::JoinHandle<()>, addr: std::net::SocketAddr },
    Drain { task: Option<tokio::task::JoinHandle<()>>, addr: std::net::SocketAddr },
    Embedder { task: tokio::task::JoinHandle<()>, addr: std::net::SocketAddr, conns: tokio::sync::Mutex<UnboundedReceiver<ConnTask>> },
    Adopt { shared: SharedWebSocketServer },
}

struct Strike {
    n: usize,
    arrived: Mutex<usize>,
    shutdown: Mutex<Option<tokio::sync::oneshot::Sender<()>>>,
    fired_tx: tokio::sync::watch::Sender<bool>,
    fired_rx: tokio::sync::watch::Receiver<bool>,
}
impl Strike {
    /// A connection has either finished or is waiting for the group-wide shutdown.
    fn arrive(&self) {
        let mut a = self.arrived.lock().unwrap();
        *a += 1;
        if *a >= self.n {
            self.fire();
        }
    }
    fn fire(&self) {
        if let Some(tx) = self.shutdown.lock().unwrap().take() {
            let _ = tx.send(());
        }
        let _ = self.fired_tx.send(true);
    }
    async fn wait_fired(&self) {
        let mut rx = self.fired_rx.clone();
        let _ = tokio::time::timeout(WD, rx.wait_for(|v| *v)).await;
    }
}

struct Group {
    sh: Arc<Shared>,
    ctl: ServerCtl,
    /// all connections of the group are in their phase (or already over): strike together
    ready: Strike,
    /// graceful-drain groups: everybody else is finished, fire the one shutdown signal
    strike: Strike,
    establish: tokio::sync::Mutex<()>,
    server_rt: tokio::runtime::Handle,
}

#[derive(Default, Debug)]
struct ConnResult {
    wire: Vec<String>,
    live: String,
    after: String,
    problems: Vec<(String, String)>,
    notes: Vec<String>,
    accepted: bool,
}

fn classify(b: &[u8]) -> String {
    match RawFrame::parse_prefix(b) {
        Some((f, n)) if n == b.len() => {
            if f.h.notify != 0 {
                if f.query == b"/n" {
                    if let Ok(v) = serde_json::from_slice::<Value>(&f.body) {
                        if let (Some(h), Some(k)) = (v.get("h").and_then(|x| x.as_u64()), v.get("k").and_then(|x| x.as_u64())) {
                            return format!("n{}.{}", h, k);
                        }
                    }
                }
                "o0".into()
            } else {
                format!("r{}", f.h.id)
            }
        }
        _ => "bad-frame".into(),
    }
}

fn request(id: u64, path: &str, body: &Value, notify: bool) -> WsMsg {
    let b = serde_json::to_vec(body).unwrap();
    WsMsg::Binary(RawFrame::request(id, notify, 1, path.as_bytes(), 2, &b).to_vec())
}

/// Read frames until `stop` says so, EOF, an error, or the watchdog. Returns true if `stop` fired.
async fn read_frames(ws: &mut Ws, wire: &mut Vec<String>, stop: impl Fn(&str) -> bool) -> Result<bool, &'static str> {
    let deadline = tokio::time::Instant::now() + WD;
    loop {
        match tokio::time::timeout_at(deadline, ws.next()).await {
            Err(_) => return Err("watchdog"),
            Ok(None) => return Ok(false),
            Ok(Some(Err(_))) => return Ok(false),
            Ok(Some(Ok(WsMsg::Binary(b)))) => {
                let c = classify(&b);
                let hit = stop(&c);
                wire.push(c);
                if hit {
                    return Ok(true);
                }
            }
            Ok(Some(Ok(WsMsg::Close(_)))) => {}
            Ok(Some(Ok(_))) => {}
        }
    }
}

async fn wait_evt(rx: &mut UnboundedReceiver<Evt>, pred: impl Fn(&Evt) -> bool) -> bool {
    let deadline = tokio::time::Instant::now() + WD;
    loop {
        match tokio::time::timeout_at(deadline, rx.recv()).await {
            Ok(Some(e)) => {
                if pred(&e) {
                    return true;
                }
            }
            _ => return false,
        }
    }
}

fn set_small_rcvbuf(s: &std::net::TcpStream) {
    use std::os::fd::AsRawFd;
    let v: libc::c_int = 256 * 1024;
    unsafe {
        libc::setsockopt(s.as_raw_fd(), libc::SOL_SOCKET, libc::SO_RCVBUF, &v as *const _ as *const libc::c_void, std::mem::size_of::<libc::c_int>() as libc::socklen_t);
    }
}

impl Group {
    fn addr(&self) -> Option<std::net::SocketAddr> {
        match &self.ctl {
            ServerCtl::Listener { addr, .. } | ServerCtl::Drain { addr, .. } | ServerCtl::Embedder { addr, .. } => Some(*addr),
            ServerCtl::Adopt { .. } => None,
        }
    }

    /// One connection from establishment to its end.
    async fn run_conn(self: Arc<Self>, rec: Arc<ConnRec>, mut ev_rx: UnboundedReceiver<Evt>) -> ConnResult {
        let mut res = ConnResult { live: "-".into(), after: "-".into(), ..Default::default() };
        let cfg = self.sh.cfg.clone();
        let scen = rec.scen.clone();
        let strike_member = cfg.entry == Entry::Drain && (scen.cause == "cancel" || scen.cause == "abort" || scen.phase == "stall");
        let mut arrived = false;
        let mut ready = false;
        let r = self.clone().run_conn_inner(&rec, &mut ev_rx, &mut res, &cfg, &scen, strike_member, &mut arrived, &mut ready).await;
        if let Err(note) = r {
            res.notes.push(note);
        }
        // never leave anything of this connection blocked
        rec.hold.open();
        rec.inline_gate.open();
        rec.park_gate.open();
        if !ready {
            self.ready.arrive();
        }
        if !arrived {
            self.strike.arrive();
        }
        res
    }

    #[allow(clippy::too_many_arguments)]
    async fn run_conn_inner(self: Arc<Self>, rec: &Arc<ConnRec>, ev_rx: &mut UnboundedReceiver<Evt>, res: &mut ConnResult, cfg: &GroupCfg, scen: &Scen, strike_member: bool, arrived: &mut bool, ready: &mut bool) -> Result<(), String> {
        // ---- establish (one connection of the group at a time, so callbacks can be attributed) ----
        let lock = self.establish.lock().await;
        *self.sh.establishing.lock().unwrap() = if scen.hsfail() { None } else { Some(rec.clone()) };
        let mut conn_task: Option<ConnTask> = None;
        let mut raw_tcp: Option<tokio::net::TcpStream> = None;
        let mut ws: Option<Ws> = None;
        match &self.ctl {
            ServerCtl::Adopt { shared } => {
                let buf = if scen.phase == "queued" { 16 * 1024 } else { 256 * 1024 };
                let (client_io, server_io) = tokio::io::duplex(buf);
                let shared = shared.clone();
                let token = ShutdownToken::new();
                let t2 = token.clone();
                let hs = cfg.hs();
                let handle = self.server_rt.spawn(async move {
                    let sws = shared.adopt_upgraded(server_io).await;
                    if hs {
                        let req = repe::tokio_tungstenite::tungstenite::http::Request::builder().uri("/repe?client=7").header("authorization", "token").body(()).unwrap();
                        let ctx = HandshakeContext::from_http_request(&req);
                        let _ = shared.serve_connection_with_cancel_and_handshake(sws, ctx, &t2).await;
                    } else {
                        let _ = shared.serve_connection_with_cancel(sws, &t2).await;
                    }
                });
                conn_task = Some(ConnTask { handle, token });
                let b: BoxIo = Box::new(client_io);
                ws = Some(WebSocketStream::from_raw_socket(b, Role::Client, None).await);
            }
            _ => {
                let addr = self.addr().unwrap();
                let std_s = tokio::time::timeout(WD, tokio::net::TcpStream::connect(addr)).await.map_err(|_| "tcp-connect-watchdog")?.map_err(|e| format!("tcp-connect {e}"))?;
                let std_s = std_s.into_std().map_err(|e| e.to_string())?;
                if scen.phase == "queued" {
                    set_small_rcvbuf(&std_s);
                }
                let s = tokio::net::TcpStream::from_std(std_s).map_err(|e| e.to_string())?;
                if let ServerCtl::Embedder { conns, .. } = &self.ctl {
                    let mut rx = conns.lock().await;
                    conn_task = Some(tokio::time::timeout(WD, rx.recv()).await.map_err(|_| "accept-watchdog")?.ok_or("accept loop gone")?);
                }
                raw_tcp = Some(s);
            }
        }
        if scen.hsfail() {
            // a connection whose handshake fails: no callback may ever fire for it
            let mut s = raw_tcp.take().unwrap();
            let before = self.sh.hs_errors.load(Ordering::SeqCst);
            match scen.phase.as_str() {
                "path" => {
                    let _ = s.write_all(b"GET /not-the-path HTTP/1.1\r\nHost: x\r\nConnection: Upgrade\r\nUpgrade: websocket\r\nSec-WebSocket-Version: 13\r\nSec-WebSocket-Key: dGhlIHNhbXBsZSBub25jZQ==\r\n\r\n").await;
                }
                "garbage" => {
                    let _ = s.write_all(b"\x16\x03\x01 this is not http\r\n\r\n").await;
                }
                "eof" => {
                    let _ = s.shutdown().await;
                }
                _ => {} // stall: say nothing until the drain deadline aborts the task
            }
            drop(lock);
            *ready = true;
            self.ready.arrive();
            if scen.phase == "stall" {
                *arrived = true;
                self.strike.arrive();
                self.strike.wait_fired().await;
            }
            // the server is done with it when it closes the socket
            let mut buf = [0u8; 4096];
            let deadline = tokio::time::Instant::now() + WD;
            loop {
                use tokio::io::AsyncReadExt;
                match tokio::time::timeout_at(deadline, s.read(&mut buf)).await {
                    Ok(Ok(0)) | Ok(Err(_)) => break,
                    Ok(Ok(_)) => {}
                    Err(_) => {
                        res.notes.push("hsfail-eof-watchdog".into());
                        break;
                    }
                }
            }
            if matches!(cfg.entry, Entry::Listener | Entry::Drain) && scen.phase != "stall" {
                // built-in loops report the failure through on_error: wait for it (not part of C15; just a sync point)
                let t0 = Instant::now();
                while self.sh.hs_errors.load(Ordering::SeqCst) == before && t0.elapsed() < Duration::from_secs(5) {
                    tokio::time::sleep(Duration::from_millis(2)).await;
                }
            }
            if let Some(ct) = conn_task {
                let _ = tokio::time::timeout(WD, ct.handle).await;
            }
            return Ok(());
        }
        if let Some(s) = raw_tcp.take() {
            let b: BoxIo = Box::new(s);
            let url = format!("ws://{}/repe?client=7", self.addr().unwrap());
            let (w, _resp) = tokio::time::timeout(WD, tokio_tungstenite::client_async(url, b)).await.map_err(|_| "ws-handshake-watchdog")?.map_err(|e| format!("ws-handshake {e}"))?;
            ws = Some(w);
        }
        let mut ws = ws.unwrap();
        res.accepted = true;
        if !wait_evt(ev_rx, |e| matches!(e, Evt::Connected)).await {
            *self.sh.establishing.lock().unwrap() = None;
            drop(lock);
            res.problems.push(("lifecycle.connect.never".into(), "the first connect callback was not invoked for an accepted connection".into()));
            return Err("no-connect-callback".into());
        }
        drop(lock);
        let id = rec.peer_id.lock().unwrap().unwrap();

        // ---- bring the connection into the phase ----
        let phase = scen.phase.as_str();
        if phase != "connecting" {
            ws.send(request(1, "/echo", &json!(1), false)).await.map_err(|e| format!("send-echo {e}"))?;
            match read_frames(&mut ws, &mut res.wire, |c| c == "r1").await {
                Ok(true) => {}
                other => return Err(format!("echo-not-answered {:?}", other)),
            }
        }
        match phase {
            "inline" => {
                ws.send(request(2, "/gate", &json!(null), false)).await.map_err(|e| format!("send-gate {e}"))?;
                if !wait_evt(ev_rx, |e| matches!(e, Evt::InlineEntered)).await {
                    return Err("inline-handler-not-entered".into());
                }
            }
            "parked" => {
                ws.send(request(2, "/park", &json!(null), false)).await.map_err(|e| format!("send-park {e}"))?;
                if !wait_evt(ev_rx, |e| matches!(e, Evt::Parked)).await {
                    return Err("park-handler-not-entered".into());
                }
            }
            "queued" => {
                // the client stops reading; responses large enough to jam the writer; the channel (capacity
                // `cap`) fills and the reader blocks in `outbound_tx.send`
                let size: u64 = if cfg.entry == Entry::Adopt { 256 * 1024 } else { 1024 * 1024 };
                for j in 0..scen.nreq {
                    ws.feed(request(10 + j as u64, "/big", &json!({ "size": size }), false)).await.map_err(|e| format!("send-big {e}"))?;
                }
                ws.flush().await.map_err(|e| format!("flush-big {e}"))?;
                let want = (cfg.cap as u64 + 2).min(scen.nreq as u64);
                if !wait_evt(ev_rx, |e| matches!(e, Evt::Big(n) if *n >= want)).await {
                    return Err("big-handlers-not-reached".into());
                }
            }
            "connecting" => {
                if scen.cause != "cpanic" {
                    if !wait_evt(ev_rx, |e| matches!(e, Evt::Held)).await {
                        return Err("connect-callback-not-held".into());
                    }
                    // a request pipelined while the connect callbacks are still running: its response must
                    // come after every notify they queue
                    ws.send(request(1, "/echo", &json!(1), false)).await.map_err(|e| format!("send-pipelined-echo {e}"))?;
                }
            }
            _ => {}
        }
        if self.sh.registry.is_some() && phase != "connecting" {
            res.live = if self.sh.registry_present(id, None) && (0..cfg.nconn + cfg.nctx).all(|u| self.sh.registry_present(id, Some(u))) { "p".into() } else { "a".into() };
        }

        // ---- the strike: all connections of the group at once ----
        *ready = true;
        self.ready.arrive();
        self.ready.wait_fired().await;
        let mut ws = Some(ws);
        match scen.cause.as_str() {
            "close" => {
                let _ = ws.as_mut().unwrap().send(WsMsg::Close(None)).await;
            }
            "drop" => {
                drop(ws.take());
            }
            "proto" => {
                let _ = ws.as_mut().unwrap().send(WsMsg::Text("not binary".into())).await;
            }
            "protog" => {
                let w = ws.as_mut().unwrap();
                let _ = w.get_mut().write_all(&[0xFFu8; 24]).await;
                let _ = w.get_mut().flush().await;
            }
            "malformed" => {
                let _ = ws.as_mut().unwrap().send(WsMsg::Binary(vec![1, 2, 3, 4, 5, 6, 7, 8, 9, 10])).await;
            }
            "malformeds" => {
                let mut f = RawFrame::request(77, false, 1, b"/echo", 2, b"1");
                f.h.spec = 0x1234;
                let _ = ws.as_mut().unwrap().send(WsMsg::Binary(f.to_vec())).await;
            }
            "malformedl" => {
                let mut f = RawFrame::request(78, false, 1, b"/echo", 2, b"1");
                f.h.length += 5;
                let _ = ws.as_mut().unwrap().send(WsMsg::Binary(f.to_vec())).await;
            }
            "hpanic" => {
                if phase != "inline" {
                    let _ = ws.as_mut().unwrap().send(request(3, "/panic", &json!(null), false)).await;
                }
            }
            "cpanic" => {}
            "cancel" | "abort" => {
                if strike_member {
                    *arrived = true;
                    self.strike.arrive();
                    self.strike.wait_fired().await;
                } else {
                    let ct = conn_task.as_ref().ok_or("no connection task to strike")?;
                    if scen.cause == "cancel" {
                        ct.token.cancel();
                    } else {
                        ct.handle.abort();
                    }
                }
            }
            other => return Err(format!("unknown cause {other}")),
        }
        // ---- aftermath: let blocked user code go on, resume reading ----
        rec.inline_gate.open();
        rec.hold.open();
        if let Some(w) = ws.as_mut() {
            if let Err(e) = read_frames(w, &mut res.wire, |_| false).await {
                res.notes.push(format!("client-eof-{e}"));
            }
        }
        drop(ws);
        // ---- the end: the last disconnect callback has been invoked ----
        if !wait_evt(ev_rx, |e| matches!(e, Evt::Ended)).await {
            res.problems.push(("lifecycle.disconnect.missing".into(), format!("last disconnect callback not invoked within {:?} after the connection ended ({} / {})", WD, scen.phase, scen.cause)));
        }
        if phase == "parked" {
            rec.park_gate.open();
            if !wait_evt(ev_rx, |e| matches!(e, Evt::ParkDone)).await {
                res.notes.push("park-handler-did-not-finish".into());
            }
        }
        if let Some(ct) = conn_task {
            // embedder-owned task: its completion is a hard synchronisation point
            if tokio::time::timeout(WD, ct.handle).await.is_err() {
                res.notes.push("connection-task-did-not-finish".into());
            }
        }
        if self.sh.registry.is_some() {
            res.after = if self.sh.registry_gone(id) { "a".into() } else { "p".into() };
        }
        Ok(())
    }
}

fn start_group(cfg: GroupCfg, n: usize, server_rt: &tokio::runtime::Runtime) -> Arc<Group> {
    let sh = Arc::new(Shared {
        cfg: cfg.clone(),
        peers: Mutex::new(HashMap::new()),
        establishing: Mutex::new(None),
        unknown: AtomicU64::new(0),
        registry: if cfg.reg { Some(PeerRegistry::new()) } else { None },
        hs_errors: AtomicU64::new(0),
    });
    let server = build_server(&sh);
    let (fired_tx, fired_rx) = tokio::sync::watch::channel(false);
    let mut shutdown_tx = None;
    let h = server_rt.handle().clone();
    let bind = || {
        let l = std::net::TcpListener::bind("127.0.0.1:0").expect("bind");
        l.set_nonblocking(true).unwrap();
        let addr = l.local_addr().unwrap();
        (l, addr)
    };
    let ctl = match cfg.entry {
        Entry::Listener => {
            let (l, addr) = bind();
            let task = h.spawn(async move {
                let l = tokio::net::TcpListener::from_std(l).unwrap();
                let _ = server.serve_listener(l, "/repe").await;
            });
            ServerCtl::Listener { task, addr }
        }
        Entry::Drain => {
            let (l, addr) = bind();
            let (tx, rx) = tokio::sync::oneshot::channel::<()>();
            shutdown_tx = Some(tx);
            let timeout = if cfg.mode == 'a' { Duration::ZERO } else { Duration::from_secs(60) };
            let task = h.spawn(async move {
                let l = tokio::net::TcpListener::from_std(l).unwrap();
                let _ = server
                    .serve_listener_with_graceful_drain(
                        l,
                        "/repe",
                        async {
                            let _ = rx.await;
                        },
                        timeout,
                    )
                    .await;
            });
            ServerCtl::Drain { task: Some(task), addr }
        }
        Entry::Conn | Entry::ConnCancel => {
            let (l, addr) = bind();
            let shared = server.into_shared();
            let (tx, rx) = unbounded_channel::<ConnTask>();
            let with_cancel = cfg.entry == Entry::ConnCancel;
            let hs = cfg.hs();
            let task = h.spawn(async move {
                let l = tokio::net::TcpListener::from_std(l).unwrap();
                loop {
                    let Ok((stream, _)) = l.accept().await else { break };
                    let shared = shared.clone();
                    let token = ShutdownToken::new();
                    let t2 = token.clone();
                    let handle = tokio::spawn(async move {
                        if hs {
                            if let Ok((ws, ctx)) = shared.accept_with_handshake(stream, "/repe").await {
                                if with_cancel {
                                    let _ = shared.serve_connection_with_cancel_and_handshake(ws, ctx, &t2).await;
                                } else {
                                    let _ = shared.serve_connection_with_handshake(ws, ctx).await;
                                }
                            }
                        } else if let Ok(ws) = shared.accept(stream, "/repe").await {
                            if with_cancel {
                                let _ = shared.serve_connection_with_cancel(ws, &t2).await;
                            } else {
                                let _ = shared.serve_connection(ws).await;
                            }
                        }
                    });
                    if tx.send(ConnTask { handle, token }).is_err() {
                        break;
                    }
                }
            });
            ServerCtl::Embedder { task, addr, conns: tokio::sync::Mutex::new(rx) }
        }
        Entry::Adopt => ServerCtl::Adopt { shared: server.into_shared() },
    };
    let (rtx, rrx) = tokio::sync::watch::channel(false);
    Arc::new(Group {
        sh,
        ctl,
        ready: Strike { n, arrived: Mutex::new(0), shutdown: Mutex::new(None), fired_tx: rtx, fired_rx: rrx },
        strike: Strike { n, arrived: Mutex::new(0), shutdown: Mutex::new(shutdown_tx), fired_tx, fired_rx },
        establish: tokio::sync::Mutex::new(()),
        server_rt: h,
    })
}

/// Direct oracles on one connection's record (independent of the model).
fn oracles(cfg: &GroupCfg, scen: &Scen, trace: &[String], res: &ConnResult, inl: Option<bool>, park: Option<bool>) -> Vec<(String, String)> {
    let mut out = Vec::new();
    let mut ccount: BTreeMap<usize, usize> = BTreeMap::new();
    let mut dcount: BTreeMap<usize, usize> = BTreeMap::new();
    let mut last_c: Option<usize> = None;
    let mut first_d: Option<usize> = None;
    for (pos, item) in trace.iter().enumerate() {
        let parts: Vec<&str> = item[1..].split(':').collect();
        let u: usize = parts[0].parse().unwrap_or(999);
        if item.starts_with('c') {
            *ccount.entry(u).or_default() += 1;
            last_c = Some(pos);
            if parts.get(1) == Some(&"a") {
                out.push(("lifecycle.registry.absent_while_connected".into(), format!("inside connect callback {u} the registry does not resolve the peer / its alias; trace {trace:?}")));
            }
        } else {
            *dcount.entry(u).or_default() += 1;
            first_d.get_or_insert(pos);
            if parts.get(1) == Some(&"0") {
                out.push(("lifecycle.order.hook_before_cancel".into(), format!("disconnect callback {u} ran while a parked handler still read is_cancelled() == false; trace {trace:?}")));
            }
        }
    }
    if scen.hsfail() {
        if !trace.is_empty() {
            out.push(("lifecycle.handshake_failure.hooks_fired".into(), format!("callbacks fired for a failed handshake: {trace:?}")));
        }
        return out;
    }
    if !res.accepted {
        return out;
    }
    for (u, n) in &ccount {
        if *n > 1 {
            out.push(("lifecycle.connect.duplicate".into(), format!("connect callback {u} invoked {n} times; trace {trace:?}")));
        }
    }
    for u in 0..cfg.ndisc {
        match dcount.get(&u).copied().unwrap_or(0) {
            1 => {}
            0 => out.push(("lifecycle.disconnect.missing".into(), format!("disconnect callback {u} never invoked ({} / {}); trace {trace:?}", scen.phase, scen.cause))),
            n => out.push(("lifecycle.disconnect.duplicate".into(), format!("disconnect callback {u} invoked {n} times ({} / {}); trace {trace:?}", scen.phase, scen.cause))),
        }
    }
    if let (Some(c), Some(d)) = (last_c, first_d) {
        if c > d {
            out.push(("lifecycle.order.connect_after_disconnect".into(), format!("a connect callback ran after a disconnect callback; trace {trace:?}")));
        }
    }
    if park == Some(false) {
        out.push(("lifecycle.handler.no_cancel_after_end".into(), "a parked off-reader handler read is_cancelled() == false after the last disconnect callback".into()));
    }
    if inl == Some(false) && cancel_cause(cfg, &scen.cause) {
        out.push(("lifecycle.handler.no_cancel_running".into(), "a running inline handler never saw the cancelled token after the embedder cancelled".into()));
    }
    let mut seen_resp: Option<&String> = None;
    for f in &res.wire {
        if f.starts_with('r') {
            seen_resp.get_or_insert(f);
        } else if f.starts_with('n') {
            if let Some(r) = seen_resp {
                out.push(("lifecycle.wire.response_before_connect_notify".into(), format!("response {r} reached the wire before connect-callback notify {f}; wire {:?}", res.wire)));
                break;
            }
        }
    }
    if res.live == "a" {
        out.push(("lifecycle.registry.absent_while_connected".into(), "registry lookups by id / alias failed while the connection was being served".into()));
    }
    if res.after == "p" {
        out.push(("lifecycle.registry.present_after_disconnect".into(), "the peer or one of its aliases still resolves after the disconnect callbacks".into()));
    }
    out
}

async fn run_group(cfg: GroupCfg, scens: Vec<Scen>, server_rt: &tokio::runtime::Runtime, out: &Mutex<Out>, settle: Duration) {
    let group = start_group(cfg.clone(), scens.len(), server_rt);
    let mut recs = Vec::new();
    let mut tasks = Vec::new();
    for sc in &scens {
        let (tx, rx) = unbounded_channel();
        let rec = Arc::new(ConnRec {
            scen: sc.clone(),
            trace: Mutex::new(Vec::new()),
            ev_tx: tx,
            hold: Gate::new(),
            inline_gate: Gate::new(),
            park_gate: Gate::new(),
            probe: Mutex::new(None),
            peer_id: Mutex::new(None),
            inl: Mutex::new(None),
            park: Mutex::new(None),
            big_calls: AtomicU64::new(0),
        });
        recs.push(rec.clone());
        tasks.push(tokio::spawn(group.clone().run_conn(rec, rx)));
    }
    let mut results = Vec::new();
    for t in tasks {
        results.push(t.await.unwrap_or_else(|e| ConnResult { notes: vec![format!("controller-join {e}")], live: "-".into(), after: "-".into(), ..Default::default() }));
    }
    // stop the server
    group.strike.fire();
    match &group.ctl {
        ServerCtl::Listener { task, .. } => task.abort(),
        ServerCtl::Embedder { task, .. } => task.abort(),
        ServerCtl::Drain { .. } | ServerCtl::Adopt { .. } => {}
    }
    let mut drain_returned = true;
    if let Ok(g) = Arc::try_unwrap(group) {
        if let ServerCtl::Drain { task: Some(t), .. } = g.ctl {
            drain_returned = tokio::time::timeout(WD, t).await.is_ok();
        }
        // a late duplicate would show up in the traces read below
        tokio::time::sleep(settle).await;
        let sh = g.sh;
        let unknown = sh.unknown.load(Ordering::SeqCst);
        let mut o = out.lock().unwrap();
        let gl = cfg.line();
        o.config(&gl);
        let lines: Vec<String> = scens.iter().zip(&results).map(|(s, r)| s.line(r.wire.len())).collect();
        let mut replay = vec![gl.clone()];
        replay.extend(lines.iter().cloned());
        if !drain_returned {
            o.count("note.drain-did-not-return");
        }
        if unknown > 0 {
            let nfail = scens.iter().filter(|s| s.hsfail()).count();
            o.oracle_fail(if nfail > 0 { "lifecycle.handshake_failure.hooks_fired" } else { "lifecycle.callbacks.unattributed" }, &format!("{unknown} user callback invocation(s) for a peer that is not an accepted connection of the group (failed handshakes: {})", scens.iter().filter(|s| s.hsfail()).count()), &replay);
        }
        for ((sc, res), (rec, line)) in scens.iter().zip(&results).zip(recs.iter().zip(&lines)) {
            let trace = rec.trace.lock().unwrap().clone();
            let inl = *rec.inl.lock().unwrap();
            let park = *rec.park.lock().unwrap();
            let obs = if sc.hsfail() {
                format!("{} hooks={}", sc.idx, trace.len() as u64 + unknown)
            } else {
                let b = |v: Option<bool>| match v {
                    Some(true) => "1",
                    Some(false) => "0",
                    None => "-",
                };
                format!(
                    "{} trace={} wire={} inl={} park={} live={} after={}",
                    sc.idx,
                    if trace.is_empty() { "-".to_string() } else { trace.join(",") },
                    if res.wire.is_empty() { "-".to_string() } else { res.wire.join(",") },
                    b(inl),
                    b(park),
                    res.live,
                    res.after
                )
            };
            o.count(&format!("entry.{}", cfg.entry.name()));
            o.count(&format!("combo.{}.{}", sc.phase, sc.cause));
            if sc.phase == "queued" {
                o.count(&format!("queued.handlers_run.{}", rec.big_calls.load(Ordering::SeqCst)));
            }
            for n in &res.notes {
                o.count(&format!("note.{}.{}.{}.{}", n.split(' ').next().unwrap_or("x"), cfg.entry.name(), sc.phase, sc.cause));
            }
            let mut fails = res.problems.clone();
            fails.extend(oracles(&cfg, sc, &trace, res, inl, park));
            let mut seen = std::collections::BTreeSet::new();
            for (sig, detail) in fails {
                if seen.insert(sig.clone()) {
                    o.oracle_fail(&sig, &format!("[{} entry={} mode={}] {}", line, cfg.entry.name(), cfg.mode, detail), &replay);
                }
            }
            o.case(line, &obs, true);
        }
    }
}

// ---------------------------------------------------------------------------------------------
// generation
// ---------------------------------------------------------------------------------------------
const PHASES: [&str; 5] = ["idle", "inline", "parked", "queued", "connecting"];
const CAUSES: [&str; 11] = ["close", "drop", "proto", "protog", "malformed", "malformeds", "malformedl", "hpanic", "cpanic", "cancel", "abort"];

fn fill_scen(rng: &mut Rng, cfg: &GroupCfg, idx: String, phase: &str, cause: &str) -> Scen {
    let nuser = cfg.nconn + cfg.nctx;
    if cause == "hsfail" {
        return Scen { idx, phase: phase.into(), cause: cause.into(), notif: vec![], at: None, nreq: 0 };
    }
    // never more notifies than the channel holds: `try_send` must not depend on the writer's progress
    let mut budget = cfg.cap.min(6);
    let notif: Vec<usize> = (0..nuser)
        .map(|_| {
            let n = (rng.below(3) as usize).min(budget);
            budget -= n;
            n
        })
        .collect();
    let at = if phase == "connecting" { Some(rng.below(nuser as u64) as usize) } else { None };
    let nreq = if phase == "queued" { 12 } else { 0 };
    Scen { idx, phase: phase.into(), cause: cause.into(), notif, at, nreq }
}

fn random_cfg(rng: &mut Rng, g: usize, entry: Entry, mode: char, queued: bool) -> GroupCfg {
    let nctx_reg = rng.below(3) as usize;
    // plain serve_connection (no handshake handed over) now and then: the ctx callbacks must not fire
    let hs = match entry {
        Entry::Listener | Entry::Drain => true,
        _ => nctx_reg == 0 || !rng.chance(1, 4),
    };
    GroupCfg {
        g,
        entry,
        nconn: rng.range(1, 3) as usize,
        nctx: if hs { nctx_reg } else { 0 },
        nctx_reg,
        ndisc: rng.range(1, 3) as usize,
        reg: rng.chance(1, 2),
        cap: if queued { 2 } else { 64 },
        mode,
    }
}

struct Plan {
    cfg: GroupCfg,
    scens: Vec<Scen>,
}

fn plan(rng: &mut Rng, thorough: bool) -> Vec<Plan> {
    let mut plans: Vec<Plan> = Vec::new();
    let sizes = [1usize, 2, 3, 4, 6, 8, 12, 16, 24, 32];
    let rounds = if thorough { 40 } else { 4 };
    for round in 0..rounds {
        for entry in Entry::all() {
            let modes: &[char] = if entry == Entry::Drain { &['c', 'a'] } else { &['-'] };
            for &mode in modes {
                // every valid (phase × cause) of this entry, shuffled, cut into groups of varying size
                let mut combos: Vec<(String, String)> = Vec::new();
                for ph in PHASES {
                    for ca in CAUSES {
                        if valid(entry, mode, ph, ca) {
                            combos.push((ph.to_string(), ca.to_string()));
                        }
                    }
                }
                if entry != Entry::Adopt {
                    for kind in ["path", "garbage", "eof"] {
                        combos.push((kind.to_string(), "hsfail".to_string()));
                    }
                    if entry == Entry::Drain && mode == 'a' {
                        combos.push(("stall".to_string(), "hsfail".to_string()));
                    }
                }
                rng.shuffle(&mut combos);
                let (queued, mut rest): (Vec<_>, Vec<_>) = combos.into_iter().partition(|c| c.0 == "queued");
                // queued connections: own groups (small channel), at most 4 at a time
                for chunk in queued.chunks(4) {
                    let g = plans.len();
                    let cfg = random_cfg(rng, g, entry, mode, true);
                    let scens = chunk.iter().enumerate().map(|(i, (p, c))| fill_scen(rng, &cfg, format!("{g}.{i}"), p, c)).collect();
                    plans.push(Plan { cfg, scens });
                }
                let mut si = (round + plans.len()) % sizes.len();
                while !rest.is_empty() {
                    let want = sizes[si % sizes.len()];
                    si += 3;
                    let take = want.min(rest.len());
                    let mut chunk: Vec<_> = rest.drain(..take).collect();
                    // pad a big group with random valid combos so that `want` connections really run concurrently
                    while chunk.len() < want && want >= 12 {
                        let ph = *rng.pick(&PHASES);
                        let ca = *rng.pick(&CAUSES);
                        if ph != "queued" && valid(entry, mode, ph, ca) {
                            chunk.push((ph.to_string(), ca.to_string()));
                        }
                    }
                    let g = plans.len();
                    let cfg = random_cfg(rng, g, entry, mode, false);
                    let scens = chunk.iter().enumerate().map(|(i, (p, c))| fill_scen(rng, &cfg, format!("{g}.{i}"), p, c)).collect();
                    plans.push(Plan { cfg, scens });
                }
            }
        }
    }
    plans
}

fn parse_replay(ops: &[String]) -> Vec<Plan> {
    let mut plans: Vec<Plan> = Vec::new();
    for l in ops {
        let w = words(l);
        match w.first().copied() {
            Some("group") if w.len() >= 10 => {
                let cfg = GroupCfg {
                    g: w[1].parse().unwrap_or(0),
                    entry: Entry::parse(w[2]).expect("entry"),
                    nconn: w[3].parse().unwrap(),
                    nctx: w[4].parse().unwrap(),
                    ndisc: w[5].parse().unwrap(),
                    reg: w[6] == "1",
                    cap: w[7].parse().unwrap(),
                    mode: w[8].chars().next().unwrap_or('-'),
                    nctx_reg: w[9].parse().unwrap(),
                };
                plans.push(Plan { cfg, scens: vec![] });
            }
            Some("scen") if w.len() >= 8 && !plans.is_empty() => {
                let notif = if w[4] == "-" { vec![] } else { w[4].split(',').map(|x| x.parse().unwrap_or(0)).collect() };
                plans.last_mut().unwrap().scens.push(Scen { idx: w[1].into(), phase: w[2].into(), cause: w[3].into(), notif, at: w[5].parse().ok(), nreq: w[6].parse().unwrap_or(0) });
            }
            _ => {}
        }
    }
    plans
}

fn main() {
    let args = Args::parse();
    quiet_panics();
    let mut out = Out::new(&args.out);
    out.rule = "one case = one connection driven through (entry × phase × exit cause) on a real server, 1..32 connections per server instance concurrently; every valid combination of the matrix is generated once per round (quick: 4 rounds, thorough: 40) with random hook counts (1-3 plain, 0-2 handshake-aware connect callbacks, 1-3 disconnect callbacks), registry on/off, notifies per connect callback, the callback the connection is held in / that panics; non-trivial = the connection was accepted or its handshake failed as scripted and its callbacks' trace was compared (all cases)".into();
    let mut rng = Rng::new(args.seed);
    let plans = match args.replay_ops() {
        Some(ops) => parse_replay(&ops),
        None => plan(&mut rng, args.thorough()),
    };
    let server_rt = tokio::runtime::Builder::new_multi_thread().worker_threads(48).max_blocking_threads(256).enable_all().thread_name("srv").build().unwrap();
    let client_rt = tokio::runtime::Builder::new_multi_thread().worker_threads(4).enable_all().thread_name("cli").build().unwrap();
    let settle = Duration::from_millis(if args.thorough() { 60 } else { 30 });
    let out = Mutex::new(out);
    let stop = AtomicBool::new(false);
    client_rt.block_on(async {
        for p in plans {
            if stop.load(Ordering::SeqCst) {
                break;
            }
            {
                let mut o = out.lock().unwrap();
                o.begin(&p.cfg.line());
                o.count(&format!("group.size.{}", p.scens.len()));
            }
            run_group(p.cfg, p.scens, &server_rt, &out, settle).await;
            // a failing input has been found and recorded with its replay: no need to wait out the watchdogs
            // of every later group
            if out.lock().unwrap().oracle_failures > 0 {
                stop.store(true, Ordering::SeqCst);
            }
        }
    });
    let mut out = out.into_inner().unwrap();
    out.extra.insert("entries".into(), json!(["serve_listener", "serve_listener_with_graceful_drain (drain timeout 60 s / 0)", "accept + serve_connection(_with_handshake)", "accept + serve_connection_with_cancel(_and_handshake)", "adopt_upgraded over tokio duplex + serve_connection_with_cancel(_and_handshake)"]));
    out.finish();
    server_rt.shutdown_background();
    client_rt.shutdown_background();
}
