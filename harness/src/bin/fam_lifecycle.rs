//! Family `lifecycle` (C15): real WebSocket servers through `serve_listener`,
//! `serve_listener_with_graceful_drain`, an embedder-owned accept loop with
//! `serve_connection(_with_cancel)(_and_handshake)`, and `adopt_upgraded` over a tokio duplex stream.
//! User callbacks (not source hooks) append to a per-connection trace; a raw tokio-tungstenite client
//! records the order of frames; gated inline handlers and parked off-reader handlers report what
//! `ctx.is_cancelled()` says.  Every wait is on an observable event with a generous watchdog.
//!
//! Op lines (see lean/RepeVerif/Driver/Lifecycle.lean):
//!   group <g> <entry> <nconn> <nctx-effective> <ndisc> <reg> <cap> <drain-mode c|a|-> <nctx-registered>
//!   scen <idx> <phase> <cause> <notifies per connect callback|-> <at|-> <nreq> <got>
use futures_util::{SinkExt, StreamExt};
use repe::constants::ErrorCode;
use repe::server::Router;
use repe::{CallContext, HandshakeContext, NotifyBody, PeerHandle, PeerId, PeerRegistry, SharedWebSocketServer, ShutdownToken, WebSocketServer};
use repe_verif_harness::frames::RawFrame;
use repe_verif_harness::*;
use serde_json::{json, Value};
use std::collections::{BTreeMap, HashMap};
use std::sync::atomic::{AtomicBool, AtomicU64, Ordering};
use std::sync::{Arc, Condvar, Mutex};
use std::time::{Duration, Instant};
use tokio::io::{AsyncRead, AsyncWrite, AsyncWriteExt};
use tokio::sync::mpsc::{unbounded_channel, UnboundedReceiver, UnboundedSender};
use tokio_tungstenite::tungstenite::protocol::Role;
use tokio_tungstenite::tungstenite::Message as WsMsg;
use tokio_tungstenite::WebSocketStream;

/// Watchdog for every wait on an observable event.
const WD: Duration = Duration::from_secs(25);

/// Set when some watchdog has expired: a failing input is on its way into the report already, so every later
/// wait of the run is cut short (a broken tree must not cost one full watchdog per connection and step).
static HANG_SEEN: AtomicBool = AtomicBool::new(false);

static THOROUGH: AtomicBool = AtomicBool::new(false);
fn thorough_tier() -> bool {
    THOROUGH.load(Ordering::SeqCst)
}

fn wd() -> Duration {
    if HANG_SEEN.load(Ordering::SeqCst) { Duration::from_secs(3) } else { WD }
}

fn hang_seen() {
    HANG_SEEN.store(true, Ordering::SeqCst);
}

/// An in-memory stream whose server end can be told to fail its next read or write with a chosen `io::ErrorKind`.
#[derive(Default)]
struct Fault {
    read_err: Mutex<Option<std::io::ErrorKind>>,
    write_err: Mutex<Option<std::io::ErrorKind>>,
    read_waker: Mutex<Option<std::task::Waker>>,
}
impl Fault {
    fn fail_reads(&self, k: std::io::ErrorKind) {
        *self.read_err.lock().unwrap() = Some(k);
        if let Some(w) = self.read_waker.lock().unwrap().take() {
            w.wake();
        }
    }
    fn fail_writes(&self, k: std::io::ErrorKind) {
        *self.write_err.lock().unwrap() = Some(k);
    }
}
struct FaultyIo {
    inner: tokio::io::DuplexStream,
    fault: Arc<Fault>,
}
impl AsyncRead for FaultyIo {
    fn poll_read(mut self: std::pin::Pin<&mut Self>, cx: &mut std::task::Context<'_>, buf: &mut tokio::io::ReadBuf<'_>) -> std::task::Poll<std::io::Result<()>> {
        if let Some(k) = *self.fault.read_err.lock().unwrap() {
            return std::task::Poll::Ready(Err(std::io::Error::new(k, "scripted read failure")));
        }
        *self.fault.read_waker.lock().unwrap() = Some(cx.waker().clone());
        std::pin::Pin::new(&mut self.inner).poll_read(cx, buf)
    }
}
impl AsyncWrite for FaultyIo {
    fn poll_write(mut self: std::pin::Pin<&mut Self>, cx: &mut std::task::Context<'_>, buf: &[u8]) -> std::task::Poll<std::io::Result<usize>> {
        if let Some(k) = *self.fault.write_err.lock().unwrap() {
            return std::task::Poll::Ready(Err(std::io::Error::new(k, "scripted write failure")));
        }
        std::pin::Pin::new(&mut self.inner).poll_write(cx, buf)
    }
    fn poll_flush(mut self: std::pin::Pin<&mut Self>, cx: &mut std::task::Context<'_>) -> std::task::Poll<std::io::Result<()>> {
        std::pin::Pin::new(&mut self.inner).poll_flush(cx)
    }
    fn poll_shutdown(mut self: std::pin::Pin<&mut Self>, cx: &mut std::task::Context<'_>) -> std::task::Poll<std::io::Result<()>> {
        std::pin::Pin::new(&mut self.inner).poll_shutdown(cx)
    }
}

/// The error kinds a transport can hand to the reader / writer (`rerr<k>` / `werr<k>` causes).
const IO_KINDS: [std::io::ErrorKind; 10] = [
    std::io::ErrorKind::ConnectionReset,
    std::io::ErrorKind::ConnectionAborted,
    std::io::ErrorKind::BrokenPipe,
    std::io::ErrorKind::UnexpectedEof,
    std::io::ErrorKind::TimedOut,
    std::io::ErrorKind::InvalidData,
    std::io::ErrorKind::PermissionDenied,
    std::io::ErrorKind::NotConnected,
    std::io::ErrorKind::OutOfMemory,
    std::io::ErrorKind::Other,
];

trait Io: AsyncRead + AsyncWrite + Unpin + Send {}
impl<T: AsyncRead + AsyncWrite + Unpin + Send> Io for T {}
type BoxIo = Box<dyn Io>;
type Ws = WebSocketStream<BoxIo>;

// ---------------------------------------------------------------------------------------------
// scenario description
// ---------------------------------------------------------------------------------------------
#[derive(Clone, Copy, PartialEq, Eq, Debug)]
enum Entry {
    Listener,
    Drain,
    Conn,
    ConnCancel,
    Adopt,
}
impl Entry {
    fn name(self) -> &'static str {
        match self {
            Entry::Listener => "listener",
            Entry::Drain => "drain",
            Entry::Conn => "conn",
            Entry::ConnCancel => "conncancel",
            Entry::Adopt => "adopt",
        }
    }
    fn parse(s: &str) -> Option<Entry> {
        [Entry::Listener, Entry::Drain, Entry::Conn, Entry::ConnCancel, Entry::Adopt].into_iter().find(|e| e.name() == s)
    }
    fn all() -> [Entry; 5] {
        [Entry::Listener, Entry::Drain, Entry::Conn, Entry::ConnCancel, Entry::Adopt]
    }
}

#[derive(Clone, Debug)]
struct GroupCfg {
    g: usize,
    entry: Entry,
    nconn: usize,
    /// handshake-aware connect callbacks that fire (0 when no handshake is handed over)
    nctx: usize,
    /// handshake-aware connect callbacks registered on the builder
    nctx_reg: usize,
    ndisc: usize,
    reg: bool,
    /// how many user connect / disconnect callbacks are registered on the builder BEFORE
    /// `with_peer_registry` (hooks run in registration order)
    regpos: usize,
    cap: usize,
    /// graceful-drain groups: 'c' = long drain timeout (connections wind down on the cancelled token),
    /// 'a' = zero drain timeout (stragglers are aborted), 't' = 30 ms drain timeout; listener groups: 's' =
    /// `serve_listener_with_shutdown` whose shutdown fires while the connections are being served; '-' otherwise
    mode: char,
    /// harness-only knobs (one word on the group line, ignored by the model: the property does not depend on them)
    off: char,           // with_offreader_limit: 'd' not called, '0' unbounded, '1', '4'
    nerr: usize,         // on_error hooks registered (0 = the default stderr path)
    static_accept: bool, // embedder loops: WebSocketServer::accept* (associated fns) instead of SharedWebSocketServer::accept*
    query: u8,           // upgrade request: 0 "?client=7", 1 no query, 2 empty query "?"
    pr: bool,            // adopt: adopt_upgraded_partially_read with the client's first frame handed over as `buffered`
    lim: bool,           // with_limits: 1 MiB inbound frame/message limit (else default limits)
    small_rt: bool,      // the server runs on a runtime with 4 workers and max_blocking_threads(1): one parked
                         // off-reader handler exhausts the blocking pool at the moment the hooks have to run
    frag: usize,         // adopt: capacity of the in-memory stream in bytes (1, 7, 61: every read/write is short and
                         // mostly Pending); 0 = 256 KiB
}
impl GroupCfg {
    fn line(&self) -> String {
        format!(
            "group {} {} {} {} {} {} {} {} {} {} o{}e{}s{}q{}p{}l{}r{}f{}",
            self.g, self.entry.name(), self.nconn, self.nctx, self.ndisc, self.reg as u8, self.cap, self.mode, self.nctx_reg, self.regpos,
            self.off, self.nerr, self.static_accept as u8, self.query, self.pr as u8, self.lim as u8, self.small_rt as u8, self.frag
        )
    }
    fn hs(&self) -> bool {
        self.nctx > 0
    }
    fn query_str(&self) -> &'static str {
        match self.query {
            0 => "?client=7",
            1 => "",
            _ => "?",
        }
    }
    fn limits(&self) -> repe::WebSocketLimits {
        if self.lim {
            repe::WebSocketLimits::default().with_max_incoming_frame_size(Some(1 << 20)).with_max_incoming_message_size(Some(1 << 20))
        } else {
            repe::WebSocketLimits::default()
        }
    }
    fn parse_opts(&mut self, w: &str) {
        let c: Vec<char> = w.chars().collect();
        let at = |k: char| c.iter().position(|x| *x == k).and_then(|i| c.get(i + 1)).copied();
        self.off = at('o').unwrap_or('d');
        self.nerr = at('e').and_then(|x| x.to_digit(10)).unwrap_or(1) as usize;
        self.static_accept = at('s') == Some('1');
        self.query = at('q').and_then(|x| x.to_digit(10)).unwrap_or(0) as u8;
        self.pr = at('p') == Some('1');
        self.lim = at('l') == Some('1');
        self.small_rt = at('r') == Some('1');
        self.frag = w.split('f').nth(1).and_then(|x| x.parse().ok()).unwrap_or(0);
    }
    /// user connect callbacks `u < reg_c()` run before the registry's insert
    fn reg_c(&self) -> usize {
        self.regpos.min(self.nconn)
    }
    /// user disconnect callbacks `u < reg_d()` run before the registry's remove
    fn reg_d(&self) -> usize {
        self.regpos.min(self.ndisc)
    }
}

#[derive(Clone, Debug)]
struct Scen {
    idx: String,
    /// idle | inline | parked | queued | connecting ; for hsfail: path | garbage | eof | stall
    phase: String,
    /// close drop proto protog malformed malformeds malformedl hpanic cpanic cancel abort hsfail
    cause: String,
    notif: Vec<usize>,
    at: Option<usize>,
    nreq: usize,
    /// panic payload of cpanic / hpanic: ' ' String (formatted), 's' &'static str, 'n' a non-string value
    payload: char,
}

fn scripted_panic(payload: char, what: &str) -> ! {
    match payload {
        's' => panic!("scripted panic with a static str payload"),
        'n' => std::panic::panic_any(0xC15u32),
        _ => panic!("scripted {what} panic"),
    }
}

impl Scen {
    fn line(&self, got: usize) -> String {
        let notif = if self.notif.is_empty() { "-".to_string() } else { self.notif.iter().map(|n| n.to_string()).collect::<Vec<_>>().join(",") };
        let at = self.at.map(|a| a.to_string()).unwrap_or("-".into());
        let suffix = if self.payload == ' ' { String::new() } else { self.payload.to_string() };
        format!("scen {} {} {}{} {} {} {} {}", self.idx, self.phase, self.cause, suffix, notif, at, self.nreq, got)
    }
    fn hsfail(&self) -> bool {
        self.cause == "hsfail"
    }
}

/// Is the strike a cancellation of the connection token's parent?
fn cancel_cause(cfg: &GroupCfg, cause: &str) -> bool {
    cause == "cancel" || (cause == "abort" && cfg.entry == Entry::Drain)
}

fn valid(entry: Entry, mode: char, phase: &str, cause: &str) -> bool {
    match cause {
        "late" => false,
        _ if phase == "late" => false,
        "close" | "drop" | "proto" | "protog" | "malformed" | "malformeds" | "malformedl" | "toobig" => true,
        // a scripted error kind from the transport: adopted streams only, while the reader is reading
        "rerr" | "werr" => entry == Entry::Adopt && matches!(phase, "idle" | "parked" | "parkedfut"),
        "hpanic" => matches!(phase, "idle" | "inline" | "parked" | "parkedfut" | "backlog"),
        "cpanic" => phase == "connecting",
        "cancel" => match entry {
            Entry::Drain => mode == 'c',
            Entry::ConnCancel | Entry::Adopt => true,
            _ => false,
        },
        "abort" => match entry {
            Entry::Drain => mode == 'a' || mode == 't',
            Entry::Listener => false,
            _ => true,
        },
        _ => false,
    }
}

// ---------------------------------------------------------------------------------------------
// server-side bookkeeping shared by the user callbacks
// ---------------------------------------------------------------------------------------------
struct Gate {
    m: Mutex<bool>,
    cv: Condvar,
}
impl Gate {
    fn new() -> Gate {
        Gate { m: Mutex::new(false), cv: Condvar::new() }
    }
    fn open(&self) {
        *self.m.lock().unwrap() = true;
        self.cv.notify_all();
    }
    fn is_open(&self) -> bool {
        *self.m.lock().unwrap()
    }
    /// Blocks the calling thread. User callbacks run on runtime workers: tell tokio (block_in_place) so the
    /// worker's queued tasks (its LIFO slot cannot be stolen) are handed to another thread meanwhile.
    fn wait(&self, d: Duration) -> bool {
        in_place(|| {
            let g = self.m.lock().unwrap();
            let (g, _) = self.cv.wait_timeout_while(g, d, |open| !*open).unwrap();
            *g
        })
    }
}

fn in_place<T>(f: impl FnOnce() -> T) -> T {
    match tokio::runtime::Handle::try_current() {
        Ok(h) if h.runtime_flavor() == tokio::runtime::RuntimeFlavor::MultiThread => tokio::task::block_in_place(f),
        _ => f(),
    }
}

#[derive(Debug)]
enum Evt {
    Connected,
    Held,
    InlineEntered,
    Parked,
    Big(u64),
    Ended,
    ParkDone,
}

type ProbeTx = std::sync::mpsc::Sender<std::sync::mpsc::Sender<bool>>;

struct ConnRec {
    scen: Scen,
    trace: Mutex<Vec<String>>,
    ev_tx: UnboundedSender<Evt>,
    hold: Gate,
    inline_gate: Gate,
    park_gate: Gate,
    probe: Mutex<Option<ProbeTx>>,
    peer_id: Mutex<Option<u64>>,
    inl: Mutex<Option<bool>>,
    park: Mutex<Option<bool>>,
    big_calls: AtomicU64,
}

struct Shared {
    cfg: GroupCfg,
    peers: Mutex<HashMap<u64, Arc<ConnRec>>>,
    establishing: Mutex<Option<Arc<ConnRec>>>,
    /// callbacks that could not be attributed to an accepted connection of this group
    unknown: AtomicU64,
    registry: Option<PeerRegistry>,
    hs_errors: AtomicU64,
}

impl Shared {
    fn rec_of(&self, id: u64) -> Option<Arc<ConnRec>> {
        self.peers.lock().unwrap().get(&id).cloned()
    }
    fn key(id: u64, u: usize) -> String {
        format!("k{}-{}", id, u)
    }
    fn n_user_connect(&self) -> usize {
        self.cfg.nconn + self.cfg.nctx_reg
    }
    fn registry_present(&self, id: u64, u: Option<usize>) -> bool {
        let reg = self.registry.as_ref().unwrap();
        reg.get(PeerId(id)).map(|h| h.peer_id().0) == Some(id)
            && match u {
                Some(u) => reg.get_by(Self::key(id, u).as_str()).map(|h| h.peer_id().0) == Some(id),
                None => true,
            }
    }
    fn registry_gone(&self, id: u64) -> bool {
        let reg = self.registry.as_ref().unwrap();
        reg.get(PeerId(id)).is_none() && (0..self.n_user_connect()).all(|u| reg.get_by(Self::key(id, u).as_str()).is_none()) && reg.aliases_for(PeerId(id)).is_empty()
    }
    /// fully present: the handle and every alias a connect callback registered (those that ran after the insert)
    fn registry_full(&self, id: u64) -> bool {
        self.registry_present(id, None) && (self.cfg.reg_c()..self.cfg.nconn + self.cfg.nctx).all(|u| self.registry_present(id, Some(u)))
    }

    /// user connect callback `u` (plain ones first, then the handshake-aware ones)
    fn on_connect(&self, peer: &PeerHandle, u: usize) {
        let id = peer.peer_id().0;
        let mut rec = self.rec_of(id);
        if rec.is_none() && u == 0 {
            if let Some(r) = self.establishing.lock().unwrap().take() {
                self.peers.lock().unwrap().insert(id, r.clone());
                *r.peer_id.lock().unwrap() = Some(id);
                let _ = r.ev_tx.send(Evt::Connected);
                rec = Some(r);
            }
        }
        let Some(rec) = rec else {
            self.unknown.fetch_add(1, Ordering::SeqCst);
            return;
        };
        let p = if let Some(reg) = &self.registry {
            reg.alias(PeerId(id), Self::key(id, u));
            if self.registry_present(id, Some(u)) { "p" } else { "a" }
        } else {
            "-"
        };
        rec.trace.lock().unwrap().push(format!("c{}:{}", u, p));
        for k in 0..rec.scen.notif.get(u).copied().unwrap_or(0) {
            let body = format!("{{\"h\":{},\"k\":{}}}", u, k);
            let _ = peer.send_notify("/n", NotifyBody::Json(body.into_bytes()));
        }
        if rec.scen.at == Some(u) && rec.scen.phase == "connecting" {
            if rec.scen.cause == "cpanic" {
                scripted_panic(rec.scen.payload, "connect-callback");
            }
            let _ = rec.ev_tx.send(Evt::Held);
            rec.hold.wait(WD + WD);
        }
    }

    fn on_disconnect(&self, id: PeerId, u: usize) {
        let Some(rec) = self.rec_of(id.0) else {
            self.unknown.fetch_add(1, Ordering::SeqCst);
            return;
        };
        let probe = rec.probe.lock().unwrap().clone();
        let x = match probe {
            Some(tx) => {
                let (rtx, rrx) = std::sync::mpsc::channel();
                if tx.send(rtx).is_ok() {
                    match in_place(|| rrx.recv_timeout(WD)) {
                        Ok(true) => "1",
                        Ok(false) => "0",
                        Err(_) => "t",
                    }
                } else {
                    "t"
                }
            }
            None => "-",
        };
        let p = if self.registry.is_some() {
            if self.registry_gone(id.0) {
                "a"
            } else if self.registry_full(id.0) {
                "p"
            } else {
                "x"
            }
        } else {
            "-"
        };
        rec.trace.lock().unwrap().push(format!("d{}:{}:{}", u, x, p));
        if u + 1 == self.cfg.ndisc {
            let _ = rec.ev_tx.send(Evt::Ended);
        }
    }
}

fn rec_of_ctx(sh: &Shared, ctx: &CallContext) -> Option<Arc<ConnRec>> {
    ctx.peer().and_then(|p| sh.rec_of(p.peer_id().0))
}

fn make_router(sh: &Arc<Shared>) -> Router {
    let (s1, s2, s3, s4) = (sh.clone(), sh.clone(), sh.clone(), sh.clone());
    Router::new()
        .with_json("/echo", |v: Value| Ok(v))
        .with_json("/len", |v: Value| Ok(json!(v.as_str().map(|s| s.len()))))
        .with_json("/panic", |v: Value| -> Result<Value, (ErrorCode, String)> { scripted_panic(v.get("k").and_then(|k| k.as_str()).and_then(|k| k.chars().next()).unwrap_or(' '), "inline handler") })
        .with_json_ctx("/gate", move |ctx: &CallContext, _v: Value| {
            let Some(rec) = rec_of_ctx(&s1, ctx) else { return Ok(json!("unknown-peer")) };
            let _ = rec.ev_tx.send(Evt::InlineEntered);
            rec.inline_gate.wait(WD + WD);
            if cancel_cause(&s1.cfg, &rec.scen.cause) {
                // the strike cancels the token's parent: wait until this running handler sees it
                let t0 = Instant::now();
                in_place(|| {
                    while !ctx.is_cancelled() && t0.elapsed() < wd() {
                        std::thread::sleep(Duration::from_millis(1));
                    }
                });
            }
            *rec.inl.lock().unwrap() = Some(ctx.is_cancelled());
            if rec.scen.cause == "hpanic" {
                scripted_panic(rec.scen.payload, "gated inline handler");
            }
            Ok(json!("gate"))
        })
        .with_json_ctx_blocking("/park", move |ctx: &CallContext, _v: Value| {
            let Some(rec) = rec_of_ctx(&s2, ctx) else { return Ok(json!("unknown-peer")) };
            let (ptx, prx) = std::sync::mpsc::channel::<std::sync::mpsc::Sender<bool>>();
            *rec.probe.lock().unwrap() = Some(ptx);
            let _ = rec.ev_tx.send(Evt::Parked);
            let t0 = Instant::now();
            while !rec.park_gate.is_open() && t0.elapsed() < WD * 3 {
                if let Ok(reply) = prx.recv_timeout(Duration::from_millis(2)) {
                    let _ = reply.send(ctx.is_cancelled());
                }
            }
            *rec.probe.lock().unwrap() = None;
            *rec.park.lock().unwrap() = Some(ctx.is_cancelled());
            let _ = rec.ev_tx.send(Evt::ParkDone);
            Ok(json!("park"))
        })
        .with_json_ctx_blocking("/parkfut", move |ctx: &CallContext, _v: Value| {
            // parked on the `cancelled()` FUTURE (not polling the flag): must be woken when the connection ends.
            // The timer arm is polled first, so once it fires the verdict is "not woken" even though a fresh poll
            // of `cancelled()` would now be ready.
            let Some(rec) = rec_of_ctx(&s4, ctx) else { return Ok(json!("unknown-peer")) };
            let _ = rec.ev_tx.send(Evt::Parked);
            let fut = ctx.cancelled();
            let woke = tokio::runtime::Handle::current().block_on(async move {
                tokio::select! {
                    biased;
                    _ = tokio::time::sleep(WD * 3) => false,
                    _ = fut => true,
                }
            });
            *rec.park.lock().unwrap() = Some(woke && ctx.is_cancelled());
            let _ = rec.ev_tx.send(Evt::ParkDone);
            Ok(json!("parkfut"))
        })
        .with_json_ctx("/big", move |ctx: &CallContext, v: Value| {
            let size = v.get("size").and_then(|s| s.as_u64()).unwrap_or(1) as usize;
            if let Some(rec) = rec_of_ctx(&s3, ctx) {
                let n = rec.big_calls.fetch_add(1, Ordering::SeqCst) + 1;
                let _ = rec.ev_tx.send(Evt::Big(n));
            }
            Ok(Value::String("x".repeat(size)))
        })
}

fn build_server(sh: &Arc<Shared>) -> WebSocketServer {
    let cfg = &sh.cfg;
    let mut server = WebSocketServer::new(make_router(sh));
    if cfg.cap != 256 {
        server = server.with_outbound_capacity(cfg.cap); // 256 = DEFAULT_OUTBOUND_CAPACITY: the builder is not called
    }
    server = match cfg.off {
        '0' => server.with_offreader_limit(0),
        '1' => server.with_offreader_limit(1),
        '4' => server.with_offreader_limit(4),
        _ => server,
    };
    if cfg.lim {
        server = server.with_limits(cfg.limits());
    }
    // hooks run in registration order: `regpos` user callbacks of each kind come before the registry's own
    for u in 0..cfg.reg_c() {
        let s = sh.clone();
        server = server.on_peer_connect(move |peer: PeerHandle| s.on_connect(&peer, u));
    }
    for u in 0..cfg.reg_d() {
        let s = sh.clone();
        server = server.on_peer_disconnect(move |id: PeerId| s.on_disconnect(id, u));
    }
    if let Some(reg) = &sh.registry {
        server = server.with_peer_registry(reg.clone());
    }
    for u in cfg.reg_c()..cfg.nconn {
        let s = sh.clone();
        server = server.on_peer_connect(move |peer: PeerHandle| s.on_connect(&peer, u));
    }
    for j in 0..cfg.nctx_reg {
        let s = sh.clone();
        let u = cfg.nconn + j;
        server = server.on_peer_connect_with_handshake(move |peer: &PeerHandle, _hs: &HandshakeContext| s.on_connect(peer, u));
    }
    for u in cfg.reg_d()..cfg.ndisc {
        let s = sh.clone();
        server = server.on_peer_disconnect(move |id: PeerId| s.on_disconnect(id, u));
    }
    for _ in 0..cfg.nerr {
        let s = sh.clone();
        server = server.on_error(move |e| {
            if matches!(e, repe::ConnectionError::Handshake(_)) {
                s.hs_errors.fetch_add(1, Ordering::SeqCst);
            }
        });
    }
    server
}

// ---------------------------------------------------------------------------------------------
// the group: one server instance, N connections
// ---------------------------------------------------------------------------------------------
struct ConnTask {
    handle: tokio::task::JoinHandle<()>,
    token: ShutdownToken,
}

enum ServerCtl {
    Listener { task: tokio::task::JoinHandle<()>, addr: std::net::SocketAddr },
    Drain { task: Option<tokio::task::JoinHandle<()>>, addr: std::net::SocketAddr },
    Embedder { task: tokio::task::JoinHandle<()>, addr: std::net::SocketAddr, conns: tokio::sync::Mutex<UnboundedReceiver<ConnTask>> },
    Adopt { shared: SharedWebSocketServer },
}

struct Strike {
    n: usize,
    arrived: Mutex<usize>,
    shutdown: Mutex<Option<tokio::sync::oneshot::Sender<()>>>,
    fired_tx: tokio::sync::watch::Sender<bool>,
    fired_rx: tokio::sync::watch::Receiver<bool>,
}
impl Strike {
    /// A connection has either finished or is waiting for the group-wide shutdown.
    fn arrive(&self) {
        let mut a = self.arrived.lock().unwrap();
        *a += 1;
        if *a >= self.n {
            self.fire();
        }
    }
    fn fire(&self) {
        if let Some(tx) = self.shutdown.lock().unwrap().take() {
            let _ = tx.send(());
        }
        let _ = self.fired_tx.send(true);
    }
    async fn wait_fired(&self) {
        let mut rx = self.fired_rx.clone();
        let _ = tokio::time::timeout(wd(), rx.wait_for(|v| *v)).await;
    }
}

struct Group {
    sh: Arc<Shared>,
    ctl: ServerCtl,
    /// all connections of the group are in their phase (or already over): strike together
    ready: Strike,
    /// graceful-drain groups: everybody else is finished, fire the one shutdown signal
    strike: Strike,
    establish: tokio::sync::Mutex<()>,
    server_rt: tokio::runtime::Handle,
}

#[derive(Default, Debug)]
struct ConnResult {
    wire: Vec<String>,
    live: String,
    after: String,
    problems: Vec<(String, String)>,
    notes: Vec<String>,
    accepted: bool,
    /// what the parked handler reported by the time the connection was over (+ watchdog)
    park: Option<bool>,
}

fn classify(b: &[u8]) -> String {
    match RawFrame::parse_prefix(b) {
        Some((f, n)) if n == b.len() => {
            if f.h.notify != 0 {
                if f.query == b"/n" {
                    if let Ok(v) = serde_json::from_slice::<Value>(&f.body) {
                        if let (Some(h), Some(k)) = (v.get("h").and_then(|x| x.as_u64()), v.get("k").and_then(|x| x.as_u64())) {
                            return format!("n{}.{}", h, k);
                        }
                    }
                }
                "o0".into()
            } else {
                format!("r{}", f.h.id)
            }
        }
        _ => "bad-frame".into(),
    }
}

fn request(id: u64, path: &str, body: &Value, notify: bool) -> WsMsg {
    let b = serde_json::to_vec(body).unwrap();
    WsMsg::Binary(RawFrame::request(id, notify, 1, path.as_bytes(), 2, &b).to_vec())
}

/// Read frames until `stop` says so, EOF, an error, or the watchdog. Returns true if `stop` fired.
async fn read_frames(ws: &mut Ws, wire: &mut Vec<String>, stop: impl Fn(&str) -> bool) -> Result<bool, &'static str> {
    let deadline = tokio::time::Instant::now() + wd();
    loop {
        match tokio::time::timeout_at(deadline, ws.next()).await {
            Err(_) => {
                hang_seen();
                return Err("watchdog");
            }
            Ok(None) => return Ok(false),
            Ok(Some(Err(_))) => return Ok(false),
            Ok(Some(Ok(WsMsg::Binary(b)))) => {
                let c = classify(&b);
                let hit = stop(&c);
                wire.push(c);
                if hit {
                    return Ok(true);
                }
            }
            Ok(Some(Ok(WsMsg::Close(_)))) => {}
            Ok(Some(Ok(_))) => {}
        }
    }
}

async fn wait_evt(rx: &mut UnboundedReceiver<Evt>, pred: impl Fn(&Evt) -> bool) -> bool {
    let deadline = tokio::time::Instant::now() + wd();
    loop {
        match tokio::time::timeout_at(deadline, rx.recv()).await {
            Ok(Some(e)) => {
                if pred(&e) {
                    return true;
                }
            }
            _ => {
                hang_seen();
                return false;
            }
        }
    }
}

fn set_small_rcvbuf(s: &std::net::TcpStream) {
    use std::os::fd::AsRawFd;
    let v: libc::c_int = 256 * 1024;
    unsafe {
        libc::setsockopt(s.as_raw_fd(), libc::SOL_SOCKET, libc::SO_RCVBUF, &v as *const _ as *const libc::c_void, std::mem::size_of::<libc::c_int>() as libc::socklen_t);
    }
}

impl Group {
    fn addr(&self) -> Option<std::net::SocketAddr> {
        match &self.ctl {
            ServerCtl::Listener { addr, .. } | ServerCtl::Drain { addr, .. } | ServerCtl::Embedder { addr, .. } => Some(*addr),
            ServerCtl::Adopt { .. } => None,
        }
    }

    /// One connection from establishment to its end.
    async fn run_conn(self: Arc<Self>, rec: Arc<ConnRec>, mut ev_rx: UnboundedReceiver<Evt>) -> ConnResult {
        let mut res = ConnResult { live: "-".into(), after: "-".into(), ..Default::default() };
        let cfg = self.sh.cfg.clone();
        let scen = rec.scen.clone();
        let strike_member = cfg.entry == Entry::Drain && (scen.cause == "cancel" || scen.cause == "abort" || scen.phase == "stall");
        let mut arrived = false;
        let mut ready = false;
        // (overall safety net: nothing in the controller may wait for ever)
        let t_start = Instant::now();
        let r = tokio::time::timeout(WD * 5, self.clone().run_conn_inner(&rec, &mut ev_rx, &mut res, &cfg, &scen, strike_member, &mut arrived, &mut ready)).await;
        match r {
            Ok(Err(note)) => res.notes.push(note),
            Err(_) => {
                hang_seen();
                res.notes.push("controller-watchdog".into());
            }
            Ok(Ok(())) => {}
        }
        if std::env::var("LC_TRACE").is_ok() && t_start.elapsed() > Duration::from_secs(2) {
            eprintln!("SLOWCONN {:?} {} | {}", t_start.elapsed(), scen.line(0), cfg.line());
        }
        // never leave anything of this connection blocked
        rec.hold.open();
        rec.inline_gate.open();
        rec.park_gate.open();
        if !ready {
            self.ready.arrive();
        }
        if !arrived {
            self.strike.arrive();
        }
        res
    }

    #[allow(clippy::too_many_arguments)]
    async fn run_conn_inner(self: Arc<Self>, rec: &Arc<ConnRec>, ev_rx: &mut UnboundedReceiver<Evt>, res: &mut ConnResult, cfg: &GroupCfg, scen: &Scen, strike_member: bool, arrived: &mut bool, ready: &mut bool) -> Result<(), String> {
        // ---- establish (one connection of the group at a time, so callbacks can be attributed) ----
        let lock = self.establish.lock().await;
        *self.sh.establishing.lock().unwrap() = if scen.hsfail() { None } else { Some(rec.clone()) };
        let mut conn_task: Option<ConnTask> = None;
        let mut echo_sent = false;
        let fault = Arc::new(Fault::default());
        let mut raw_tcp: Option<tokio::net::TcpStream> = None;
        let mut ws: Option<Ws> = None;
        match &self.ctl {
            ServerCtl::Adopt { shared } => {
                let buf = if scen.phase == "queued" || scen.phase == "backlog" {
                    16 * 1024
                } else if cfg.frag > 0 && matches!(scen.phase.as_str(), "idle" | "parked" | "parkedfut" | "late") {
                    // (only while the server's reader is reading: a client send into a full 1-byte pipe whose other end
                    // is held in a callback or a gated handler would wait for the strike that comes after it)
                    cfg.frag
                } else {
                    256 * 1024
                };
                let (client_io, server_io) = tokio::io::duplex(buf);
                let server_io = FaultyIo { inner: server_io, fault: fault.clone() };
                let shared = shared.clone();
                let token = ShutdownToken::new();
                if scen.phase == "late" {
                    // a connection served under a token that has been cancelled already
                    token.cancel();
                }
                let t2 = token.clone();
                let hs = cfg.hs();
                let uri = format!("/repe{}", cfg.query_str());
                let pr = cfg.pr && scen.phase != "connecting" && scen.phase != "late";
                let (go_tx, go_rx) = tokio::sync::oneshot::channel::<()>();
                let handle = self.server_rt.spawn(async move {
                    let mut server_io = server_io;
                    let sws = if pr {
                        // the framework read past the upgrade request: hand the client's first frame over separately
                        use tokio::io::AsyncReadExt;
                        let _ = go_rx.await;
                        let mut buffered = vec![0u8; 4096];
                        let n = server_io.read(&mut buffered).await.unwrap_or(0);
                        buffered.truncate(n);
                        shared.adopt_upgraded_partially_read(server_io, buffered).await
                    } else {
                        shared.adopt_upgraded(server_io).await
                    };
                    if hs {
                        let req = repe::tokio_tungstenite::tungstenite::http::Request::builder().uri(uri.as_str()).header("authorization", "token").body(()).unwrap();
                        let ctx = HandshakeContext::from_http_request(&req);
                        let _ = shared.serve_connection_with_cancel_and_handshake(sws, ctx, &t2).await;
                    } else {
                        let _ = shared.serve_connection_with_cancel(sws, &t2).await;
                    }
                });
                conn_task = Some(ConnTask { handle, token });
                let b: BoxIo = Box::new(client_io);
                let mut w: Ws = WebSocketStream::from_raw_socket(b, Role::Client, None).await;
                // (the go signal first: through a 1-byte pipe the send only completes while the server is reading)
                let _ = go_tx.send(());
                if pr {
                    tokio::time::timeout(wd(), w.send(request(1, "/echo", &json!(1), false))).await.map_err(|_| "send-early-echo-watchdog")?.map_err(|e| format!("send-early-echo {e}"))?;
                    echo_sent = true;
                }
                ws = Some(w);
            }
            _ => {
                let addr = self.addr().unwrap();
                let std_s = tokio::time::timeout(wd(), tokio::net::TcpStream::connect(addr)).await.map_err(|_| "tcp-connect-watchdog")?.map_err(|e| format!("tcp-connect {e}"))?;
                let std_s = std_s.into_std().map_err(|e| e.to_string())?;
                if scen.phase == "queued" {
                    set_small_rcvbuf(&std_s);
                }
                let s = tokio::net::TcpStream::from_std(std_s).map_err(|e| e.to_string())?;
                if let ServerCtl::Embedder { conns, .. } = &self.ctl {
                    let mut rx = conns.lock().await;
                    conn_task = Some(tokio::time::timeout(wd(), rx.recv()).await.map_err(|_| "accept-watchdog")?.ok_or("accept loop gone")?);
                }
                raw_tcp = Some(s);
            }
        }
        if scen.hsfail() {
            // a connection whose handshake fails: no callback may ever fire for it
            let mut s = raw_tcp.take().unwrap();
            let before = self.sh.hs_errors.load(Ordering::SeqCst);
            match scen.phase.as_str() {
                "path" => {
                    let _ = s.write_all(b"GET /not-the-path HTTP/1.1\r\nHost: x\r\nConnection: Upgrade\r\nUpgrade: websocket\r\nSec-WebSocket-Version: 13\r\nSec-WebSocket-Key: dGhlIHNhbXBsZSBub25jZQ==\r\n\r\n").await;
                }
                "garbage" => {
                    let _ = s.write_all(b"\x16\x03\x01 this is not http\r\n\r\n").await;
                }
                "eof" => {
                    let _ = s.shutdown().await;
                }
                _ => {} // stall: say nothing until the drain deadline aborts the task
            }
            drop(lock);
            *ready = true;
            self.ready.arrive();
            if scen.phase == "stall" {
                *arrived = true;
                self.strike.arrive();
                self.strike.wait_fired().await;
            }
            // the server is done with it when it closes the socket
            let mut buf = [0u8; 4096];
            let deadline = tokio::time::Instant::now() + wd();
            loop {
                use tokio::io::AsyncReadExt;
                match tokio::time::timeout_at(deadline, s.read(&mut buf)).await {
                    Ok(Ok(0)) | Ok(Err(_)) => break,
                    Ok(Ok(_)) => {}
                    Err(_) => {
                        res.notes.push("hsfail-eof-watchdog".into());
                        break;
                    }
                }
            }
            if matches!(cfg.entry, Entry::Listener | Entry::Drain) && scen.phase != "stall" && cfg.nerr > 0 {
                // built-in loops report the failure through on_error: wait for it (not part of C15; just a sync point)
                let t0 = Instant::now();
                while self.sh.hs_errors.load(Ordering::SeqCst) < before + cfg.nerr as u64 && t0.elapsed() < Duration::from_secs(5) {
                    tokio::time::sleep(Duration::from_millis(2)).await;
                }
            }
            if let Some(ct) = conn_task {
                let _ = tokio::time::timeout(wd(), ct.handle).await;
            }
            return Ok(());
        }
        if let Some(s) = raw_tcp.take() {
            let b: BoxIo = Box::new(s);
            let url = format!("ws://{}/repe{}", self.addr().unwrap(), cfg.query_str());
            let (w, _resp) = tokio::time::timeout(wd(), tokio_tungstenite::client_async(url, b)).await.map_err(|_| "ws-handshake-watchdog")?.map_err(|e| format!("ws-handshake {e}"))?;
            ws = Some(w);
        }
        let mut ws = ws.unwrap();
        res.accepted = true;
        if !wait_evt(ev_rx, |e| matches!(e, Evt::Connected)).await {
            *self.sh.establishing.lock().unwrap() = None;
            drop(lock);
            res.problems.push(("lifecycle.connect.never".into(), "the first connect callback was not invoked for an accepted connection".into()));
            return Err("no-connect-callback".into());
        }
        drop(lock);
        let id = rec.peer_id.lock().unwrap().unwrap();

        // ---- bring the connection into the phase ----
        let phase = scen.phase.as_str();
        if phase != "connecting" && phase != "late" {
            if !echo_sent {
                ws.send(request(1, "/echo", &json!(1), false)).await.map_err(|e| format!("send-echo {e}"))?;
            }
            match read_frames(&mut ws, &mut res.wire, |c| c == "r1").await {
                Ok(true) => {}
                other => return Err(format!("echo-not-answered {:?}", other)),
            }
        }
        match phase {
            "inline" => {
                ws.send(request(2, "/gate", &json!(null), false)).await.map_err(|e| format!("send-gate {e}"))?;
                if !wait_evt(ev_rx, |e| matches!(e, Evt::InlineEntered)).await {
                    return Err("inline-handler-not-entered".into());
                }
            }
            "parkedfut" => {
                ws.send(request(2, "/parkfut", &json!(null), false)).await.map_err(|e| format!("send-parkfut {e}"))?;
                if !wait_evt(ev_rx, |e| matches!(e, Evt::Parked)).await {
                    return Err("parkfut-handler-not-entered".into());
                }
            }
            "parkedsat" => {
                // off-reader limit 1: the parked handler holds the only permit; a second off-reader request takes the
                // saturation path (refused with an error response, C16) on this same connection
                ws.send(request(2, "/park", &json!(null), false)).await.map_err(|e| format!("send-park {e}"))?;
                if !wait_evt(ev_rx, |e| matches!(e, Evt::Parked)).await {
                    return Err("park-handler-not-entered".into());
                }
                ws.send(request(5, "/park", &json!(null), false)).await.map_err(|e| format!("send-park2 {e}"))?;
                match read_frames(&mut ws, &mut res.wire, |c| c == "r5").await {
                    Ok(true) => {}
                    other => return Err(format!("saturated-request-not-answered {:?}", other)),
                }
            }
            "parked" => {
                ws.send(request(2, "/park", &json!(null), false)).await.map_err(|e| format!("send-park {e}"))?;
                if !wait_evt(ev_rx, |e| matches!(e, Evt::Parked)).await {
                    return Err("park-handler-not-entered".into());
                }
            }
            "queued" | "backlog" => {
                // the client stops reading; responses large enough to jam the writer.  `queued`: the channel
                // (capacity 1-2) fills and the reader blocks in `outbound_tx.send`; `backlog`: the channel has
                // room (capacity 64), the writer is suspended mid-send with frames queued behind it and the
                // reader is idle in `next()`
                let size: u64 = if cfg.entry == Entry::Adopt { 256 * 1024 } else { 1024 * 1024 };
                for j in 0..scen.nreq {
                    ws.feed(request(10 + j as u64, "/big", &json!({ "size": size }), false)).await.map_err(|e| format!("send-big {e}"))?;
                }
                ws.flush().await.map_err(|e| format!("flush-big {e}"))?;
                let want = if phase == "backlog" { scen.nreq as u64 } else { (cfg.cap as u64 + 2).min(scen.nreq as u64) };
                if !wait_evt(ev_rx, |e| matches!(e, Evt::Big(n) if *n >= want)).await {
                    return Err("big-handlers-not-reached".into());
                }
            }
            "connecting" => {
                if scen.cause != "cpanic" {
                    if !wait_evt(ev_rx, |e| matches!(e, Evt::Held)).await {
                        return Err("connect-callback-not-held".into());
                    }
                    // a request pipelined while the connect callbacks are still running: its response must
                    // come after every notify they queue
                    ws.send(request(1, "/echo", &json!(1), false)).await.map_err(|e| format!("send-pipelined-echo {e}"))?;
                }
            }
            _ => {}
        }
        if self.sh.registry.is_some() && phase != "connecting" && phase != "late" {
            res.live = if self.sh.registry_full(id) { "p".into() } else { "a".into() };
        }

        // ---- the strike: all connections of the group at once ----
        *ready = true;
        self.ready.arrive();
        self.ready.wait_fired().await;
        let mut ws = Some(ws);
        match scen.cause.as_str() {
            "close" => {
                let _ = tokio::time::timeout(wd(), ws.as_mut().unwrap().send(WsMsg::Close(None))).await;
            }
            "drop" => {
                drop(ws.take());
            }
            "proto" => {
                let _ = tokio::time::timeout(wd(), ws.as_mut().unwrap().send(WsMsg::Text("not binary".into()))).await;
            }
            "protog" => {
                let w = ws.as_mut().unwrap();
                let _ = tokio::time::timeout(wd(), async {
                    let _ = w.get_mut().write_all(&[0xFFu8; 24]).await;
                    let _ = w.get_mut().flush().await;
                })
                .await;
            }
            "rerr" => {
                fault.fail_reads(IO_KINDS[scen.nreq % IO_KINDS.len()]);
            }
            "werr" => {
                // the writer's next write fails: it exits and the channel closes; the reader notices when it has a
                // response to send
                fault.fail_writes(IO_KINDS[scen.nreq % IO_KINDS.len()]);
                let _ = tokio::time::timeout(wd(), ws.as_mut().unwrap().send(request(3, "/echo", &json!(3), false))).await;
                let _ = tokio::time::timeout(wd(), ws.as_mut().unwrap().send(request(4, "/echo", &json!(4), false))).await;
                // (should the second response be queued before the writer has hit its error, the Close ends it)
                let _ = tokio::time::timeout(wd(), ws.as_mut().unwrap().send(WsMsg::Close(None))).await;
            }
            "toobig" => {
                // (r) the positive sibling first: a frame just below the limit is served
                let near = "y".repeat((1 << 20) - 64 * 1024);
                let _ = tokio::time::timeout(wd(), ws.as_mut().unwrap().send(request(4, "/len", &json!(near), false))).await;
                match read_frames(ws.as_mut().unwrap(), &mut res.wire, |c| c == "r4").await {
                    Ok(true) => {}
                    _ => res.notes.push("near-limit-frame-not-answered".into()),
                }
                // larger than the server's inbound message limit (1 MiB in `lim` groups): tungstenite refuses it
                let _ = tokio::time::timeout(wd(), ws.as_mut().unwrap().send(WsMsg::Binary(vec![0u8; 3 << 20]))).await;
            }
            "malformed" => {
                let _ = tokio::time::timeout(wd(), ws.as_mut().unwrap().send(WsMsg::Binary(vec![1, 2, 3, 4, 5, 6, 7, 8, 9, 10]))).await;
            }
            "malformeds" => {
                let mut f = RawFrame::request(77, false, 1, b"/echo", 2, b"1");
                f.h.spec = 0x1234;
                let _ = tokio::time::timeout(wd(), ws.as_mut().unwrap().send(WsMsg::Binary(f.to_vec()))).await;
            }
            "malformedl" => {
                let mut f = RawFrame::request(78, false, 1, b"/echo", 2, b"1");
                f.h.length += 5;
                let _ = tokio::time::timeout(wd(), ws.as_mut().unwrap().send(WsMsg::Binary(f.to_vec()))).await;
            }
            "hpanic" => {
                if phase != "inline" {
                    let _ = tokio::time::timeout(wd(), ws.as_mut().unwrap().send(request(3, "/panic", &json!({ "k": scen.payload.to_string() }), false))).await;
                }
            }
            "cpanic" => {}
            "cancel" | "abort" => {
                if strike_member {
                    *arrived = true;
                    self.strike.arrive();
                    self.strike.wait_fired().await;
                } else {
                    let ct = conn_task.as_ref().ok_or("no connection task to strike")?;
                    if scen.cause == "cancel" {
                        ct.token.cancel();
                    } else {
                        ct.handle.abort();
                    }
                }
            }
            other => return Err(format!("unknown cause {other}")),
        }
        // ---- aftermath: let blocked user code go on, resume reading ----
        rec.inline_gate.open();
        rec.hold.open();
        // the writer is jammed (the client is not reading) and the token was cancelled: the disconnect
        // callbacks must run when the reader's block is left, not after the writer has been awaited
        let mut ended = false;
        if (phase == "queued" && scen.cause == "cancel") || (phase == "backlog" && scen.cause != "drop") {
            ended = wait_evt(ev_rx, |e| matches!(e, Evt::Ended)).await;
            if !ended {
                res.problems.push(("lifecycle.disconnect.after_writer_drain".into(), format!("the connection ended ({}) while the writer is suspended in a send to a peer that keeps its socket open without reading: the disconnect callbacks did not run within {:?} (they wait for the writer or for the queue)", scen.cause, WD)));
            }
        }
        if let Some(w) = ws.as_mut() {
            if let Err(e) = read_frames(w, &mut res.wire, |_| false).await {
                res.notes.push(format!("client-eof-{e}"));
            }
        }
        drop(ws);
        // ---- the end: the last disconnect callback has been invoked ----
        if !ended && !wait_evt(ev_rx, |e| matches!(e, Evt::Ended)).await {
            res.problems.push(("lifecycle.disconnect.missing".into(), format!("last disconnect callback not invoked within {:?} after the connection ended ({} / {})", WD, scen.phase, scen.cause)));
        }
        if phase == "parked" || phase == "parkedfut" || phase == "parkedsat" {
            rec.park_gate.open();
            // the handler's verdict is the observable (its ParkDone event may already have been consumed: a handler
            // waiting on `cancelled()` finishes before the disconnect callbacks do)
            let t0 = Instant::now();
            while rec.park.lock().unwrap().is_none() && t0.elapsed() < wd() {
                tokio::time::sleep(Duration::from_millis(1)).await;
            }
            let verdict = *rec.park.lock().unwrap();
            if verdict.is_none() {
                res.notes.push("park-handler-did-not-finish".into());
            }
            // freeze it: the connection is over; a handler that wakes later than the watchdog was not woken
            res.park = Some(verdict.unwrap_or(false));
        }
        if let Some(ct) = conn_task {
            // embedder-owned task: its completion is a hard synchronisation point
            if tokio::time::timeout(wd(), ct.handle).await.is_err() {
                res.notes.push("connection-task-did-not-finish".into());
            }
        }
        if self.sh.registry.is_some() {
            // the registry's own remove may be the LAST disconnect hook (registered after every user callback):
            // wait for the eviction as an event
            let t0 = Instant::now();
            while !self.sh.registry_gone(id) && t0.elapsed() < wd() {
                tokio::time::sleep(Duration::from_millis(1)).await;
            }
            res.after = if self.sh.registry_gone(id) { "a".into() } else { "p".into() };
        }
        Ok(())
    }
}

fn start_group(cfg: GroupCfg, n: usize, server_rt: &tokio::runtime::Runtime) -> Arc<Group> {
    let sh = Arc::new(Shared {
        cfg: cfg.clone(),
        peers: Mutex::new(HashMap::new()),
        establishing: Mutex::new(None),
        unknown: AtomicU64::new(0),
        registry: if cfg.reg { Some(PeerRegistry::new()) } else { None },
        hs_errors: AtomicU64::new(0),
    });
    let server = build_server(&sh);
    let (fired_tx, fired_rx) = tokio::sync::watch::channel(false);
    let mut shutdown_tx = None;
    let mut ready_shutdown = None;
    let h = server_rt.handle().clone();
    let bind = || {
        let l = std::net::TcpListener::bind("127.0.0.1:0").expect("bind");
        l.set_nonblocking(true).unwrap();
        let addr = l.local_addr().unwrap();
        (l, addr)
    };
    let ctl = match cfg.entry {
        Entry::Listener => {
            let (l, addr) = bind();
            let with_shutdown = cfg.mode == 's';
            let (tx, rx) = tokio::sync::oneshot::channel::<()>();
            if with_shutdown {
                // fired when every connection of the group is in its phase: the accept loop returns, the
                // already-accepted connections are detached and must go on unaffected
                ready_shutdown = Some(tx);
            }
            let task = h.spawn(async move {
                let l = tokio::net::TcpListener::from_std(l).unwrap();
                if with_shutdown {
                    let _ = server
                        .serve_listener_with_shutdown(l, "/repe", async {
                            let _ = rx.await;
                        })
                        .await;
                } else {
                    let _ = server.serve_listener(l, "/repe").await;
                }
            });
            ServerCtl::Listener { task, addr }
        }
        Entry::Drain => {
            let (l, addr) = bind();
            let (tx, rx) = tokio::sync::oneshot::channel::<()>();
            shutdown_tx = Some(tx);
            let timeout = match cfg.mode {
                'a' => Duration::ZERO,
                't' => Duration::from_millis(30),
                _ => Duration::from_secs(60),
            };
            let task = h.spawn(async move {
                let l = tokio::net::TcpListener::from_std(l).unwrap();
                let _ = server
                    .serve_listener_with_graceful_drain(
                        l,
                        "/repe",
                        async {
                            let _ = rx.await;
                        },
                        timeout,
                    )
                    .await;
            });
            ServerCtl::Drain { task: Some(task), addr }
        }
        Entry::Conn | Entry::ConnCancel => {
            let (l, addr) = bind();
            let shared = server.into_shared();
            let (tx, rx) = unbounded_channel::<ConnTask>();
            let with_cancel = cfg.entry == Entry::ConnCancel;
            let hs = cfg.hs();
            let (stat, lim, limits) = (cfg.static_accept, cfg.lim, cfg.limits());
            let task = h.spawn(async move {
                let l = tokio::net::TcpListener::from_std(l).unwrap();
                loop {
                    let Ok((stream, _)) = l.accept().await else { break };
                    let shared = shared.clone();
                    let token = ShutdownToken::new();
                    let t2 = token.clone();
                    let handle = tokio::spawn(async move {
                        if hs {
                            let acc = if stat && lim { WebSocketServer::accept_with_handshake_and_limits(stream, "/repe", limits).await } else if stat { WebSocketServer::accept_with_handshake(stream, "/repe").await } else { shared.accept_with_handshake(stream, "/repe").await };
                            if let Ok((ws, ctx)) = acc {
                                if with_cancel {
                                    let _ = shared.serve_connection_with_cancel_and_handshake(ws, ctx, &t2).await;
                                } else {
                                    let _ = shared.serve_connection_with_handshake(ws, ctx).await;
                                }
                            }
                        } else if let Ok(ws) = if stat && lim { WebSocketServer::accept_with_limits(stream, "/repe", limits).await } else if stat { WebSocketServer::accept(stream, "/repe").await } else { shared.accept(stream, "/repe").await } {
                            if with_cancel {
                                let _ = shared.serve_connection_with_cancel(ws, &t2).await;
                            } else {
                                let _ = shared.serve_connection(ws).await;
                            }
                        }
                    });
                    if tx.send(ConnTask { handle, token }).is_err() {
                        break;
                    }
                }
            });
            ServerCtl::Embedder { task, addr, conns: tokio::sync::Mutex::new(rx) }
        }
        Entry::Adopt => ServerCtl::Adopt { shared: server.into_shared() },
    };
    let (rtx, rrx) = tokio::sync::watch::channel(false);
    Arc::new(Group {
        sh,
        ctl,
        ready: Strike { n, arrived: Mutex::new(0), shutdown: Mutex::new(ready_shutdown), fired_tx: rtx, fired_rx: rrx },
        strike: Strike { n, arrived: Mutex::new(0), shutdown: Mutex::new(shutdown_tx), fired_tx, fired_rx },
        establish: tokio::sync::Mutex::new(()),
        server_rt: h,
    })
}

/// Direct oracles on one connection's record (independent of the model).
fn oracles(cfg: &GroupCfg, scen: &Scen, trace: &[String], res: &ConnResult, inl: Option<bool>, park: Option<bool>) -> Vec<(String, String)> {
    let mut out = Vec::new();
    let mut ccount: BTreeMap<usize, usize> = BTreeMap::new();
    let mut dcount: BTreeMap<usize, usize> = BTreeMap::new();
    let mut last_c: Option<usize> = None;
    let mut first_d: Option<usize> = None;
    for (pos, item) in trace.iter().enumerate() {
        let parts: Vec<&str> = item[1..].split(':').collect();
        let u: usize = parts[0].parse().unwrap_or(999);
        if item.starts_with('c') {
            *ccount.entry(u).or_default() += 1;
            last_c = Some(pos);
            if parts.get(1) == Some(&"a") && u >= cfg.reg_c() {
                out.push(("lifecycle.registry.absent_while_connected".into(), format!("inside connect callback {u} (registered after with_peer_registry) the registry does not resolve the peer / its alias; trace {trace:?}")));
            }
        } else {
            *dcount.entry(u).or_default() += 1;
            first_d.get_or_insert(pos);
            // (only if the registry's insert ran at all: a connect-callback panic before it leaves nothing to evict)
            let inserted = !(scen.cause == "cpanic" && scen.at.is_some_and(|a| a < cfg.reg_c()));
            if parts.get(2) == Some(&"a") && u < cfg.reg_d() && inserted {
                out.push(("lifecycle.registry.evicted_before_earlier_disconnect_callback".into(), format!("disconnect callback {u} was registered before with_peer_registry, yet inside it the peer or its aliases are already gone; trace {trace:?}")));
            }
            if parts.get(1) == Some(&"0") {
                out.push(("lifecycle.order.hook_before_cancel".into(), format!("disconnect callback {u} ran while a parked handler still read is_cancelled() == false; trace {trace:?}")));
            }
        }
    }
    let idxs = |c: char| -> Vec<usize> { trace.iter().filter(|i| i.starts_with(c)).filter_map(|i| i[1..].split(':').next().and_then(|x| x.parse().ok())).collect() };
    for (kind, v) in [("connect", idxs('c')), ("disconnect", idxs('d'))] {
        if v.windows(2).any(|w| w[0] > w[1]) {
            out.push(("lifecycle.order.callbacks_out_of_registration_order".into(), format!("{kind} callbacks ran in the order {v:?}, not in registration order (plain connect callbacks first, then the handshake-aware ones); trace {trace:?}")));
        }
    }
    if scen.hsfail() {
        if !trace.is_empty() {
            out.push(("lifecycle.handshake_failure.hooks_fired".into(), format!("callbacks fired for a failed handshake: {trace:?}")));
        }
        return out;
    }
    if !res.accepted {
        return out;
    }
    for (u, n) in &ccount {
        if *n > 1 {
            out.push(("lifecycle.connect.duplicate".into(), format!("connect callback {u} invoked {n} times; trace {trace:?}")));
        }
    }
    // every connect callback that fires for this connection (plain ones, then the handshake-aware ones when a
    // handshake was handed over) runs — up to and including the one that panics
    let last = if scen.cause == "cpanic" { scen.at.map(|a| a + 1).unwrap_or(0) } else { cfg.nconn + cfg.nctx };
    for u in 0..last {
        if ccount.get(&u).copied().unwrap_or(0) == 0 {
            out.push(("lifecycle.connect.missing".into(), format!("connect callback {u} was never invoked ({} plain + {} handshake-aware expected); trace {trace:?}", cfg.nconn, cfg.nctx)));
        }
    }
    for u in 0..cfg.ndisc {
        match dcount.get(&u).copied().unwrap_or(0) {
            1 => {}
            0 => out.push(("lifecycle.disconnect.missing".into(), format!("disconnect callback {u} never invoked ({} / {}); trace {trace:?}", scen.phase, scen.cause))),
            n => out.push(("lifecycle.disconnect.duplicate".into(), format!("disconnect callback {u} invoked {n} times ({} / {}); trace {trace:?}", scen.phase, scen.cause))),
        }
    }
    if let (Some(c), Some(d)) = (last_c, first_d) {
        if c > d {
            out.push(("lifecycle.order.connect_after_disconnect".into(), format!("a connect callback ran after a disconnect callback; trace {trace:?}")));
        }
    }
    if park == Some(false) && scen.phase == "parkedfut" {
        out.push(("lifecycle.handler.cancelled_future_not_woken".into(), "an off-reader handler waiting on ctx.cancelled() had not been woken 25 s after the last disconnect callback".into()));
    } else if park == Some(false) {
        out.push(("lifecycle.handler.no_cancel_after_end".into(), "a parked off-reader handler read is_cancelled() == false after the last disconnect callback".into()));
    }
    if inl == Some(false) && cancel_cause(cfg, &scen.cause) {
        out.push(("lifecycle.handler.no_cancel_running".into(), "a running inline handler never saw the cancelled token after the embedder cancelled".into()));
    }
    let mut seen_resp: Option<&String> = None;
    for f in &res.wire {
        if f.starts_with('r') {
            seen_resp.get_or_insert(f);
        } else if f.starts_with('n') {
            if let Some(r) = seen_resp {
                out.push(("lifecycle.wire.response_before_connect_notify".into(), format!("response {r} reached the wire before connect-callback notify {f}; wire {:?}", res.wire)));
                break;
            }
        }
    }
    if res.live == "a" {
        out.push(("lifecycle.registry.absent_while_connected".into(), "registry lookups by id / alias failed while the connection was being served".into()));
    }
    if res.after == "p" {
        out.push(("lifecycle.registry.present_after_disconnect".into(), "the peer or one of its aliases still resolves after the disconnect callbacks".into()));
    }
    out
}

async fn run_group(cfg: GroupCfg, scens: Vec<Scen>, big_rt: &tokio::runtime::Runtime, small_rt: &tokio::runtime::Runtime, out: &Mutex<Out>, settle: Duration) {
    let server_rt = if cfg.small_rt { small_rt } else { big_rt };
    let group = start_group(cfg.clone(), scens.len(), server_rt);
    // observers: read-only calls hammered from another thread while the connections live and die
    let stop_obs = Arc::new(AtomicBool::new(false));
    let obs_bad = Arc::new(AtomicU64::new(0));
    let observer = group.sh.registry.clone().map(|reg| {
        let (stop, bad, n) = (stop_obs.clone(), obs_bad.clone(), scens.len());
        std::thread::spawn(move || {
            let mut k = 0u64;
            while !stop.load(Ordering::SeqCst) {
                let len = reg.len();
                let peers = reg.peers();
                if len > n || peers.len() > n || (reg.is_empty() && reg.len() > n) {
                    bad.fetch_add(1, Ordering::SeqCst);
                }
                for p in &peers {
                    let _ = (p.is_connected(), reg.get(p.peer_id()).is_some(), reg.aliases_for(p.peer_id()), reg.key_for(p.peer_id()));
                }
                let _ = format!("{:?}", reg);
                k += 1;
                if k % 64 == 0 {
                    std::thread::sleep(Duration::from_micros(200));
                }
            }
        })
    });
    let mut recs = Vec::new();
    let mut tasks = Vec::new();
    for sc in &scens {
        let (tx, rx) = unbounded_channel();
        let rec = Arc::new(ConnRec {
            scen: sc.clone(),
            trace: Mutex::new(Vec::new()),
            ev_tx: tx,
            hold: Gate::new(),
            inline_gate: Gate::new(),
            park_gate: Gate::new(),
            probe: Mutex::new(None),
            peer_id: Mutex::new(None),
            inl: Mutex::new(None),
            park: Mutex::new(None),
            big_calls: AtomicU64::new(0),
        });
        recs.push(rec.clone());
        tasks.push(tokio::spawn(group.clone().run_conn(rec, rx)));
    }
    let mut results = Vec::new();
    for t in tasks {
        results.push(t.await.unwrap_or_else(|e| ConnResult { notes: vec![format!("controller-join {e}")], live: "-".into(), after: "-".into(), ..Default::default() }));
    }
    stop_obs.store(true, Ordering::SeqCst);
    if let Some(o) = observer {
        let t0 = Instant::now();
        while !o.is_finished() && t0.elapsed() < wd() {
            tokio::time::sleep(Duration::from_millis(2)).await;
        }
        if !o.is_finished() {
            hang_seen();
            out.lock().unwrap().count("note.observer-stuck");
        }
    }
    if obs_bad.load(Ordering::SeqCst) > 0 {
        out.lock().unwrap().oracle_fail("lifecycle.observer.inadmissible", &format!("a concurrent observer saw the registry hold more peers than the {} connections of the group", scens.len()), &[cfg.line()]);
    }
    // stop the server
    group.strike.fire();
    match &group.ctl {
        ServerCtl::Listener { task, .. } => task.abort(),
        ServerCtl::Embedder { task, .. } => task.abort(),
        ServerCtl::Drain { .. } | ServerCtl::Adopt { .. } => {}
    }
    let mut drain_returned = true;
    if let Ok(g) = Arc::try_unwrap(group) {
        if let ServerCtl::Drain { task: Some(t), .. } = g.ctl {
            drain_returned = tokio::time::timeout(wd(), t).await.is_ok();
        }
        // a late duplicate would show up in the traces read below
        tokio::time::sleep(settle).await;
        let sh = g.sh;
        let unknown = sh.unknown.load(Ordering::SeqCst);
        let mut o = out.lock().unwrap();
        let gl = cfg.line();
        o.config(&gl);
        let lines: Vec<String> = scens.iter().zip(&results).map(|(s, r)| s.line(r.wire.len())).collect();
        let mut replay = vec![gl.clone()];
        replay.extend(lines.iter().cloned());
        if !drain_returned {
            o.count("note.drain-did-not-return");
        }
        if unknown > 0 {
            let nfail = scens.iter().filter(|s| s.hsfail()).count();
            o.oracle_fail(if nfail > 0 { "lifecycle.handshake_failure.hooks_fired" } else { "lifecycle.callbacks.unattributed" }, &format!("{unknown} user callback invocation(s) for a peer that is not an accepted connection of the group (failed handshakes: {})", scens.iter().filter(|s| s.hsfail()).count()), &replay);
        }
        for ((sc, res), (rec, line)) in scens.iter().zip(&results).zip(recs.iter().zip(&lines)) {
            let trace = rec.trace.lock().unwrap().clone();
            let inl = *rec.inl.lock().unwrap();
            let park = res.park;
            let obs = if sc.hsfail() {
                format!("{} hooks={}", sc.idx, trace.len() as u64 + unknown)
            } else {
                let b = |v: Option<bool>| match v {
                    Some(true) => "1",
                    Some(false) => "0",
                    None => "-",
                };
                format!(
                    "{} trace={} wire={} inl={} park={} live={} after={}",
                    sc.idx,
                    if trace.is_empty() { "-".to_string() } else { trace.join(",") },
                    if res.wire.is_empty() { "-".to_string() } else { res.wire.join(",") },
                    b(inl),
                    b(park),
                    res.live,
                    res.after
                )
            };
            o.count(&format!("entry.{}", cfg.entry.name()));
            o.count(&format!("combo.{}.{}", sc.phase, sc.cause));
            if sc.phase == "queued" {
                o.count(&format!("queued.handlers_run.{}", rec.big_calls.load(Ordering::SeqCst)));
            }
            for n in &res.notes {
                o.count(&format!("note.{}.{}.{}.{}", n.split(' ').next().unwrap_or("x"), cfg.entry.name(), sc.phase, sc.cause));
            }
            let mut fails = res.problems.clone();
            fails.extend(oracles(&cfg, sc, &trace, res, inl, park));
            let mut seen = std::collections::BTreeSet::new();
            for (sig, detail) in fails {
                if seen.insert(sig.clone()) {
                    o.oracle_fail(&sig, &format!("[{} entry={} mode={}] {}", line, cfg.entry.name(), cfg.mode, detail), &replay);
                }
            }
            o.case(line, &obs, true);
        }
    }
}

// ---------------------------------------------------------------------------------------------
// generation
// ---------------------------------------------------------------------------------------------
const PHASES: [&str; 7] = ["idle", "inline", "parked", "parkedfut", "queued", "backlog", "connecting"];
const CAUSES: [&str; 13] = ["close", "drop", "proto", "protog", "malformed", "malformeds", "malformedl", "hpanic", "cpanic", "cancel", "abort", "rerr", "werr"];

fn fill_scen(rng: &mut Rng, cfg: &GroupCfg, idx: String, phase: &str, cause: &str) -> Scen {
    let nuser = cfg.nconn + cfg.nctx;
    if cause == "hsfail" {
        return Scen { idx, phase: phase.into(), cause: cause.into(), notif: vec![], at: None, nreq: 0, payload: ' ' };
    }
    // (only while the reader is reading: a 3 MiB send to a reader that is blocked or held would never complete)
    let cause = if cfg.lim && cause == "protog" && matches!(phase, "idle" | "parked" | "parkedfut") && rng.chance(1, 2) { "toobig" } else { cause };
    // (garbage is only partly read by the server: through a tiny pipe the rest of it could never be written)
    let cause = if cfg.frag > 0 && cause == "protog" { "proto" } else { cause };
    let phase = if phase == "parked" && cfg.off == '1' { "parkedsat" } else { phase };
    let payload = if cause == "cpanic" || cause == "hpanic" { *rng.pick(&[' ', 's', 'n']) } else { ' ' };
    // never more notifies than the channel holds: `try_send` must not depend on the writer's progress
    let mut budget = cfg.cap.min(6);
    let notif: Vec<usize> = (0..nuser)
        .map(|_| {
            let n = (rng.below(3) as usize).min(budget);
            budget -= n;
            n
        })
        .collect();
    let at = if phase == "connecting" { Some(rng.below(nuser as u64) as usize) } else { None };
    let nreq = match phase {
        "queued" => 12,
        "backlog" => 8,
        _ if cause == "rerr" || cause == "werr" => rng.below(IO_KINDS.len() as u64) as usize, // which io::ErrorKind
        _ => 0,
    };
    Scen { idx, phase: phase.into(), cause: cause.into(), notif, at, nreq, payload }
}

fn random_cfg(rng: &mut Rng, g: usize, entry: Entry, mode: char, jam: Option<&str>) -> GroupCfg {
    let queued = jam.is_some();
    let nctx_reg = rng.below(3) as usize;
    // plain serve_connection (no handshake handed over) now and then: the ctx callbacks must not fire
    let hs = match entry {
        Entry::Listener | Entry::Drain => true,
        _ => nctx_reg == 0 || !rng.chance(1, 4),
    };
    let mut cfg = GroupCfg {
        g,
        entry,
        nconn: rng.range(1, 3) as usize,
        nctx: if hs { nctx_reg } else { 0 },
        nctx_reg,
        ndisc: rng.range(1, 3) as usize,
        reg: false,
        regpos: 0,
        cap: match jam {
            Some("queued") => *rng.pick(&[1usize, 2]),
            Some(_) => 64,
            None => *rng.pick(&[1usize, 3, 64, 64, 256]),
        },
        mode,
        off: *rng.pick(&['d', 'd', '0', '1', '4']),
        nerr: *rng.pick(&[0usize, 1, 1, 2]),
        static_accept: rng.chance(1, 2),
        query: rng.below(3) as u8,
        pr: entry == Entry::Adopt && rng.chance(1, 2),
        lim: rng.chance(1, 2),
        small_rt: false,
        frag: 0,
    };
    if entry == Entry::Adopt && !queued && rng.chance(1, 2) {
        cfg.frag = *rng.pick(&[1usize, 7, 61]);
        cfg.lim = false; // no 3 MiB frame through a 1-byte pipe
        // (with a 1-byte pipe AND a partially-read first frame the writer's closing handshake runs into its 5 s
        // SHUTDOWN_DRAIN_TIMEOUT: correct but slow, so that pair is left to the thorough tier)
        if !thorough_tier() {
            cfg.pr = false;
        }
    }
    // every third group: the knobs take their extreme values, chosen by the bits of the group number, so that
    // every pair of extremes occurs together within 32 such groups
    if g % 3 == 0 && !queued {
        let b = g / 3;
        cfg.cap = [1usize, 256][b & 1];
        cfg.off = ['0', '1'][(b >> 1) & 1];
        cfg.lim = (b >> 2) & 1 == 1 && cfg.frag == 0;
        cfg.nerr = [0usize, 2][(b >> 3) & 1];
        cfg.query = [1u8, 2][(b >> 4) & 1];
    }
    cfg.reg = rng.chance(1, 2);
    // half of the registry groups: some user callbacks are registered before `with_peer_registry`
    cfg.regpos = if cfg.reg && rng.chance(1, 2) { rng.range(1, 3) as usize } else { 0 };
    cfg
}

struct Plan {
    cfg: GroupCfg,
    scens: Vec<Scen>,
}

fn plan(rng: &mut Rng, thorough: bool) -> Vec<Plan> {
    let mut plans: Vec<Plan> = Vec::new();
    let sizes = [1usize, 2, 3, 4, 6, 8, 12, 16, 24, 32];
    let rounds = if thorough { 40 } else { 4 };
    for round in 0..rounds {
        for entry in Entry::all() {
            let modes: &[char] = match entry {
                Entry::Drain => &['c', 'a', 't'],
                Entry::Listener => &['-', 's'],
                _ => &['-'],
            };
            for &mode in modes {
                // every valid (phase × cause) of this entry, shuffled, cut into groups of varying size
                let mut combos: Vec<(String, String)> = Vec::new();
                for ph in PHASES {
                    for ca in CAUSES {
                        if valid(entry, mode, ph, ca) {
                            combos.push((ph.to_string(), ca.to_string()));
                        }
                    }
                }
                if entry == Entry::Adopt {
                    combos.push(("late".to_string(), "cancel".to_string()));
                }
                if entry != Entry::Adopt {
                    for kind in ["path", "garbage", "eof"] {
                        combos.push((kind.to_string(), "hsfail".to_string()));
                    }
                    if entry == Entry::Drain && (mode == 'a' || mode == 't') {
                        combos.push(("stall".to_string(), "hsfail".to_string()));
                    }
                }
                rng.shuffle(&mut combos);
                let (queued, rest): (Vec<_>, Vec<_>) = combos.into_iter().partition(|c| c.0 == "queued");
                let (backlog, mut rest): (Vec<_>, Vec<_>) = rest.into_iter().partition(|c| c.0 == "backlog");
                // connections with a jammed writer: own groups (channel capacity chosen for the phase), at most 4 at a time
                for (kind, list) in [("queued", queued), ("backlog", backlog)] {
                    for chunk in list.chunks(4) {
                        let g = plans.len();
                        let cfg = random_cfg(rng, g, entry, mode, Some(kind));
                        let scens = chunk.iter().enumerate().map(|(i, (p, c))| fill_scen(rng, &cfg, format!("{g}.{i}"), p, c)).collect();
                        plans.push(Plan { cfg, scens });
                    }
                }
                let mut si = (round + plans.len()) % sizes.len();
                while !rest.is_empty() {
                    let want = sizes[si % sizes.len()];
                    si += 3;
                    let take = want.min(rest.len());
                    let mut chunk: Vec<_> = rest.drain(..take).collect();
                    // pad a big group with random valid combos so that `want` connections really run concurrently
                    while chunk.len() < want && want >= 12 {
                        let ph = *rng.pick(&PHASES);
                        let ca = *rng.pick(&CAUSES);
                        if ph != "queued" && ph != "backlog" && valid(entry, mode, ph, ca) {
                            chunk.push((ph.to_string(), ca.to_string()));
                        }
                    }
                    let g = plans.len();
                    let mut cfg = random_cfg(rng, g, entry, mode, None);
                    // small groups now and then on a runtime whose blocking pool has two threads: a parked handler or two
                    // exhaust it at the moment the hooks have to run
                    // (only phases that neither hold a worker thread nor need a second blocking thread)
                    cfg.small_rt = chunk.len() <= 3
                        && chunk.iter().all(|(p, _)| matches!(p.as_str(), "idle" | "parked" | "parkedfut" | "late"))
                        && chunk.iter().filter(|(p, _)| p.starts_with("parked")).count() <= 1
                        && chunk.iter().any(|(p, _)| p.starts_with("parked"));
                    let scens = chunk.iter().enumerate().map(|(i, (p, c))| fill_scen(rng, &cfg, format!("{g}.{i}"), p, c)).collect();
                    plans.push(Plan { cfg, scens });
                }
            }
        }
    }
    plans
}

fn parse_replay(ops: &[String]) -> Vec<AnyPlan> {
    let mut plans: Vec<AnyPlan> = Vec::new();
    for l in ops {
        let w = words(l);
        match w.first().copied() {
            Some("rx") if w.len() >= 4 => {
                if w[2] == "reset" {
                    plans.push(AnyPlan::Rx(RxPlan { g: plans.len(), entry: Entry::parse(w[3]).expect("entry"), steps: vec![] }));
                } else if let Some(AnyPlan::Rx(p)) = plans.last_mut() {
                    let c: usize = w[3].parse().unwrap_or(0);
                    let step = match w[2] {
                        "open" => RxStep::Open { c, keys: if w.get(4).copied().unwrap_or("-") == "-" { vec![] } else { w[4].split(',').map(|s| s.to_string()).collect() } },
                        "alias" => RxStep::Alias { c, off: w.get(4) == Some(&"off"), key: w.get(5).unwrap_or(&"").to_string() },
                        "late" => RxStep::Late { c, key: w.get(4).unwrap_or(&"").to_string() },
                        _ => RxStep::Close { c, cause: w.get(4).unwrap_or(&"drop").to_string() },
                    };
                    p.steps.push(step);
                }
            }
            Some("hsrun") if w.len() >= 4 => {
                plans.push(AnyPlan::HsRun(HsRun { idx: w[1].into(), nrej: w[2].parse().unwrap_or(1), nacc: w[3].parse().unwrap_or(1) }));
            }
            Some("burst") if w.len() >= 5 => {
                plans.push(AnyPlan::Burst(BurstPlan { idx: w[1].into(), entry: Entry::parse(w[2]).expect("entry"), n: w[3].parse().unwrap_or(16), end: w[4].into(), reps: 80 }));
            }
            Some("hs") if w.len() >= 5 => {
                let cfg = if w[2] == "-" { String::new() } else { w[2].to_string() };
                match plans.last_mut() {
                    Some(AnyPlan::Hs(p)) if p.cfg == cfg => p.reqs.push((w[1].into(), w[3].into(), w[4].into())),
                    _ => plans.push(AnyPlan::Hs(HsPlan { cfg, reqs: vec![(w[1].into(), w[3].into(), w[4].into())] })),
                }
            }
            Some("group") if w.len() >= 10 => {
                let cfg = GroupCfg {
                    g: w[1].parse().unwrap_or(0),
                    entry: Entry::parse(w[2]).expect("entry"),
                    nconn: w[3].parse().unwrap(),
                    nctx: w[4].parse().unwrap(),
                    ndisc: w[5].parse().unwrap(),
                    reg: w[6] == "1",
                    cap: w[7].parse().unwrap(),
                    mode: w[8].chars().next().unwrap_or('-'),
                    nctx_reg: w[9].parse().unwrap(),
                    regpos: w.get(10).and_then(|x| x.parse().ok()).unwrap_or(0),
                    off: 'd',
                    nerr: 1,
                    static_accept: false,
                    query: 0,
                    pr: false,
                    lim: false,
                    small_rt: false,
                    frag: 0,
                };
                let mut cfg = cfg;
                if let Some(o) = w.get(11) {
                    cfg.parse_opts(o);
                }
                plans.push(AnyPlan::Life(Plan { cfg, scens: vec![] }));
            }
            Some("scen") if w.len() >= 8 => {
                if let Some(AnyPlan::Life(p)) = plans.last_mut() {
                    let notif = if w[4] == "-" { vec![] } else { w[4].split(',').map(|x| x.parse().unwrap_or(0)).collect() };
                    let (cause, payload) = match w[3] {
                        "cpanics" | "hpanics" => (&w[3][..6], 's'),
                        "cpanicn" | "hpanicn" => (&w[3][..6], 'n'),
                        c => (c, ' '),
                    };
                    p.scens.push(Scen { idx: w[1].into(), phase: w[2].into(), cause: cause.into(), notif, at: w[5].parse().ok(), nreq: w[6].parse().unwrap_or(0), payload });
                }
            }
            _ => {}
        }
    }
    plans
}

// ---------------------------------------------------------------------------------------------
// registry scripts (`rx` op lines): several connections of one server sharing and re-pointing aliases,
// alias calls from connect hooks, inline and off-reader handlers, and alias calls still in flight
// while their connection is torn down; after every step the whole registry is queried.
// ---------------------------------------------------------------------------------------------
#[derive(Clone, Debug)]
enum RxStep {
    Open { c: usize, keys: Vec<String> },
    Alias { c: usize, off: bool, key: String },
    Late { c: usize, key: String },
    Close { c: usize, cause: String },
}
impl RxStep {
    fn text(&self) -> String {
        match self {
            RxStep::Open { c, keys } => format!("open {} {}", c, if keys.is_empty() { "-".to_string() } else { keys.join(",") }),
            RxStep::Alias { c, off, key } => format!("alias {} {} {}", c, if *off { "off" } else { "inline" }, key),
            RxStep::Late { c, key } => format!("late {} {}", c, key),
            RxStep::Close { c, cause } => format!("close {} {}", c, cause),
        }
    }
}

struct RxPlan {
    g: usize,
    entry: Entry,
    steps: Vec<RxStep>,
}

#[derive(Debug)]
enum RxEvt {
    Opened(usize, Vec<bool>),
    Closed(usize),
    LateEntered(usize),
    LateDone(usize, bool),
}

struct Rx {
    reg: PeerRegistry,
    establishing: Mutex<Option<(usize, Vec<String>)>>,
    conn_of: Mutex<HashMap<u64, usize>>,
    id_of: Mutex<HashMap<usize, u64>>,
    ev: UnboundedSender<RxEvt>,
    unknown: AtomicU64,
}

/// A key whose conversion to `String` (performed by `PeerRegistry::alias` itself) returns only once the
/// peer has left the registry: pins "an alias call is in flight while the connection is torn down".
struct LateKey {
    reg: PeerRegistry,
    id: PeerId,
    key: String,
}
impl From<LateKey> for String {
    fn from(k: LateKey) -> String {
        let t0 = Instant::now();
        while k.reg.get(k.id).is_some() && t0.elapsed() < WD * 3 {
            std::thread::sleep(Duration::from_millis(1));
        }
        k.key
    }
}

fn rx_server(rx: &Arc<Rx>) -> WebSocketServer {
    let (r1, r2, r3, r4, r5) = (rx.clone(), rx.clone(), rx.clone(), rx.clone(), rx.clone());
    let conn = |rx: &Rx, ctx: &CallContext| ctx.peer().map(|p| p.peer_id()).and_then(|id| rx.conn_of.lock().unwrap().get(&id.0).copied().map(|c| (id, c)));
    let alias_handler = move |rx: &Arc<Rx>, ctx: &CallContext, v: Value| -> Result<Value, (ErrorCode, String)> {
        let Some((id, _c)) = conn(rx, ctx) else { return Ok(json!("unknown-peer")) };
        let key = v.get("key").and_then(|k| k.as_str()).unwrap_or("").to_string();
        Ok(json!(rx.reg.alias(id, key)))
    };
    let ah = alias_handler.clone();
    let router = Router::new()
        .with_json_ctx("/alias", move |ctx: &CallContext, v: Value| ah(&r1, ctx, v))
        .with_json_ctx_blocking("/aliasoff", move |ctx: &CallContext, v: Value| alias_handler(&r2, ctx, v))
        .with_json_ctx_blocking("/late", move |ctx: &CallContext, v: Value| {
            let Some((id, c)) = conn(&r3, ctx) else { return Ok(json!("unknown-peer")) };
            let key = v.get("key").and_then(|k| k.as_str()).unwrap_or("").to_string();
            let _ = r3.ev.send(RxEvt::LateEntered(c));
            let ret = r3.reg.alias(id, LateKey { reg: r3.reg.clone(), id, key });
            let _ = r3.ev.send(RxEvt::LateDone(c, ret));
            Ok(json!(ret))
        });
    WebSocketServer::new(router)
        .with_peer_registry(rx.reg.clone())
        .on_peer_connect(move |peer: PeerHandle| {
            let id = peer.peer_id();
            let Some((c, keys)) = r4.establishing.lock().unwrap().take() else {
                r4.unknown.fetch_add(1, Ordering::SeqCst);
                return;
            };
            r4.conn_of.lock().unwrap().insert(id.0, c);
            r4.id_of.lock().unwrap().insert(c, id.0);
            let rets = keys.into_iter().map(|k| r4.reg.alias(id, k)).collect();
            let _ = r4.ev.send(RxEvt::Opened(c, rets));
        })
        .on_peer_disconnect(move |id: PeerId| match r5.conn_of.lock().unwrap().get(&id.0).copied() {
            Some(c) => {
                let _ = r5.ev.send(RxEvt::Closed(c));
            }
            None => {
                r5.unknown.fetch_add(1, Ordering::SeqCst);
            }
        })
}

/// Send a request and return the JSON body of its response.
async fn rx_call(ws: &mut Ws, id: u64, path: &str, body: &Value) -> Result<Value, String> {
    ws.send(request(id, path, body, false)).await.map_err(|e| format!("send {path} {e}"))?;
    let deadline = tokio::time::Instant::now() + wd();
    loop {
        match tokio::time::timeout_at(deadline, ws.next()).await {
            Err(_) => return Err(format!("{path}-response-watchdog")),
            Ok(Some(Ok(WsMsg::Binary(b)))) => {
                if let Some((f, _)) = RawFrame::parse_prefix(&b) {
                    if f.h.notify == 0 && f.h.id == id {
                        return serde_json::from_slice(&f.body).map_err(|e| format!("{path}-response-body {e}"));
                    }
                }
            }
            Ok(Some(Ok(_))) => {}
            Ok(_) => return Err(format!("{path}-connection-ended")),
        }
    }
}

async fn rx_wait(rx: &mut UnboundedReceiver<RxEvt>, closed: &mut BTreeMap<usize, u32>, mut pred: impl FnMut(&RxEvt) -> bool) -> Option<RxEvt> {
    let deadline = tokio::time::Instant::now() + wd();
    loop {
        match tokio::time::timeout_at(deadline, rx.recv()).await {
            Ok(Some(e)) => {
                if let RxEvt::Closed(c) = &e {
                    *closed.entry(*c).or_default() += 1;
                }
                if pred(&e) {
                    return Some(e);
                }
            }
            _ => {
                hang_seen();
                return None;
            }
        }
    }
}

async fn run_rx(plan: RxPlan, server_rt: &tokio::runtime::Runtime, out: &Mutex<Out>) {
    let (ev_tx, mut ev_rx) = unbounded_channel();
    let rx = Arc::new(Rx { reg: PeerRegistry::new(), establishing: Mutex::new(None), conn_of: Mutex::new(HashMap::new()), id_of: Mutex::new(HashMap::new()), ev: ev_tx, unknown: AtomicU64::new(0) });
    // TWO server instances feed the one registry (documented: "two WebSocketServers sharing one registry mint
    // non-colliding ids"); connection c is served by server c % 2
    let h = server_rt.handle().clone();
    let mut addrs: Vec<std::net::SocketAddr> = Vec::new();
    let mut shareds: Vec<SharedWebSocketServer> = Vec::new();
    let mut server_tasks = Vec::new();
    for _ in 0..2 {
        let server = rx_server(&rx);
        if plan.entry != Entry::Adopt {
            let l = std::net::TcpListener::bind("127.0.0.1:0").expect("bind");
            l.set_nonblocking(true).unwrap();
            addrs.push(l.local_addr().unwrap());
            if plan.entry == Entry::Listener {
                server_tasks.push(h.spawn(async move {
                    let l = tokio::net::TcpListener::from_std(l).unwrap();
                    let _ = server.serve_listener(l, "/repe").await;
                }));
            } else {
                let sh = server.into_shared();
                server_tasks.push(h.spawn(async move {
                    let l = tokio::net::TcpListener::from_std(l).unwrap();
                    loop {
                        let Ok((stream, _)) = l.accept().await else { break };
                        let sh = sh.clone();
                        tokio::spawn(async move {
                            if let Ok(ws) = sh.accept(stream, "/repe").await {
                                let _ = sh.serve_connection(ws).await;
                            }
                        });
                    }
                }));
            }
        } else {
            shareds.push(server.into_shared());
        }
    }

    let reset = format!("rx {}.r reset {}", plan.g, plan.entry.name());
    let lines: Vec<String> = plan.steps.iter().enumerate().map(|(i, s)| format!("rx {}.{} {}", plan.g, i, s.text())).collect();
    let mut replay = vec![reset.clone()];
    replay.extend(lines.iter().cloned());

    let mut clients: HashMap<usize, Ws> = HashMap::new();
    let mut closed: BTreeMap<usize, u32> = BTreeMap::new();
    // the harness's own reading of the history: who owns which key, who is connected
    let mut owner: BTreeMap<String, usize> = BTreeMap::new();
    let mut keys_used: std::collections::BTreeSet<String> = Default::default();
    let mut conns: std::collections::BTreeSet<usize> = Default::default();
    let mut alive: std::collections::BTreeSet<usize> = Default::default();
    let mut late: BTreeMap<usize, String> = BTreeMap::new();
    let mut next_req: u64 = 100;
    let mut obs: Vec<String> = Vec::new();
    let mut fails: Vec<(String, String, usize)> = Vec::new();
    let mut broken: Option<String> = None;

    for (i, step) in plan.steps.iter().enumerate() {
        let idx = format!("{}.{}", plan.g, i);
        let mut rets: Vec<bool> = Vec::new();
        let r: Result<(), String> = async {
            match step {
                RxStep::Open { c, keys } => {
                    *rx.establishing.lock().unwrap() = Some((*c, keys.clone()));
                    let ws: Ws = if let Some(sh) = shareds.get(*c % 2) {
                        let (cio, sio) = tokio::io::duplex(64 * 1024);
                        let sh = sh.clone();
                        h.spawn(async move {
                            let sws = sh.adopt_upgraded(sio).await;
                            let _ = sh.serve_connection(sws).await;
                        });
                        let b: BoxIo = Box::new(cio);
                        WebSocketStream::from_raw_socket(b, Role::Client, None).await
                    } else {
                        let addr = addrs[*c % 2];
                        let s = tokio::time::timeout(wd(), tokio::net::TcpStream::connect(addr)).await.map_err(|_| "tcp-connect-watchdog")?.map_err(|e| e.to_string())?;
                        let b: BoxIo = Box::new(s);
                        let (w, _) = tokio::time::timeout(wd(), tokio_tungstenite::client_async(format!("ws://{}/repe", addr), b)).await.map_err(|_| "ws-handshake-watchdog")?.map_err(|e| e.to_string())?;
                        w
                    };
                    clients.insert(*c, ws);
                    match rx_wait(&mut ev_rx, &mut closed, |e| matches!(e, RxEvt::Opened(cc, _) if cc == c)).await {
                        Some(RxEvt::Opened(_, r)) => rets = r,
                        _ => return Err("connect-callback-watchdog".into()),
                    }
                    conns.insert(*c);
                    alive.insert(*c);
                    for (k, ok) in keys.iter().zip(&rets) {
                        keys_used.insert(k.clone());
                        if *ok {
                            owner.insert(k.clone(), *c);
                        }
                    }
                }
                RxStep::Alias { c, off, key } => {
                    let ws = clients.get_mut(c).ok_or("no such connection")?;
                    next_req += 1;
                    let v = rx_call(ws, next_req, if *off { "/aliasoff" } else { "/alias" }, &json!({ "key": key })).await?;
                    let ok = v.as_bool().ok_or(format!("alias answered {v}"))?;
                    rets.push(ok);
                    keys_used.insert(key.clone());
                    if ok {
                        owner.insert(key.clone(), *c);
                    }
                }
                RxStep::Late { c, key } => {
                    let ws = clients.get_mut(c).ok_or("no such connection")?;
                    next_req += 1;
                    ws.send(request(next_req, "/late", &json!({ "key": key }), false)).await.map_err(|e| e.to_string())?;
                    if rx_wait(&mut ev_rx, &mut closed, |e| matches!(e, RxEvt::LateEntered(cc) if cc == c)).await.is_none() {
                        return Err("late-handler-watchdog".into());
                    }
                    keys_used.insert(key.clone());
                    late.insert(*c, key.clone());
                }
                RxStep::Close { c, cause } => {
                    let mut ws = clients.remove(c).ok_or("no such connection")?;
                    match cause.as_str() {
                        "drop" => drop(ws),
                        other => {
                            if other == "close" {
                                let _ = ws.send(WsMsg::Close(None)).await;
                            } else {
                                let _ = ws.send(WsMsg::Binary(vec![9, 9, 9])).await;
                            }
                            let mut sink = Vec::new();
                            let _ = read_frames(&mut ws, &mut sink, |_| false).await;
                        }
                    }
                    let before = closed.get(c).copied().unwrap_or(0);
                    if before == 0 && rx_wait(&mut ev_rx, &mut closed, |e| matches!(e, RxEvt::Closed(cc) if cc == c)).await.is_none() {
                        fails.push(("lifecycle.disconnect.missing".into(), format!("disconnect callback of connection {c} not invoked within {WD:?}"), i));
                        return Err("disconnect-watchdog".into());
                    }
                    alive.remove(c);
                    owner.retain(|_, o| o != c);
                    if let Some(key) = late.remove(c) {
                        match rx_wait(&mut ev_rx, &mut closed, |e| matches!(e, RxEvt::LateDone(cc, _) if cc == c)).await {
                            Some(RxEvt::LateDone(_, ok)) => {
                                rets.push(ok);
                                if ok {
                                    fails.push(("lifecycle.registry.alias_accepted_after_disconnect".into(), format!("alias({c}, {key}) in flight while connection {c} ended returned true after the disconnect callbacks had run"), i));
                                }
                            }
                            _ => return Err("late-alias-watchdog".into()),
                        }
                    }
                }
            }
            Ok(())
        }
        .await;
        if let Err(e) = r {
            broken = Some(e);
            break;
        }
        // ---- query everything: every key ever used, every connection ever opened ----
        let id_of = rx.id_of.lock().unwrap().clone();
        let conn_of = rx.conn_of.lock().unwrap().clone();
        let mut by = Vec::new();
        for k in &keys_used {
            let got = rx.reg.get_by(k.as_str()).map(|h| h.peer_id().0);
            let gc = got.and_then(|id| conn_of.get(&id).copied());
            by.push(format!("{}:{}", k, gc.map(|c| c.to_string()).unwrap_or(if got.is_some() { "?".into() } else { "-".into() })));
            let want = owner.get(k).copied().filter(|c| alive.contains(c));
            if gc != want || (got.is_some() && gc.is_none()) {
                let sig = if want.is_some() && gc.is_none() { "lifecycle.registry.alias_lost" } else { "lifecycle.registry.alias_wrong_owner" };
                fails.push((sig.into(), format!("get_by({k}) resolves to connection {gc:?}, but the key was last assigned to {:?} and the connected peers are {alive:?}", owner.get(k)), i));
            }
        }
        let mut ps = Vec::new();
        for c in &conns {
            let id = PeerId(id_of[c]);
            let present = rx.reg.get(id).is_some();
            let al = rx.reg.aliases_for(id);
            let kf = rx.reg.key_for(id);
            ps.push(format!("{}:{}:{}:{}", c, present as u8, if al.is_empty() { "-".to_string() } else { al.join("+") }, kf.clone().unwrap_or("-".into())));
            if !alive.contains(c) {
                if present || !al.is_empty() || kf.is_some() {
                    fails.push(("lifecycle.registry.present_after_disconnect".into(), format!("connection {c} is over (disconnect callbacks ran) but the registry still has: get={present} aliases_for={al:?} key_for={kf:?}"), i));
                }
            } else {
                let mine: std::collections::BTreeSet<&String> = owner.iter().filter(|(_, o)| *o == c).map(|(k, _)| k).collect();
                let listed: std::collections::BTreeSet<&String> = al.iter().collect();
                if !present {
                    fails.push(("lifecycle.registry.absent_while_connected".into(), format!("connection {c} is being served but get() is None"), i));
                }
                if mine != listed {
                    fails.push(("lifecycle.registry.alias_list_mismatch".into(), format!("connected peer {c} owns {mine:?} but aliases_for lists {al:?}"), i));
                }
            }
        }
        let bits = if rets.is_empty() { "-".to_string() } else { rets.iter().map(|b| if *b { '1' } else { '0' }).collect() };
        obs.push(format!("{} ret={} by={} peers={}", idx, bits, if by.is_empty() { "-".into() } else { by.join(",") }, if ps.is_empty() { "-".into() } else { ps.join(",") }));
    }
    // teardown
    drop(clients);
    for t in server_tasks {
        t.abort();
    }
    let mut o = out.lock().unwrap();
    o.config(&reset);
    o.count(&format!("rx.entry.{}", plan.entry.name()));
    if let Some(b) = &broken {
        o.count(&format!("note.rx.{}", b.split(' ').next().unwrap_or("x")));
    }
    for (c, n) in &closed {
        if *n > 1 {
            fails.push(("lifecycle.disconnect.duplicate".into(), format!("disconnect callback of connection {c} invoked {n} times"), plan.steps.len().saturating_sub(1)));
        }
    }
    if rx.unknown.load(Ordering::SeqCst) > 0 {
        fails.push(("lifecycle.callbacks.unattributed".into(), "a callback fired for a peer that is not a connection of the script".into(), plan.steps.len().saturating_sub(1)));
    }
    let mut seen = std::collections::BTreeSet::new();
    for (sig, detail, i) in fails {
        if seen.insert(sig.clone()) {
            o.oracle_fail(&sig, &format!("[step {}: {} entry={}] {}", i, lines.get(i).cloned().unwrap_or_default(), plan.entry.name(), detail), &replay);
        }
    }
    for (line, ob) in lines.iter().zip(&obs) {
        let kind = line.split(' ').nth(2).unwrap_or("x");
        o.count(&format!("rx.step.{}", kind));
        o.case(line, ob, true);
    }
}

fn plan_rx(rng: &mut Rng, g: usize) -> RxPlan {
    let entry = *rng.pick(&[Entry::Listener, Entry::Conn, Entry::Adopt]);
    let mut steps = Vec::new();
    let mut alive: Vec<usize> = Vec::new();
    let mut late: Vec<usize> = Vec::new();
    let mut next_c = 0usize;
    let mut pool: Vec<String> = vec!["u0".into(), "u1".into(), "u2".into(), "x0".into(), "x1".into()];
    let n = rng.range(10, 20);
    if rng.chance(1, 3) {
        // rich state: one peer holds 12-16 aliases registered in a shuffled order before anything is taken over
        // or evicted
        let c = next_c;
        next_c += 1;
        steps.push(RxStep::Open { c, keys: vec![format!("s{c}")] });
        alive.push(c);
        pool.push(format!("s{c}"));
        let mut many: Vec<String> = (0..rng.range(12, 16)).map(|k| format!("m{:02}", (k * 7) % 23)).collect();
        rng.shuffle(&mut many);
        for k in many {
            pool.push(k.clone());
            steps.push(RxStep::Alias { c, off: rng.chance(1, 2), key: k });
        }
    }
    for _ in 0..n {
        let roll = rng.below(100);
        if (roll < 35 && alive.len() < 5) || alive.is_empty() {
            // connect hook registering 0-3 aliases: the shared "user" key first, so that a later connection of
            // the same user takes over a non-newest alias of this one
            let c = next_c;
            next_c += 1;
            let mut keys = Vec::new();
            if rng.chance(3, 4) {
                keys.push(format!("u{}", rng.below(3)));
            }
            if rng.chance(4, 5) {
                keys.push(format!("s{}", c));
                pool.push(format!("s{}", c));
            }
            if rng.chance(1, 3) {
                keys.push(format!("x{}", rng.below(2)));
            }
            steps.push(RxStep::Open { c, keys });
            alive.push(c);
        } else if roll < 65 {
            let c = *rng.pick(&alive);
            steps.push(RxStep::Alias { c, off: rng.chance(1, 2), key: rng.pick(&pool).clone() });
        } else if roll < 78 {
            let cand: Vec<usize> = alive.iter().copied().filter(|c| !late.contains(c)).collect();
            if let Some(c) = cand.first().copied() {
                let key = if rng.chance(1, 2) { format!("l{}", c) } else { rng.pick(&pool).clone() };
                steps.push(RxStep::Late { c, key });
                late.push(c);
            }
        } else {
            let i = rng.below(alive.len() as u64) as usize;
            let c = alive.remove(i);
            steps.push(RxStep::Close { c, cause: rng.pick(&["close", "drop", "malformed"]).to_string() });
        }
    }
    while let Some(c) = alive.pop() {
        steps.push(RxStep::Close { c, cause: rng.pick(&["close", "drop", "malformed"]).to_string() });
    }
    RxPlan { g, entry, steps }
}

// ---------------------------------------------------------------------------------------------
// handshakes (`hs` op lines): which upgrade requests the built-in accept loop accepts for a configured
// path, what the handshake-aware connect hook sees, what `on_error` reports
// ---------------------------------------------------------------------------------------------
struct HsPlan {
    cfg: String,
    reqs: Vec<(String, String, String)>, // idx, request path, end
}

#[derive(Default)]
struct HsCount {
    connect: AtomicU64,
    disconnect: AtomicU64,
    hs_err: AtomicU64,
    conn_err: AtomicU64,
    ctx: Mutex<Vec<String>>,
}

/// The specification of the path check, written independently of the crate: strip trailing slashes from
/// the configured path, make it start with one slash; the request path must equal it verbatim.
fn hs_spec(cfg: &str, req: &str) -> bool {
    let expected = if cfg.is_empty() || cfg == "/" {
        "/".to_string()
    } else {
        let mut body = cfg;
        while body.ends_with('/') {
            body = &body[..body.len() - 1];
        }
        if cfg.starts_with('/') { body.to_string() } else { format!("/{body}") }
    };
    req == expected
}

async fn hs_until(counter: &AtomicU64, at_least: u64) -> bool {
    let t0 = Instant::now();
    while counter.load(Ordering::SeqCst) < at_least {
        if t0.elapsed() > wd() {
            return false;
        }
        tokio::time::sleep(Duration::from_millis(1)).await;
    }
    true
}

async fn run_hs(plan: HsPlan, server_rt: &tokio::runtime::Runtime, out: &Mutex<Out>) {
    let cnt = Arc::new(HsCount::default());
    let (c1, c2, c3, c4) = (cnt.clone(), cnt.clone(), cnt.clone(), cnt.clone());
    let server = WebSocketServer::new(Router::new().with_json("/echo", |v: Value| Ok(v)))
        .on_peer_connect(move |_p: PeerHandle| {
            c1.connect.fetch_add(1, Ordering::SeqCst);
        })
        .on_peer_connect_with_handshake(move |_p: &PeerHandle, hs: &HandshakeContext| {
            c2.ctx.lock().unwrap().push(format!("{}?{}", hs.path(), hs.query().unwrap_or("-")));
        })
        .on_peer_disconnect(move |_id: PeerId| {
            c3.disconnect.fetch_add(1, Ordering::SeqCst);
        })
        .on_error(move |e| match e {
            repe::ConnectionError::Handshake(e_) => { if std::env::var("LC_TRACE").is_ok() { eprintln!("HSERR {e_}"); }
                c4.hs_err.fetch_add(1, Ordering::SeqCst);
            }
            repe::ConnectionError::Connection(_) => {
                c4.conn_err.fetch_add(1, Ordering::SeqCst);
            }
            _ => {}
        });
    let l = std::net::TcpListener::bind("127.0.0.1:0").expect("bind");
    l.set_nonblocking(true).unwrap();
    let addr = l.local_addr().unwrap();
    let cfgpath = plan.cfg.clone();
    let task = server_rt.handle().spawn(async move {
        let l = tokio::net::TcpListener::from_std(l).unwrap();
        let _ = server.serve_listener(l, &cfgpath).await;
    });
    let mut results: Vec<(String, String, Vec<(String, String)>)> = Vec::new();
    for (idx, req, end) in &plan.reqs {
        let mut line = format!("hs {} {} {} {}", idx, if plan.cfg.is_empty() { "-" } else { &plan.cfg }, req, end);
        let mut fails: Vec<(String, String)> = Vec::new();
        let (c0, d0, h0, e0) = (cnt.connect.load(Ordering::SeqCst), cnt.disconnect.load(Ordering::SeqCst), cnt.hs_err.load(Ordering::SeqCst), cnt.conn_err.load(Ordering::SeqCst));
        cnt.ctx.lock().unwrap().clear();
        let mut accepted = false;
        let mut note = None;
        match tokio::time::timeout(wd(), tokio::net::TcpStream::connect(addr)).await {
            Ok(Ok(mut s)) if end.starts_with("frag") || end.starts_with("stall") => {
                // the upgrade request arrives in pieces (every byte on its own / three pieces with a stall in between)
                use tokio::io::AsyncReadExt;
                let _ = s.set_nodelay(true);
                let text = format!("GET {}?who=7 HTTP/1.1\r\nHost: x\r\nConnection: Upgrade\r\nUpgrade: websocket\r\nSec-WebSocket-Version: 13\r\nSec-WebSocket-Key: dGhlIHNhbXBsZSBub25jZQ==\r\n\r\n", req);
                let bytes = text.as_bytes();
                let stall_ms: u64 = end.strip_prefix("stall").and_then(|x| x.parse().ok()).unwrap_or(20);
                let cuts: Vec<usize> = if end == "frag1" { (1..=bytes.len()).collect() } else { vec![5, bytes.len() - 3, bytes.len()] };
                let mut from = 0;
                for (k, c) in cuts.iter().enumerate() {
                    let _ = s.write_all(&bytes[from..*c]).await;
                    let _ = s.flush().await;
                    from = *c;
                    if end != "frag1" || k % 24 == 0 {
                        tokio::time::sleep(Duration::from_millis(if end != "frag1" { stall_ms } else { 1 })).await;
                    }
                }
                let mut head = Vec::new();
                let mut buf = [0u8; 512];
                let deadline = tokio::time::Instant::now() + wd();
                while !head.windows(4).any(|w| w == b"\r\n\r\n") {
                    match tokio::time::timeout_at(deadline, s.read(&mut buf)).await {
                        Ok(Ok(n)) if n > 0 => head.extend_from_slice(&buf[..n]),
                        _ => break,
                    }
                }
                accepted = head.starts_with(b"HTTP/1.1 101");
                if accepted {
                    if !hs_until(&cnt.connect, c0 + 1).await {
                        note = Some("hs-connect-callback-watchdog");
                    }
                    if end.starts_with("stall") {
                        // a request frame that stalls in the middle of its REPE header for longer than any plausible
                        // internal timer: the connection must simply wait (no disconnect callback meanwhile)
                        let payload = RawFrame::request(1, false, 1, b"/echo", 2, b"1").to_vec();
                        let mut frame = vec![0x82u8, 0x80 | payload.len() as u8, 0, 0, 0, 0];
                        frame.extend_from_slice(&payload);
                        let _ = s.write_all(&frame[..26]).await;
                        let _ = s.flush().await;
                        tokio::time::sleep(Duration::from_millis(stall_ms)).await;
                        let early = cnt.disconnect.load(Ordering::SeqCst) - d0;
                        let _ = s.write_all(&frame[26..]).await;
                        let _ = s.flush().await;
                        let mut got = [0u8; 2];
                        let answered = tokio::time::timeout(wd(), s.read_exact(&mut got)).await.map(|r| r.is_ok()).unwrap_or(false);
                        if early > 0 || cnt.disconnect.load(Ordering::SeqCst) > d0 {
                            fails.push(("lifecycle.stall.spurious_disconnect".into(), format!("a frame stalled for {stall_ms} ms in mid-header: the disconnect callbacks ran although the peer was still connected")));
                        } else if !answered {
                            note = Some("stalled-request-not-answered");
                        }
                    }
                    drop(s);
                    if !hs_until(&cnt.disconnect, d0 + 1).await {
                        fails.push(("lifecycle.disconnect.missing".into(), "disconnect callback not invoked after the accepted connection was dropped".into()));
                    }
                    hs_until(&cnt.conn_err, e0 + 1).await;
                } else {
                    hs_until(&cnt.hs_err, h0 + 1).await;
                }
            }
            Ok(Ok(s)) => {
                let b: BoxIo = Box::new(s);
                match tokio::time::timeout(wd(), tokio_tungstenite::client_async(format!("ws://{}{}?who=7", addr, req), b)).await {
                    Ok(Ok((mut ws, _))) => {
                        accepted = true;
                        if !hs_until(&cnt.connect, c0 + 1).await {
                            note = Some("hs-connect-callback-watchdog");
                        }
                        let _ = match end.as_str() {
                            "close" => ws.send(WsMsg::Close(None)).await,
                            "text" => ws.send(WsMsg::Text("x".into())).await,
                            _ => ws.send(WsMsg::Binary(vec![1, 2, 3])).await,
                        };
                        let mut sink = Vec::new();
                        let _ = read_frames(&mut ws, &mut sink, |_| false).await;
                        drop(ws);
                        if !hs_until(&cnt.disconnect, d0 + 1).await {
                            fails.push(("lifecycle.disconnect.missing".into(), "disconnect callback not invoked after the accepted connection ended".into()));
                        }
                        if end != "close" {
                            hs_until(&cnt.conn_err, e0 + 1).await;
                        }
                    }
                    Ok(Err(_)) => {
                        hs_until(&cnt.hs_err, h0 + 1).await;
                    }
                    Err(_) => note = Some("hs-handshake-watchdog"),
                }
            }
            _ => note = Some("hs-tcp-connect"),
        }
        tokio::time::sleep(Duration::from_millis(15)).await;
        let (dc, dd, dh, de) = (cnt.connect.load(Ordering::SeqCst) - c0, cnt.disconnect.load(Ordering::SeqCst) - d0, cnt.hs_err.load(Ordering::SeqCst) - h0, cnt.conn_err.load(Ordering::SeqCst) - e0);
        let ctx = cnt.ctx.lock().unwrap().join("|");
        // whether the dependency's handshake parser accepts a request delivered in pieces is recorded, not asserted
        // (seen once under CPU load: a byte-wise upgrade for the right path answered with a handshake error; no hook
        // fired, which is all the property asks of a failed handshake)
        let pieces = end.starts_with("frag") || end.starts_with("stall");
        if pieces && accepted != hs_spec(&plan.cfg, req) {
            note = Some("hs-fragmented-upgrade-outcome-differs-from-path-rule");
        }
        if !pieces && accepted != hs_spec(&plan.cfg, req) {
            fails.push(("lifecycle.handshake.path_check".into(), format!("configured path {:?}, request path {:?}: accepted={} but the request path {} the normalised configured path", plan.cfg, req, accepted, if accepted { "differs from" } else { "equals" })));
        }
        if !accepted && (dc > 0 || dd > 0) {
            fails.push(("lifecycle.handshake_failure.hooks_fired".into(), format!("rejected upgrade ({:?} vs {:?}) but {dc} connect / {dd} disconnect callbacks fired", plan.cfg, req)));
        }
        if accepted && dd > 1 {
            fails.push(("lifecycle.disconnect.duplicate".into(), format!("{dd} disconnect callbacks for one accepted connection")));
        }
        if dh + de > 1 {
            fails.push(("lifecycle.on_error.duplicate".into(), format!("{dh} handshake + {de} connection errors reported for one connection")));
        }
        if pieces {
            line.push_str(if accepted { " a" } else { " r" });
        }
        let obs = format!("{} {} hooks={}/{} ctx={} err=h{}c{}", idx, if accepted { "accept" } else { "reject" }, dc, dd, if ctx.is_empty() { "-".to_string() } else { ctx }, dh, de);
        let _ = note.map(|n| out.lock().unwrap().count(&format!("note.{n}")));
        results.push((line, obs, fails));
    }
    task.abort();
    let mut o = out.lock().unwrap();
    let replay: Vec<String> = results.iter().map(|r| r.0.clone()).collect();
    for (line, obs, fails) in results {
        for (sig, detail) in fails {
            o.oracle_fail(&sig, &format!("[{line}] {detail}"), &replay);
        }
        o.count(&format!("hs.{}", obs.split(' ').nth(1).unwrap_or("x")));
        o.case(&line, &obs, true);
    }
}

/// stalled handshakes and frames, each on its own server, all at once
fn plan_stalls(thorough: bool) -> Vec<HsPlan> {
    let ms: &[u64] = if thorough { &[300, 600, 1100, 2500, 5500, 11000] } else { &[300, 600, 1100] };
    ms.iter().enumerate().map(|(i, m)| HsPlan { cfg: "/repe".into(), reqs: vec![(format!("st{i}"), "/repe".into(), format!("stall{m}"))] }).collect()
}

fn plan_hs() -> Vec<HsPlan> {
    let cfgs = ["", "/", "repe", "/repe", "repe/", "/repe//", "a/b", "/a/b/", "//", "/x-y_z"];
    let reqs = ["/", "/repe", "/repe/", "/a/b", "/a/b/", "/a", "/x-y_z", "/other"];
    let ends = ["close", "malformed", "text", "frag1", "frag3"];
    cfgs.iter()
        .enumerate()
        .map(|(i, c)| HsPlan { cfg: c.to_string(), reqs: reqs.iter().enumerate().map(|(j, r)| (format!("h{i}.{j}"), r.to_string(), ends[(i + j) % 5].to_string())).collect() })
        .collect()
}

// ---------------------------------------------------------------------------------------------
// bursts (`burst` op lines): n connections entering `handle_connection_with_config` at the same instant on
// a multi-thread runtime (released through a barrier); every connection must get its own identity
// ---------------------------------------------------------------------------------------------
struct BurstPlan {
    idx: String,
    entry: Entry,
    n: usize,
    end: String,
    /// a replayed burst is repeated until it fails (the race it provokes is a matter of instructions)
    reps: usize,
}
impl BurstPlan {
    fn line(&self) -> String {
        format!("burst {} {} {} {}", self.idx, self.entry.name(), self.n, self.end)
    }
}

async fn run_burst(plan: BurstPlan, server_rt: &tokio::runtime::Runtime, out: &Mutex<Out>) {
    let mut last = (String::new(), Vec::new());
    for _ in 0..plan.reps.max(1) {
        last = burst_once(&plan, server_rt).await;
        if !last.1.is_empty() {
            break;
        }
    }
    let (obs, fails) = last;
    let mut o = out.lock().unwrap();
    let line = plan.line();
    let mut seen = std::collections::BTreeSet::new();
    for (sig, detail) in fails {
        if seen.insert(sig.clone()) {
            o.oracle_fail(&sig, &format!("[{line}] {detail}"), &[line.clone()]);
        }
    }
    o.count(&format!("burst.{}.{}", plan.entry.name(), plan.n));
    o.case(&line, &obs, true);
}

async fn burst_once(plan: &BurstPlan, server_rt: &tokio::runtime::Runtime) -> (String, Vec<(String, String)>) {
    let reg = PeerRegistry::new();
    let connects: Arc<Mutex<HashMap<u64, u32>>> = Default::default();
    let discs: Arc<Mutex<HashMap<u64, u32>>> = Default::default();
    let total_disc = Arc::new(AtomicU64::new(0));
    let (c1, d1, td) = (connects.clone(), discs.clone(), total_disc.clone());
    let router = Router::new().with_json_ctx("/whoami", |ctx: &CallContext, _v: Value| Ok(json!(ctx.peer().map(|p| p.peer_id().0))));
    let server = WebSocketServer::new(router)
        .with_peer_registry(reg.clone())
        .on_peer_connect(move |p: PeerHandle| {
            *c1.lock().unwrap().entry(p.peer_id().0).or_default() += 1;
        })
        .on_peer_disconnect(move |id: PeerId| {
            *d1.lock().unwrap().entry(id.0).or_default() += 1;
            td.fetch_add(1, Ordering::SeqCst);
        });
    let n = plan.n;
    let h = server_rt.handle().clone();
    let mut server_tasks = Vec::new();
    let mut listener_task = None;
    let mut clients: Vec<tokio::task::JoinHandle<Result<(Ws, Option<u64>), String>>> = Vec::new();
    if plan.entry == Entry::Adopt {
        let shared = server.into_shared();
        let barrier = Arc::new(tokio::sync::Barrier::new(n));
        for _ in 0..n {
            let (cio, sio) = tokio::io::duplex(64 * 1024);
            let (sh, b) = (shared.clone(), barrier.clone());
            server_tasks.push(h.spawn(async move {
                b.wait().await;
                let ws = sh.adopt_upgraded(sio).await;
                let _ = sh.serve_connection(ws).await;
            }));
            clients.push(tokio::spawn(async move {
                let b: BoxIo = Box::new(cio);
                let mut ws: Ws = WebSocketStream::from_raw_socket(b, Role::Client, None).await;
                let v = rx_call(&mut ws, 1, "/whoami", &json!(null)).await;
                Ok((ws, v.ok().and_then(|v| v.as_u64())))
            }));
        }
    } else {
        let l = std::net::TcpListener::bind("127.0.0.1:0").expect("bind");
        l.set_nonblocking(true).unwrap();
        let addr = l.local_addr().unwrap();
        listener_task = Some(h.spawn(async move {
            let l = tokio::net::TcpListener::from_std(l).unwrap();
            let _ = server.serve_listener(l, "/repe").await;
        }));
        let barrier = Arc::new(tokio::sync::Barrier::new(n));
        for _ in 0..n {
            let b = barrier.clone();
            clients.push(tokio::spawn(async move {
                let s = tokio::time::timeout(wd(), tokio::net::TcpStream::connect(addr)).await.map_err(|_| "tcp-connect-watchdog")?.map_err(|e| e.to_string())?;
                b.wait().await;
                let bx: BoxIo = Box::new(s);
                let (mut ws, _) = tokio::time::timeout(wd(), tokio_tungstenite::client_async(format!("ws://{addr}/repe"), bx)).await.map_err(|_| "ws-handshake-watchdog")?.map_err(|e| e.to_string())?;
                let v = rx_call(&mut ws, 1, "/whoami", &json!(null)).await;
                Ok((ws, v.ok().and_then(|v| v.as_u64())))
            }));
        }
    }
    let mut conns: Vec<(Ws, Option<u64>)> = Vec::new();
    let mut broken = 0usize;
    for c in clients {
        match c.await {
            Ok(Ok(x)) => conns.push(x),
            _ => broken += 1,
        }
    }
    let mut fails: Vec<(String, String)> = Vec::new();
    let ids: Vec<u64> = conns.iter().filter_map(|c| c.1).collect();
    let unanswered = conns.iter().filter(|c| c.1.is_none()).count() + broken;
    let mut sorted = ids.clone();
    sorted.sort();
    let mut dups: Vec<u64> = sorted.windows(2).filter(|w| w[0] == w[1]).map(|w| w[0]).collect();
    dups.extend(connects.lock().unwrap().iter().filter(|(_, c)| **c > 1).map(|(id, _)| *id));
    dups.sort();
    dups.dedup();
    if !dups.is_empty() {
        fails.push(("lifecycle.peer_id.duplicate".into(), format!("{} connections accepted at the same instant: peer id(s) {:?} were handed to more than one live connection", n, dups)));
    }
    if unanswered > 0 {
        fails.push(("lifecycle.burst.connection_lost".into(), format!("{unanswered} of {n} concurrently accepted connections died before answering their first request")));
    }
    let present = ids.iter().filter(|id| reg.get(PeerId(**id)).map(|h| h.peer_id().0) == Some(**id)).count();
    if present != ids.len() || reg.len() != n {
        fails.push(("lifecycle.registry.absent_while_connected".into(), format!("{} live connections, {} of their ids resolve, registry holds {} peers", n, present, reg.len())));
    }
    // end them all
    let mut k = 0;
    for (mut ws, _) in conns {
        k += 1;
        if plan.end == "close" || (plan.end == "mix" && k % 2 == 0) {
            let _ = ws.send(WsMsg::Close(None)).await;
        }
        drop(ws);
    }
    let t0 = Instant::now();
    while (total_disc.load(Ordering::SeqCst) as usize) < n - broken && t0.elapsed() < wd() {
        tokio::time::sleep(Duration::from_millis(1)).await;
    }
    for t in server_tasks {
        let _ = tokio::time::timeout(wd(), t).await;
    }
    let t1 = Instant::now();
    while reg.len() > 0 && t1.elapsed() < Duration::from_millis(500) {
        tokio::time::sleep(Duration::from_millis(1)).await;
    }
    tokio::time::sleep(Duration::from_millis(5)).await;
    if let Some(t) = listener_task {
        t.abort();
    }
    let dmap = discs.lock().unwrap().clone();
    let once = ids.iter().filter(|id| dmap.get(id).copied() == Some(1)).count();
    let twice: Vec<u64> = dmap.iter().filter(|(_, c)| **c > 1).map(|(id, _)| *id).collect();
    if !twice.is_empty() {
        fails.push(("lifecycle.disconnect.duplicate".into(), format!("disconnect callbacks ran more than once for peer id(s) {:?}", twice)));
    } else if once != ids.len() {
        fails.push(("lifecycle.disconnect.missing".into(), format!("{} connections ended, {} ids saw exactly one disconnect callback", ids.len(), once)));
    }
    if reg.len() != 0 {
        fails.push(("lifecycle.registry.present_after_disconnect".into(), format!("all connections are over, the registry still holds {} peers", reg.len())));
    }
    let obs = format!(
        "{} ids={} live={}/{} disc={}x1 after={}",
        plan.idx,
        if dups.is_empty() && unanswered == 0 { "distinct" } else { "collide" },
        present,
        n,
        once,
        if reg.len() == 0 { "empty".to_string() } else { reg.len().to_string() }
    );
    (obs, fails)
}

fn plan_burst(rng: &mut Rng, thorough: bool) -> Vec<BurstPlan> {
    let mut v = Vec::new();
    let (na, nl) = if thorough { (400, 40) } else { (60, 8) };
    for i in 0..na {
        v.push(BurstPlan { idx: format!("b{i}"), entry: Entry::Adopt, n: *rng.pick(&[16usize, 24, 32]), end: rng.pick(&["drop", "close", "mix"]).to_string(), reps: 1 });
    }
    for i in 0..nl {
        v.push(BurstPlan { idx: format!("bl{i}"), entry: Entry::Listener, n: 32, end: rng.pick(&["drop", "close", "mix"]).to_string(), reps: 1 });
    }
    v
}

// ---------------------------------------------------------------------------------------------
// runs (`hsrun` op lines): N rejected upgrades in a row, then M accepted connections one after the other on the
// same server while the first of them stays open — the N-th / M-th must be treated like the first
// ---------------------------------------------------------------------------------------------
struct HsRun {
    idx: String,
    nrej: usize,
    nacc: usize,
}

async fn run_hsrun(p: HsRun, server_rt: &tokio::runtime::Runtime, out: &Mutex<Out>) {
    let cnt = Arc::new(HsCount::default());
    let (c1, c3, c4) = (cnt.clone(), cnt.clone(), cnt.clone());
    let router = Router::new().with_json_ctx("/whoami", |ctx: &CallContext, _v: Value| Ok(json!(ctx.peer().map(|p| p.peer_id().0))));
    let server = WebSocketServer::new(router)
        .on_peer_connect(move |_p: PeerHandle| {
            c1.connect.fetch_add(1, Ordering::SeqCst);
        })
        .on_peer_disconnect(move |_id: PeerId| {
            c3.disconnect.fetch_add(1, Ordering::SeqCst);
        })
        .on_error(move |e| {
            if matches!(e, repe::ConnectionError::Handshake(_)) {
                c4.hs_err.fetch_add(1, Ordering::SeqCst);
            }
        });
    let l = std::net::TcpListener::bind("127.0.0.1:0").expect("bind");
    l.set_nonblocking(true).unwrap();
    let addr = l.local_addr().unwrap();
    let task = server_rt.handle().spawn(async move {
        let l = tokio::net::TcpListener::from_std(l).unwrap();
        let _ = server.serve_listener(l, "/repe").await;
    });
    let line = format!("hsrun {} {} {}", p.idx, p.nrej, p.nacc);
    let mut fails: Vec<(String, String)> = Vec::new();
    let connect = |path: &'static str| async move {
        let s = tokio::time::timeout(wd(), tokio::net::TcpStream::connect(addr)).await.ok()?.ok()?;
        let b: BoxIo = Box::new(s);
        tokio::time::timeout(wd(), tokio_tungstenite::client_async(format!("ws://{addr}{path}"), b)).await.ok()?.ok().map(|x| x.0)
    };
    let mut wrongly_accepted = 0;
    for _ in 0..p.nrej {
        if connect("/wrong").await.is_some() {
            wrongly_accepted += 1;
        }
    }
    hs_until(&cnt.hs_err, p.nrej as u64).await;
    let mut ids: Vec<u64> = Vec::new();
    let mut first: Option<Ws> = None;
    let mut lost = 0;
    for i in 0..p.nacc {
        match connect("/repe").await {
            Some(mut ws) => {
                match rx_call(&mut ws, 1, "/whoami", &json!(null)).await.ok().and_then(|v| v.as_u64()) {
                    Some(id) => ids.push(id),
                    None => lost += 1,
                }
                if i == 0 {
                    first = Some(ws);
                } else {
                    let _ = ws.send(WsMsg::Close(None)).await;
                    drop(ws);
                }
            }
            None => lost += 1,
        }
    }
    drop(first);
    hs_until(&cnt.disconnect, (p.nacc - lost) as u64).await;
    tokio::time::sleep(Duration::from_millis(10)).await;
    task.abort();
    let (c, d, h) = (cnt.connect.load(Ordering::SeqCst), cnt.disconnect.load(Ordering::SeqCst), cnt.hs_err.load(Ordering::SeqCst));
    let mut sorted = ids.clone();
    sorted.sort();
    let distinct = sorted.windows(2).all(|w| w[0] != w[1]);
    if !distinct {
        fails.push(("lifecycle.peer_id.duplicate".into(), format!("{} connections one after the other while the first stays open: ids {:?} repeat", p.nacc, sorted.windows(2).filter(|w| w[0] == w[1]).map(|w| w[0]).collect::<Vec<_>>())));
    }
    if wrongly_accepted > 0 || c as usize > p.nacc {
        fails.push(("lifecycle.handshake_failure.hooks_fired".into(), format!("{} rejected upgrades in a row: {wrongly_accepted} were accepted, {c} connect callbacks for {} accepted connections", p.nrej, p.nacc)));
    }
    if lost > 0 || (c as usize) < p.nacc {
        fails.push(("lifecycle.connect.missing".into(), format!("after {} rejected upgrades, {} accepted connections one after the other: {lost} were not served, {c} connect callbacks", p.nrej, p.nacc)));
    }
    if d as usize > p.nacc {
        fails.push(("lifecycle.disconnect.duplicate".into(), format!("{d} disconnect callbacks for {} connections", p.nacc)));
    } else if (d as usize) < p.nacc {
        fails.push(("lifecycle.disconnect.missing".into(), format!("{d} disconnect callbacks for {} connections", p.nacc)));
    }
    let obs = format!("{} rejects={} herr={} hooks={}/{} ids={}", p.idx, p.nrej - wrongly_accepted, h, c, d, if distinct && ids.len() == p.nacc { "distinct" } else { "collide" });
    let mut o = out.lock().unwrap();
    for (sig, detail) in fails {
        o.oracle_fail(&sig, &format!("[{line}] {detail}"), &[line.clone()]);
    }
    o.count("hsrun");
    o.case(&line, &obs, true);
}

fn plan_hsrun(thorough: bool) -> Vec<HsRun> {
    let mut v: Vec<(usize, usize)> = vec![(1, 1), (2, 2), (7, 8), (9, 9), (16, 17), (17, 65), (64, 2), (65, 66)];
    if thorough {
        v.extend([(256, 257), (1000, 3)]);
    }
    v.into_iter().enumerate().map(|(i, (nrej, nacc))| HsRun { idx: format!("hr{i}"), nrej, nacc }).collect()
}

enum AnyPlan {
    HsRun(HsRun),
    Life(Plan),
    Rx(RxPlan),
    Hs(HsPlan),
    Stalls(Vec<HsPlan>),
    Burst(BurstPlan),
}

/// Public entry points of src/websocket_server.rs the harness drives …
const DRIVEN: &[&str] = &[
    "new", "with_outbound_capacity", "with_limits", "with_offreader_limit", "with_peer_registry", "on_peer_connect",
    "on_peer_connect_with_handshake", "on_peer_disconnect", "on_error", "serve_listener", "serve_listener_with_shutdown",
    "serve_listener_with_graceful_drain", "into_shared", "accept", "accept_with_limits", "accept_with_handshake",
    "accept_with_handshake_and_limits", "limits", "adopt_upgraded", "adopt_upgraded_partially_read", "serve_connection",
    "serve_connection_with_handshake", "serve_connection_with_cancel", "serve_connection_with_cancel_and_handshake", "cancel",
    "from_http_request", "path", "query",
];
/// … and the ones it knowingly does not, with the reason.
const NOT_DRIVEN: &[(&str, &str)] = &[
    ("serve", "binds the address, then serve_listener (needs a fixed port)"),
    ("serve_with_shutdown", "binds the address, then serve_listener_with_shutdown"),
    ("serve_with_graceful_drain", "binds the address, then serve_listener_with_graceful_drain"),
    ("listen", "TcpListener::bind"),
    ("is_cancelled", "ShutdownToken getter"),
    ("cancelled", "ShutdownToken future (the connection's own token is what handlers wait on)"),
    ("header", "HandshakeContext getter"),
    ("headers", "HandshakeContext getter"),
    ("error_code", "ConnectionError -> ErrorCode table (C16/C17)"),
    ("derive_accept_key", "SHA-1/base64 of the upgrade key: adopted upgrades are performed by the embedder"),
    ("proxy_connection", "no peer, no hooks, no token"),
    ("proxy_connection_with_limits", "no peer, no hooks, no token"),
    ("is_websocket_upgrade", "co-hosting sniff before any handshake"),
];

/// Every `pub fn` of the anchored source file of the tree under test is either driven or knowingly not driven;
/// anything else (a new twin) is reported in the evidence and on stderr.
fn entry_point_audit(out: &mut Out) {
    let repo = std::env::var("VERIF_REPO").unwrap_or_else(|_| "/repo".into());
    let text = std::fs::read_to_string(std::path::Path::new(&repo).join("src/websocket_server.rs")).unwrap_or_default();
    let text = text.split("#[cfg(test)]").next().unwrap_or("").to_string();
    let mut unknown: Vec<String> = Vec::new();
    let mut seen = 0;
    for line in text.lines() {
        let t = line.trim_start();
        for pre in ["pub async fn ", "pub fn "] {
            if let Some(rest) = t.strip_prefix(pre) {
                let name: String = rest.chars().take_while(|c| c.is_alphanumeric() || *c == '_').collect();
                seen += 1;
                if !DRIVEN.contains(&name.as_str()) && !NOT_DRIVEN.iter().any(|(n, _)| *n == name) && !unknown.contains(&name) {
                    unknown.push(name);
                }
            }
        }
    }
    for u in &unknown {
        eprintln!("fam_lifecycle: public entry point `{u}` of src/websocket_server.rs is neither driven nor listed as not driven");
        out.count(&format!("NOT_DRIVEN.{u}"));
    }
    out.extra.insert("entry_points_seen".into(), json!(seen));
    out.extra.insert("not_driven".into(), json!(unknown));
    out.extra.insert("not_driven_known".into(), json!(NOT_DRIVEN.iter().map(|(n, w)| format!("{n}: {w}")).collect::<Vec<_>>()));
}

fn main() {
    let args = Args::parse();
    // the release-profile twin of the thorough tier runs the quick-sized plan (its point is cfg(debug_assertions) off)
    let deep = args.thorough() && !args.has("--release-profile");
    quiet_panics();
    let mut out = Out::new(&args.out);
    out.rule = "one case = one connection driven through (entry × phase × exit cause) on a real server, 1..32 connections per server instance concurrently; every valid combination of the matrix is generated once per round (quick: 4 rounds, thorough: 40) with random hook counts (1-3 plain, 0-2 handshake-aware connect callbacks, 1-3 disconnect callbacks), registry on/off, notifies per connect callback, the callback the connection is held in / that panics; non-trivial = the connection was accepted or its handshake failed as scripted and its callbacks' trace was compared (all cases). Registry scripts (rx lines; quick 60, thorough 600 scripts of 10-25 steps on serve_listener / serve_connection / adopt_upgraded servers with with_peer_registry): up to 5 live connections whose connect hook registers 0-3 aliases (a shared user key first, so later connections take over non-newest aliases), alias calls from inline and off-reader handlers, alias calls kept in flight (key conversion blocks until the peer is removed) while the connection ends by Close / drop / malformed frame; after every step get_by for every key ever used and get / aliases_for / key_for for every connection ever opened are compared with C18's model and with the harness's own reading of the history".into();
    entry_point_audit(&mut out);
    THOROUGH.store(deep, Ordering::SeqCst);
    let mut rng = Rng::new(args.seed);
    let plans: Vec<AnyPlan> = match args.replay_ops() {
        Some(ops) => parse_replay(&ops),
        None => {
            // registry scripts first (cheap), then the lifecycle matrix
            let nrx = if deep { 600 } else { 60 };
            let mut v: Vec<AnyPlan> = plan_hs().into_iter().map(AnyPlan::Hs).collect();
            v.push(AnyPlan::Stalls(plan_stalls(deep)));
            v.extend(plan_burst(&mut rng, deep).into_iter().map(AnyPlan::Burst));
            v.extend(plan_hsrun(deep).into_iter().map(AnyPlan::HsRun));
            v.extend((0..nrx).map(|i| AnyPlan::Rx(plan_rx(&mut rng, 100_000 + i))));
            v.extend(plan(&mut rng, deep).into_iter().map(AnyPlan::Life));
            v
        }
    };
    let server_rt = tokio::runtime::Builder::new_multi_thread().worker_threads(48).max_blocking_threads(256).enable_all().thread_name("srv").build().unwrap();
    let small_rt = tokio::runtime::Builder::new_multi_thread().worker_threads(4).max_blocking_threads(1).enable_all().thread_name("srv-small").build().unwrap();
    let client_rt = tokio::runtime::Builder::new_multi_thread().worker_threads(4).enable_all().thread_name("cli").build().unwrap();
    let settle = Duration::from_millis(if deep { 60 } else { 30 });
    let out = Mutex::new(out);
    let stop = AtomicBool::new(false);
    client_rt.block_on(async {
        for p in plans {
            if stop.load(Ordering::SeqCst) {
                break;
            }
            match p {
                AnyPlan::Life(p) => {
                    {
                        let mut o = out.lock().unwrap();
                        o.begin(&format!("{}\n{}", p.cfg.line(), p.scens.iter().map(|s| s.line(0)).collect::<Vec<_>>().join("\n")));
                        o.count(&format!("group.size.{}", p.scens.len()));
                    }
                    let (t0, gl) = (Instant::now(), p.cfg.line());
                    run_group(p.cfg, p.scens, &server_rt, &small_rt, &out, settle).await;
                    if std::env::var("LC_TRACE").is_ok() && t0.elapsed() > Duration::from_secs(2) {
                        eprintln!("SLOW {:?} {}", t0.elapsed(), gl);
                    }
                }
                AnyPlan::Rx(p) => run_rx(p, &server_rt, &out).await,
                AnyPlan::Hs(p) => run_hs(p, &server_rt, &out).await,
                AnyPlan::Stalls(ps) => {
                    futures_util::future::join_all(ps.into_iter().map(|p| run_hs(p, &server_rt, &out))).await;
                }
                AnyPlan::Burst(p) => run_burst(p, &server_rt, &out).await,
                AnyPlan::HsRun(p) => run_hsrun(p, &server_rt, &out).await,
            }
            // a failing input has been found and recorded with its replay: no need to wait out the watchdogs
            // of every later group
            if out.lock().unwrap().oracle_failures > 0 {
                stop.store(true, Ordering::SeqCst);
            }
        }
    });
    let mut out = out.into_inner().unwrap();
    out.extra.insert("entries".into(), json!(["serve_listener", "serve_listener_with_graceful_drain (drain timeout 60 s / 0)", "accept + serve_connection(_with_handshake)", "accept + serve_connection_with_cancel(_and_handshake)", "adopt_upgraded over tokio duplex + serve_connection_with_cancel(_and_handshake)"]));
    out.finish();
    server_rt.shutdown_background();
    small_rt.shutdown_background();
    client_rt.shutdown_background();
}
