//! Family `torn` (C05): what the six endpoints put on a connection while the peer stalls.
//!
//! For each of blocking client, async client, WebSocket client, blocking server, async server and
//! WebSocket server a *scripted peer* on a raw TCP socket stops reading at a chosen byte count (kernel
//! buffers, shrunk with SO_RCVBUF/SO_SNDBUF, fill up) while up to 32 concurrent writers (calls,
//! notifies, pipelined responses, pushed notifies) send bodies from 0 B to several MiB; a write timeout
//! is configured, or in-progress calls are cancelled, or a graceful drain deadline aborts the
//! connection; the peer then resumes, drains to EOF or a quiet period, and the captured bytes are
//! parsed by an independent oracle (literal spec offsets, own WebSocket de-framer).  Every body carries
//! a pattern derived from its tag, so interleaving inside a body is detectable.
//!
//! Oracle (the property's own statement): captured stream = whole expected frames with intact bodies,
//! at most one truncated frame, and only as the very last bytes of the connection.
//! Everything timing dependent (which frames made it, where the torn one was cut) is *recorded* and
//! handed to the model on the op line (`rec …`); nothing is asserted about when a timeout fires.
use repe::server::HandlerErased;
use repe::{AsyncClient, AsyncServer, BodyFormat, Client, Message, NotifyBody, PeerRegistry, PeerSendError, RepeError, Router, Server, WebSocketClient, WebSocketLimits, WebSocketServer};
use repe_verif_harness::frames::{RawFrame, RawHeader};
use repe_verif_harness::*;
use std::collections::HashMap;
use std::io::{Read, Write};
use std::net::{Shutdown, SocketAddr, TcpListener, TcpStream};
use std::os::fd::{AsRawFd, FromRawFd};
use std::sync::atomic::{AtomicBool, AtomicU64, AtomicUsize, Ordering::SeqCst};
use std::sync::{Arc, Barrier, Mutex};
use std::time::{Duration, Instant};

const WATCHDOG: Duration = Duration::from_secs(15);
const QUIET: Duration = Duration::from_millis(200);
const EP_NAMES: [&str; 7] = ["blocking_client", "async_client", "ws_client", "blocking_server", "async_server", "ws_server", "ws_proxy"];
/// digest (and byte-level model run) only for streams up to this many bytes
const DIGEST_CAP: usize = 4 << 20;

// ---------------------------------------------------------------------------------------------
// body pattern and expected frames
// ---------------------------------------------------------------------------------------------
fn pat_byte(tag: u64, i: u64) -> u8 {
    (tag.wrapping_mul(131).wrapping_add(i).wrapping_add(i / 251) & 0xff) as u8
}
fn pat(tag: u64, len: usize) -> Vec<u8> {
    (0..len as u64).map(|i| pat_byte(tag, i)).collect()
}

/// body of the JSON entry points: a JSON string `"…"` of `size` bytes in all
fn json_byte(tag: u64, i: u64, size: u64) -> u8 {
    if i == 0 || i + 1 == size { b'"' } else { b'a' + ((tag + i) % 26) as u8 }
}
fn body_byte(kind: char, tag: u64, i: u64, size: u64) -> u8 {
    if is_json(kind) { json_byte(tag, i, size) } else { pat_byte(tag, i) }
}
fn body_of(kind: char, tag: u64, size: usize) -> Vec<u8> {
    (0..size as u64).map(|i| body_byte(kind, tag, i, size as u64)).collect()
}
/// the string whose JSON encoding is `body_of(json kind, tag, size)`
fn json_string(tag: u64, size: usize) -> String {
    let b = body_of('j', tag, size);
    String::from_utf8_lossy(&b[1..size - 1]).to_string()
}
fn qchar(tag: u64, i: u64) -> u8 {
    let c = ((tag * 7 + i + i / 61) % 36) as u8;
    if c < 26 { b'a' + c } else { b'0' + (c - 26) }
}
/// `<prefix><tag>` or, when `qlen` is larger, that followed by `/` and pattern characters up to `qlen` bytes
fn query_of(prefix: &str, tag: usize, qlen: usize) -> Vec<u8> {
    let mut q = format!("{}{}", prefix, tag).into_bytes();
    if qlen > q.len() {
        q.push(b'/');
        while q.len() < qlen {
            let i = q.len() as u64;
            q.push(qchar(tag as u64, i));
        }
    }
    q
}

/// entry points used for "the next call" after the fault (clients)
const FOLLOW: &str = "tTjJyYvVbmfFSAgGH";
fn is_follow(k: char) -> bool {
    FOLLOW.contains(k)
}
fn is_json(k: char) -> bool {
    "jJyYbGH".contains(k)
}

#[derive(Clone, Debug, Default)]
struct Wr {
    /// clients: c call, n notify (issued concurrently before the fault); issued one after the other once
    /// the fault happened: t notify_with_formats, T call_with_formats, j notify_json, J call_json,
    /// y notify_typed_json, Y call_typed_json, v notify_typed_beve, V call_typed_beve, b batch_json (all b's of
    /// a script in one batch), m call_message (empty body), f forward_message(notify), F forward_message(request)
    /// (async client).
    /// servers: r request (inline route), o request to an off-reader route (WebSocket server), q notify-request,
    /// p pushed notify, B broadcast notify, h notify pushed from the connect hook (WebSocket server)
    kind: char,
    size: usize,
    /// q: query length (0 = the short `/x/<tag>`); longer queries are padded with pattern characters
    qlen: usize,
    /// f: query format code (default 1 = JSON pointer)
    qf: Option<u16>,
    /// g: body format code (default: what the entry point uses)
    bf: Option<u16>,
    /// i: id of a forwarded message (clients) / of the request (servers)
    id: Option<u64>,
    /// y: notify byte of a forwarded message / of the request (only 1 means notify)
    nb: Option<u8>,
    /// u: path variant: 0 ASCII, 1 non-ASCII UTF-8, 2 empty path (clients)
    pv: u8,
    /// z: 1 = body passed as `None` instead of `Some(&[])` (size 0)
    zb: bool,
    /// h: what the handler does (servers): 0 answers, 1 returns Err, 2 panics with a String, 3 with a &str,
    /// 4 with a non-string payload, 5 is slow, 6 pushes a notify to the calling peer before answering
    hb: u8,
    /// t: 0 `_with_timeout` twin with the script's call timeout, 1 the twin without a timeout, 2 timeout 0, 3 timeout 1 ms
    tv: u8,
    /// v: REPE version byte of the request (servers)
    ver: Option<u8>,
    /// x: 1 = the request goes to a path that is not routed (servers)
    xr: bool,
    /// s: 1 = a follow-up call that is issued while the peer is STILL stalled (right after the first wave was
    /// abandoned) and is itself abandoned a moment later (async / WebSocket client)
    st: bool,
}

impl Wr {
    fn token(&self) -> String {
        let mut t = format!("{}{}", self.kind, self.size);
        let mut add = |c: char, v: u64, on: bool| {
            if on {
                t.push_str(&format!("{}{}", c, v));
            }
        };
        add('q', self.qlen as u64, self.qlen > 0);
        add('f', self.qf.unwrap_or(0) as u64, self.qf.is_some());
        add('g', self.bf.unwrap_or(0) as u64, self.bf.is_some());
        add('i', self.id.unwrap_or(0), self.id.is_some());
        add('y', self.nb.unwrap_or(0) as u64, self.nb.is_some());
        add('u', self.pv as u64, self.pv > 0);
        add('z', 1, self.zb);
        add('h', self.hb as u64, self.hb > 0);
        add('t', self.tv as u64, self.tv > 0);
        add('v', self.ver.unwrap_or(0) as u64, self.ver.is_some());
        add('x', 1, self.xr);
        add('s', 1, self.st);
        t
    }
    fn parse(t: &str) -> Option<Wr> {
        let mut ch = t.chars();
        let kind = ch.next()?;
        if !kind.is_ascii_alphabetic() {
            return None;
        }
        let rest: Vec<char> = ch.collect();
        let mut i = 0;
        let num = |i: &mut usize| -> Option<u64> {
            let st = *i;
            while *i < rest.len() && rest[*i].is_ascii_digit() {
                *i += 1;
            }
            rest[st..*i].iter().collect::<String>().parse().ok()
        };
        let mut w = Wr { kind, size: num(&mut i)? as usize, ..Default::default() };
        while i < rest.len() {
            let c = rest[i];
            i += 1;
            let v = num(&mut i)?;
            match c {
                'q' => w.qlen = v as usize,
                'f' => w.qf = Some(u16::try_from(v).ok()?),
                'g' => w.bf = Some(u16::try_from(v).ok()?),
                'i' => w.id = Some(v),
                'y' => w.nb = Some(u8::try_from(v).ok()?),
                'u' => w.pv = u8::try_from(v).ok()?,
                'z' => w.zb = v == 1,
                'h' => w.hb = u8::try_from(v).ok()?,
                't' => w.tv = u8::try_from(v).ok()?,
                'v' => w.ver = Some(u8::try_from(v).ok()?),
                'x' => w.xr = v == 1,
                's' => w.st = v == 1,
                _ => return None,
            }
        }
        if ((is_json(kind) || kind == 'o') && w.size < 2) || ((kind == 'm' || kind == 'g') && w.size != 0) || (w.zb && w.size != 0) || w.pv > 3 {
            return None;
        }
        Some(w)
    }
    /// query bytes of this writer's frame
    fn path(&self, prefix: &str, tag: usize) -> Vec<u8> {
        match self.pv {
            2 => Vec::new(),
            3 => {
                // 17 segments: one more than the router's inline segment stack
                let mut q = format!("{}{}", prefix, tag).into_bytes();
                for _ in 0..15 {
                    q.extend_from_slice(b"/s");
                }
                q
            }
            1 => {
                let mut q = format!("{}{}/\u{e9}\u{2713}", prefix, tag).into_bytes();
                while q.len() < self.qlen {
                    let i = q.len() as u64;
                    q.push(qchar(tag as u64, i));
                }
                q
            }
            _ => query_of(if self.xr { "/nope/" } else { prefix }, tag, self.qlen),
        }
    }
    fn path_str(&self, prefix: &str, tag: usize) -> String {
        String::from_utf8(self.path(prefix, tag)).unwrap()
    }
}

/// body of `notify_typed_beve` / `call_typed_beve` for this tag: the BEVE encoding of a string (computed with
/// the `beve` crate, a dependency of the crate under test, not the crate itself)
fn beve_body(tag: u64, size: usize) -> (String, Vec<u8>) {
    let s: String = (0..size as u64).map(|i| (b'a' + ((tag + i) % 26) as u8) as char).collect();
    let b = beve::to_vec(&s).expect("beve encode");
    (s, b)
}

/// One frame the endpoint may legitimately put on the wire.
struct Exp {
    tag: usize,
    kind: char,
    qfmt: u16,
    bfmt: u16,
    query: Vec<u8>,
    size: usize,
    notify: u8,
    /// `None`: assigned by the endpoint (client request ids) – any value accepted
    id: Option<u64>,
    /// explicit body bytes (BEVE) instead of a pattern: the model treats such a frame as opaque
    body: Option<Vec<u8>>,
    /// the model cannot build this frame (a notify byte other than 0/1): opaque for it, checked here all the same
    opaque: bool,
    /// the pattern frame may appear
    norm_ok: bool,
    /// an error response with this id may appear instead (servers: any request may be answered by an error)
    err_ok: bool,
    /// only the frame's structure is expected (typed-slice calls: the body is a BEVE typed array whose exact bytes
    /// — padding, alignment — are C01's and C08's business): consistent header, this query, any body
    struct_ok: bool,
}

/// result of matching an expected frame against the bytes at a frame boundary
#[derive(Clone, Copy)]
struct Match {
    len: usize,
    total: usize,
    opaque: bool,
}

impl Exp {
    fn total(&self) -> usize {
        48 + self.query.len() + self.size
    }
    fn header(&self, id: u64) -> [u8; 48] {
        RawHeader {
            length: self.total() as u64,
            spec: 0x1507,
            version: 1,
            notify: self.notify,
            reserved: 0,
            id,
            query_length: self.query.len() as u64,
            body_length: self.size as u64,
            query_format: self.qfmt,
            body_format: self.bfmt,
            ec: 0,
        }
        .encode()
    }
    /// longest common prefix of this frame's bytes and `s`
    fn lcp(&self, s: &[u8]) -> usize {
        let h = self.header(self.id.unwrap_or(0));
        let n = s.len().min(self.total());
        let q = self.query.len();
        for i in 0..n {
            let e = if i < 48 {
                if self.id.is_none() && (16..24).contains(&i) {
                    continue;
                }
                h[i]
            } else if i < 48 + q {
                self.query[i - 48]
            } else if let Some(b) = &self.body {
                b[i - 48 - q]
            } else {
                body_byte(self.kind, self.tag as u64, (i - 48 - q) as u64, self.size as u64)
            };
            if s[i] != e {
                return i;
            }
        }
        n
    }
    /// an error response to this request: consistent header, version 1, not a notify, the request's id,
    /// ec != 0; query and body are taken by their declared lengths (an echoed query must be the request's)
    fn err_match(&self, s: &[u8]) -> Match {
        let none = Match { len: 0, total: usize::MAX, opaque: true };
        let Some(id) = self.id else { return none };
        let idb = id.to_le_bytes();
        for i in 0..s.len().min(48) {
            let ok = match i {
                8 => s[i] == 0x07,
                9 => s[i] == 0x15,
                10 => s[i] == 1,
                11..=15 => s[i] == 0,
                16..=23 => s[i] == idb[i - 16],
                _ => true,
            };
            if !ok {
                return Match { len: i, total: usize::MAX, opaque: true };
            }
        }
        if s.len() < 48 {
            return Match { len: s.len(), total: usize::MAX, opaque: true };
        }
        let h = RawHeader::parse(s).unwrap();
        if !h.consistent() || h.ec == 0 || h.length > (1 << 30) {
            return none;
        }
        let total = h.length as usize;
        let ql = h.query_length as usize;
        if ql == self.query.len() {
            for i in 0..ql.min(s.len() - 48) {
                if s[48 + i] != self.query[i] {
                    return Match { len: 48 + i, total, opaque: true };
                }
            }
        }
        Match { len: s.len().min(total), total, opaque: true }
    }
    /// a consistent frame with this query, notify byte and (if known) id, `ec = 0`, any body of the declared length
    fn struct_match(&self, s: &[u8]) -> Match {
        let none = Match { len: 0, total: usize::MAX, opaque: true };
        if s.len() < 48 {
            // a prefix of a header: compatible as far as the fixed fields go
            for i in 0..s.len() {
                let ok = match i { 8 => s[i] == 0x07, 9 => s[i] == 0x15, 10 => s[i] == 1, 11 => s[i] == self.notify, 12..=15 => s[i] == 0, _ => true };
                if !ok {
                    return Match { len: i, total: usize::MAX, opaque: true };
                }
            }
            return Match { len: s.len(), total: usize::MAX, opaque: true };
        }
        let h = RawHeader::parse(s).unwrap();
        if !h.consistent() || h.ec != 0 || h.version != 1 || h.notify != self.notify || h.query_length as usize != self.query.len() || h.length > (1 << 30) || self.id.map_or(false, |i| i != h.id) {
            return none;
        }
        let total = h.length as usize;
        for i in 0..self.query.len().min(s.len() - 48) {
            if s[48 + i] != self.query[i] {
                return Match { len: 48 + i, total, opaque: true };
            }
        }
        Match { len: s.len().min(total), total, opaque: true }
    }
    fn matches(&self, s: &[u8]) -> Match {
        if self.struct_ok {
            return self.struct_match(s);
        }
        let n = if self.norm_ok { Match { len: self.lcp(s), total: self.total(), opaque: self.body.is_some() || self.opaque } } else { Match { len: 0, total: usize::MAX, opaque: true } };
        if self.err_ok {
            let e = self.err_match(s);
            if e.len > n.len || (e.len == n.len && !self.norm_ok) {
                return e;
            }
        }
        n
    }
}

fn expected_frames(ep: usize, ws: &[Wr]) -> Vec<Exp> {
    let mut v = Vec::new();
    for (tag, w) in ws.iter().enumerate() {
        // (prefix, notify byte, id, default body format)
        let e = match (ep, w.kind) {
            (0..=2, 'c') | (0..=2, 'T') | (0..=2, 'm') | (0..=2, 'g') => Some(("/t/", 0u8, None, 0u16)),
            (0..=1, 'S') | (0..=1, 'A') => Some(("/t/", 0, None, 1)),
            (0..=2, 'n') | (0..=2, 't') => Some(("/t/", 1, None, 0)),
            (0..=2, 'j') | (0..=2, 'y') => Some(("/t/", 1, None, 2)),
            (0..=2, 'J') | (0..=2, 'Y') | (0..=2, 'b') | (0..=2, 'G') | (0..=2, 'H') => Some(("/t/", 0, None, 2)),
            (0..=2, 'v') => Some(("/t/", 1, None, 1)),
            (0..=2, 'V') => Some(("/t/", 0, None, 1)),
            (1, 'f') => Some(("/t/", w.nb.unwrap_or(1), Some(w.id.unwrap_or(5000 + tag as u64)), 0)),
            (1, 'F') => Some(("/t/", w.nb.unwrap_or(0), Some(w.id.unwrap_or(5000 + tag as u64)), 0)),
            (3..=6, 'r') if w.nb != Some(1) => Some(("/g/", 0, Some(w.id.unwrap_or(1000 + tag as u64)), 0)),
            (3..=6, 'o') if w.nb != Some(1) => Some(("/o/", 0, Some(w.id.unwrap_or(1000 + tag as u64)), 2)),
            (5, 'p') | (5, 'B') | (5, 'h') => Some(("/p/", 1, Some(0), 0)),
            _ => None, // 'q' (or a request whose notify byte is 1): no response may appear
        };
        if let Some((pre, notify, id, bfmt)) = e {
            let server_req = ep >= 3 && (w.kind == 'r' || w.kind == 'o');
            let beve = w.kind == 'v' || w.kind == 'V';
            let body = if beve { Some(beve_body(tag as u64, w.size).1) } else { None };
            let size = body.as_ref().map_or(w.size, |b| b.len());
            // a request that cannot be dispatched (or whose handler fails) is answered by an error response only
            let refused = server_req && (w.xr || w.ver.map_or(false, |x| x != 1) || w.qf.map_or(false, |f| f != 1) || w.hb == 1 || (w.hb >= 10 && w.hb != 20));
            let bfmt = if server_req && w.kind == 'r' { w.bf.unwrap_or(0) } else if server_req { bfmt } else { w.bf.unwrap_or(bfmt) };
            v.push(Exp {
                tag,
                kind: if w.kind == 'o' { 'J' } else { w.kind },
                qfmt: if server_req { 1 } else { w.qf.unwrap_or(1) },
                bfmt,
                query: w.path(pre, tag),
                size,
                notify,
                id,
                body,
                opaque: notify > 1,
                norm_ok: !refused,
                err_ok: server_req,
                struct_ok: w.kind == 'S' || w.kind == 'A',
            });
            if ep == 5 && w.kind == 'r' && w.hb == 6 && !refused {
                // the handler pushes this notify to the calling peer before it answers
                v.push(Exp { tag: tag + 10000, kind: 'p', qfmt: 1, bfmt: 0, query: query_of("/p/", tag + 10000, 0), size: 64, notify: 1, id: Some(0), body: None, opaque: false, norm_ok: true, err_ok: false, struct_ok: false });
            }
        }
    }
    v
}

// ---------------------------------------------------------------------------------------------
// the oracle
// ---------------------------------------------------------------------------------------------
#[derive(Default, Debug)]
struct Parsed {
    /// whole frames: (tag, id on the wire, Some(total) if the frame is opaque for the model)
    frames: Vec<(usize, u64, Option<usize>)>,
    /// torn tail: (tag, id, bytes present, Some(total) if opaque)
    torn: Option<(usize, u64, usize, Option<usize>)>,
    after: bool,
    viol: Option<(String, String)>,
    bounds: Vec<usize>,
}

fn analyse(s: &[u8], exps: &[Exp]) -> Parsed {
    let mut p = Parsed::default();
    let mut seen = vec![false; exps.len()];
    let mut pos = 0usize;
    while pos < s.len() {
        let rest = &s[pos..];
        // best unseen candidate, then best seen one (duplicate detection)
        let mut best: Option<(Match, usize)> = None;
        let mut best_seen: Option<(Match, usize)> = None;
        for (i, e) in exps.iter().enumerate() {
            let m = e.matches(rest);
            let slot = if seen[i] { &mut best_seen } else { &mut best };
            if slot.map_or(true, |(bm, _)| m.len > bm.len) {
                *slot = Some((m, i));
            }
        }
        if let Some((m, i)) = best_seen {
            if m.len == m.total && best.map_or(true, |(bm, _)| bm.len < bm.total) {
                p.after = true;
                p.viol = Some(("duplicate_frame".into(), format!("frame tag {} appears a second time at stream offset {}", exps[i].tag, pos)));
                return p;
            }
        }
        let Some((m, i)) = best else {
            p.after = true;
            p.viol = Some(("unknown_bytes".into(), format!("{} byte(s) at stream offset {} after every expected frame was seen", rest.len(), pos)));
            return p;
        };
        let e = &exps[i];
        let l = m.len;
        let opq = |t: usize| if m.opaque { Some(if t == usize::MAX { l + 1 } else { t }) } else { None };
        let id = if rest.len() >= 24 { u64::from_le_bytes(rest[16..24].try_into().unwrap()) } else { 0 };
        if l == m.total {
            seen[i] = true;
            p.frames.push((e.tag, id, opq(m.total)));
            pos += l;
            p.bounds.push(pos);
            continue;
        }
        if pos + l == s.len() {
            if l == 0 {
                p.after = true;
                p.viol = Some(("unknown_bytes".into(), format!("byte at stream offset {} starts no expected frame", pos)));
            } else {
                p.torn = Some((e.tag, id, l, opq(m.total)));
            }
            return p;
        }
        // bytes that are not this frame's follow `l` bytes of it
        p.after = true;
        if l == 0 {
            let what = match RawFrame::parse_prefix(rest) {
                Some((f, _)) => format!("a consistent frame that was never submitted (id {} ec {} query {:?} body {} B)", f.h.id, f.h.ec, String::from_utf8_lossy(&f.query[..f.query.len().min(40)]), f.body.len()),
                None => "bytes that start no expected frame".to_string(),
            };
            p.viol = Some(("unknown_bytes".into(), format!("at stream offset {}: {}", pos, what)));
        } else {
            p.torn = Some((e.tag, id, l, opq(m.total)));
            // what follows?  (for the report only)
            let follow = &s[pos + l..];
            let next = exps.iter().enumerate().filter(|(j, _)| *j != i).map(|(_, x)| (x.matches(follow).len, x.tag)).max();
            let what = match next {
                Some((nl, nt)) if nl >= 48.min(follow.len()) && nl > 0 => format!("the first {} byte(s) of frame tag {}", nl, nt),
                _ => format!("{} other byte(s)", follow.len()),
            };
            let tot = if m.total == usize::MAX { "?".to_string() } else { m.total.to_string() };
            p.viol = Some((
                "bytes_after_torn_frame".into(),
                format!("frame tag {} ({} B) is cut after {} byte(s) at stream offset {} and is followed on the same connection by {} [bytes at the frame start: {}]", e.tag, tot, l, pos + l, what, hex(&rest[..rest.len().min(96)])),
            ));
        }
        return p;
    }
    p
}

// ---------------------------------------------------------------------------------------------
// independent WebSocket de-framer (RFC 6455 §5.2)
// ---------------------------------------------------------------------------------------------
struct WsCapture {
    /// concatenated payloads of the binary messages (+ the partial payload of a truncated last one)
    rep: Vec<u8>,
    /// end offsets (in `rep`) of complete binary messages
    msg_bounds: Vec<usize>,
    problems: Vec<String>,
}

fn ws_deframe(raw: &[u8]) -> WsCapture {
    let mut c = WsCapture { rep: Vec::new(), msg_bounds: Vec::new(), problems: Vec::new() };
    let mut pos = 0usize;
    let mut in_msg = false;
    let mut closed = false;
    while pos < raw.len() {
        let r = &raw[pos..];
        if r.len() < 2 {
            break;
        }
        let fin = r[0] & 0x80 != 0;
        if r[0] & 0x70 != 0 {
            c.problems.push(format!("reserved bits set at raw offset {}", pos));
            break;
        }
        let opcode = r[0] & 0x0f;
        let masked = r[1] & 0x80 != 0;
        let (len, mut hl) = match r[1] & 0x7f {
            126 => {
                if r.len() < 4 {
                    break;
                }
                (u16::from_be_bytes([r[2], r[3]]) as u64, 4usize)
            }
            127 => {
                if r.len() < 10 {
                    break;
                }
                (u64::from_be_bytes(r[2..10].try_into().unwrap()), 10)
            }
            n => (n as u64, 2),
        };
        let mut key = [0u8; 4];
        if masked {
            if r.len() < hl + 4 {
                break;
            }
            key.copy_from_slice(&r[hl..hl + 4]);
            hl += 4;
        }
        let avail = (r.len() - hl).min(len as usize);
        let payload: Vec<u8> = r[hl..hl + avail].iter().enumerate().map(|(i, b)| b ^ key[i % 4]).collect();
        let complete = avail as u64 == len;
        match opcode {
            0 | 2 => {
                if closed {
                    c.problems.push(format!("data frame after close at raw offset {}", pos));
                }
                if opcode == 0 && !in_msg {
                    c.problems.push(format!("continuation without a message at raw offset {}", pos));
                }
                if opcode == 2 && in_msg {
                    c.problems.push(format!("new message inside a fragmented one at raw offset {}", pos));
                }
                c.rep.extend_from_slice(&payload);
                if complete {
                    in_msg = !fin;
                    if fin {
                        c.msg_bounds.push(c.rep.len());
                    }
                }
            }
            1 => c.problems.push(format!("text frame at raw offset {}", pos)),
            8 => closed = true,
            9 | 10 => {}
            _ => {
                c.problems.push(format!("unknown opcode {} at raw offset {}", opcode, pos));
                break;
            }
        }
        if !complete {
            break; // truncated last frame
        }
        pos += hl + len as usize;
    }
    c
}

fn ws_frame(opcode: u8, payload: &[u8], mask: bool) -> Vec<u8> {
    let mut v = vec![0x80 | opcode];
    let m = if mask { 0x80u8 } else { 0 };
    if payload.len() < 126 {
        v.push(m | payload.len() as u8);
    } else if payload.len() < 65536 {
        v.push(m | 126);
        v.extend_from_slice(&(payload.len() as u16).to_be_bytes());
    } else {
        v.push(m | 127);
        v.extend_from_slice(&(payload.len() as u64).to_be_bytes());
    }
    if mask {
        let key = [0x1bu8, 0xe7, 0x42, 0x9d];
        v.extend_from_slice(&key);
        v.extend(payload.iter().enumerate().map(|(i, b)| b ^ key[i % 4]));
    } else {
        v.extend_from_slice(payload);
    }
    v
}

fn read_http_head(s: &mut TcpStream) -> std::io::Result<Vec<u8>> {
    let mut head = Vec::new();
    let mut b = [0u8; 1];
    let _ = s.set_read_timeout(Some(WATCHDOG));
    while !head.ends_with(b"\r\n\r\n") {
        let n = s.read(&mut b)?;
        if n == 0 || head.len() > 16384 {
            return Err(std::io::Error::other("handshake: eof"));
        }
        head.push(b[0]);
    }
    Ok(head)
}

/// server side of the opening handshake, by hand
fn ws_handshake_as_server(s: &mut TcpStream) -> std::io::Result<()> {
    let head = read_http_head(s)?;
    let text = String::from_utf8_lossy(&head).to_string();
    let key = text
        .lines()
        .find_map(|l| {
            let (k, v) = l.split_once(':')?;
            k.trim().eq_ignore_ascii_case("sec-websocket-key").then(|| v.trim().to_string())
        })
        .ok_or_else(|| std::io::Error::other("handshake: no key"))?;
    let accept = repe::derive_accept_key(key.as_bytes());
    s.write_all(format!("HTTP/1.1 101 Switching Protocols\r\nUpgrade: websocket\r\nConnection: Upgrade\r\nSec-WebSocket-Accept: {}\r\n\r\n", accept).as_bytes())
}

/// client side of the opening handshake, by hand
fn ws_handshake_as_client(s: &mut TcpStream, path: &str) -> std::io::Result<()> {
    s.write_all(format!("GET {} HTTP/1.1\r\nHost: 127.0.0.1\r\nUpgrade: websocket\r\nConnection: Upgrade\r\nSec-WebSocket-Key: dGhlIHNhbXBsZSBub25jZQ==\r\nSec-WebSocket-Version: 13\r\n\r\n", path).as_bytes())?;
    let head = read_http_head(s)?;
    if !head.starts_with(b"HTTP/1.1 101") {
        return Err(std::io::Error::other("handshake: not 101"));
    }
    Ok(())
}

// ---------------------------------------------------------------------------------------------
// sockets
// ---------------------------------------------------------------------------------------------
fn set_sockopt_int(fd: i32, opt: i32, val: usize) {
    let v: libc::c_int = val as libc::c_int;
    unsafe {
        libc::setsockopt(fd, libc::SOL_SOCKET, opt, &v as *const _ as *const libc::c_void, std::mem::size_of::<libc::c_int>() as libc::socklen_t);
    }
}

fn listener(rcvbuf: usize, sndbuf: usize) -> (TcpListener, SocketAddr) {
    let l = TcpListener::bind("127.0.0.1:0").expect("bind");
    if rcvbuf > 0 {
        set_sockopt_int(l.as_raw_fd(), libc::SO_RCVBUF, rcvbuf);
    }
    if sndbuf > 0 {
        set_sockopt_int(l.as_raw_fd(), libc::SO_SNDBUF, sndbuf);
    }
    let a = l.local_addr().unwrap();
    (l, a)
}

/// connect with SO_RCVBUF set before the handshake (so the advertised window is small from the start)
fn connect_small(addr: SocketAddr, rcvbuf: usize) -> std::io::Result<TcpStream> {
    if rcvbuf == 0 {
        return TcpStream::connect(addr);
    }
    unsafe {
        let fd = libc::socket(libc::AF_INET, libc::SOCK_STREAM | libc::SOCK_CLOEXEC, 0);
        if fd < 0 {
            return Err(std::io::Error::last_os_error());
        }
        set_sockopt_int(fd, libc::SO_RCVBUF, rcvbuf);
        let ip = match addr {
            SocketAddr::V4(a) => a,
            _ => unreachable!(),
        };
        let sa = libc::sockaddr_in {
            sin_family: libc::AF_INET as libc::sa_family_t,
            sin_port: ip.port().to_be(),
            sin_addr: libc::in_addr { s_addr: u32::from_ne_bytes(ip.ip().octets()) },
            sin_zero: [0; 8],
        };
        if libc::connect(fd, &sa as *const _ as *const libc::sockaddr, std::mem::size_of::<libc::sockaddr_in>() as libc::socklen_t) != 0 {
            let e = std::io::Error::last_os_error();
            libc::close(fd);
            return Err(e);
        }
        Ok(TcpStream::from_raw_fd(fd))
    }
}

/// The clients create their own socket and do not expose it: find the fd connected to `port` and
/// shrink its send buffer (determinism of the stall only; the check does not depend on it).
fn shrink_client_sndbuf(port: u16, sndbuf: usize) -> bool {
    let mut hit = false;
    for fd in 3..4096 {
        unsafe {
            let mut sa: libc::sockaddr_in = std::mem::zeroed();
            let mut len = std::mem::size_of::<libc::sockaddr_in>() as libc::socklen_t;
            if libc::getpeername(fd, &mut sa as *mut _ as *mut libc::sockaddr, &mut len) == 0
                && sa.sin_family == libc::AF_INET as libc::sa_family_t
                && u16::from_be(sa.sin_port) == port
            {
                set_sockopt_int(fd, libc::SO_SNDBUF, sndbuf);
                hit = true;
            }
        }
    }
    hit
}

// ---------------------------------------------------------------------------------------------
// the gated reader of the scripted peer
// ---------------------------------------------------------------------------------------------
struct Gate {
    allow: AtomicU64,
    drained: AtomicU64,
    eof: AtomicBool,
    stop: AtomicBool,
    last_read_us: AtomicU64,
    t0: Instant,
}
impl Gate {
    fn new(allow: u64) -> Arc<Gate> {
        Arc::new(Gate { allow: AtomicU64::new(allow), drained: AtomicU64::new(0), eof: AtomicBool::new(false), stop: AtomicBool::new(false), last_read_us: AtomicU64::new(0), t0: Instant::now() })
    }
    fn open(&self) {
        self.allow.store(u64::MAX, SeqCst);
    }
    fn since_last_read(&self) -> Duration {
        let now = self.t0.elapsed().as_micros() as u64;
        Duration::from_micros(now.saturating_sub(self.last_read_us.load(SeqCst)))
    }
    /// peer has read up to the stall point (or the connection ended)
    fn at_stall(&self, at: u64) -> bool {
        // … or nothing has arrived for a while: the endpoint will never send that much (refused requests,
        // a connection that ended early)
        self.drained.load(SeqCst) >= at || self.eof.load(SeqCst) || (self.t0.elapsed() > Duration::from_millis(600) && self.since_last_read() > Duration::from_millis(500))
    }
}

fn reader_thread(mut s: TcpStream, g: Arc<Gate>, chunk: usize) -> std::thread::JoinHandle<Vec<u8>> {
    std::thread::spawn(move || {
        let _ = s.set_read_timeout(Some(Duration::from_millis(20)));
        let mut out = Vec::new();
        let mut buf = vec![0u8; chunk.clamp(1, 1 << 16)];
        loop {
            if g.stop.load(SeqCst) {
                break;
            }
            let room = g.allow.load(SeqCst).saturating_sub(g.drained.load(SeqCst));
            if room == 0 {
                std::thread::sleep(Duration::from_millis(1));
                continue;
            }
            let want = (room as usize).min(buf.len());
            match s.read(&mut buf[..want]) {
                Ok(0) => {
                    g.eof.store(true, SeqCst);
                    break;
                }
                Ok(n) => {
                    out.extend_from_slice(&buf[..n]);
                    g.last_read_us.store(g.t0.elapsed().as_micros() as u64, SeqCst);
                    g.drained.fetch_add(n as u64, SeqCst);
                }
                Err(e) if matches!(e.kind(), std::io::ErrorKind::WouldBlock | std::io::ErrorKind::TimedOut | std::io::ErrorKind::Interrupted) => {}
                Err(_) => {
                    g.eof.store(true, SeqCst);
                    break;
                }
            }
        }
        out
    })
}

fn wait_until(mut cond: impl FnMut() -> bool, limit: Duration) -> bool {
    let t0 = Instant::now();
    while !cond() {
        if t0.elapsed() > limit {
            return false;
        }
        std::thread::sleep(Duration::from_millis(1));
    }
    true
}

/// drained to EOF, or nothing arrived for `QUIET` (bounded by the watchdog)
fn wait_quiet(g: &Gate) -> bool {
    wait_until(|| g.eof.load(SeqCst) || g.since_last_read() >= QUIET, WATCHDOG)
}

// ---------------------------------------------------------------------------------------------
// scripts
// ---------------------------------------------------------------------------------------------
#[derive(Clone, Debug, PartialEq)]
enum Fault {
    None,
    /// configured write timeout in ms (blocking client, blocking server, async server)
    WTimeout(u64),
    /// abort in-progress calls once the peer stalls: writer index, or -1 = every unfinished call
    Cancel(i64),
    /// graceful drain deadline in ms, shutdown signalled while the peer is stalled (WebSocket server)
    Drain(u64),
}

#[derive(Clone, Debug)]
struct Script {
    idx: String,
    ep: usize,
    /// SO_RCVBUF of the peer and SO_SNDBUF of the endpoint (0 = kernel default, ~4 MB of slack)
    buf: usize,
    /// tokio worker threads of the endpoint's runtime
    rt: usize,
    /// largest read of the peer
    chunk: usize,
    stall_at: u64,
    stall_ms: u64,
    fault: Fault,
    /// knobs held at their defaults unless listed: ct call timeout ms (60), cap WebSocket outbound channel
    /// capacity (16), nd tcp_nodelay (1), rto server read timeout ms (0 = none), via 1 = the WebSocket server is
    /// driven through `into_shared().accept` + `serve_connection_with_cancel` instead of `serve_listener*`,
    /// conns 2 = a second connection to the same server afterwards, lim assumed peer frame limit of the
    /// WebSocket server (0 = 64 MiB), off off-reader limit (absent = default)
    opt: std::collections::BTreeMap<String, u64>,
    ws: Vec<Wr>,
}

impl Script {
    fn o(&self, k: &str, default: u64) -> u64 {
        *self.opt.get(k).unwrap_or(&default)
    }
    fn line(&self) -> String {
        let (fk, fa) = match &self.fault {
            Fault::None => ("none", 0i64),
            Fault::WTimeout(t) => ("wtimeout", *t as i64),
            Fault::Cancel(w) => ("cancel", *w),
            Fault::Drain(t) => ("drain", *t as i64),
        };
        let ws: Vec<String> = self.ws.iter().map(|w| w.token()).collect();
        let opt: Vec<String> = self.opt.iter().map(|(k, v)| format!("{}={}", k, v)).collect();
        let opt = if opt.is_empty() { "-".to_string() } else { opt.join("/") };
        format!("torn {} {} buf {} rt {} chunk {} stall {} {} fault {} {} opt {} w {}", self.idx, self.ep, self.buf, self.rt, self.chunk, self.stall_at, self.stall_ms, fk, fa, opt, ws.join(","))
    }
    fn parse(line: &str) -> Option<Script> {
        let w = words(line);
        if w.len() < 17 || w[0] != "torn" || w[3] != "buf" || w[5] != "rt" || w[7] != "chunk" || w[9] != "stall" || w[12] != "fault" {
            return None;
        }
        let mut opt = std::collections::BTreeMap::new();
        let wi = if w[15] == "opt" && w.len() >= 19 && w[17] == "w" {
            if w[16] != "-" {
                for kv in w[16].split('/') {
                    let (k, v) = kv.split_once('=')?;
                    opt.insert(k.to_string(), v.parse().ok()?);
                }
            }
            18
        } else if w[15] == "w" {
            16
        } else {
            return None;
        };
        let fa: i64 = w[14].parse().ok()?;
        let fault = match w[13] {
            "none" => Fault::None,
            "wtimeout" => Fault::WTimeout(fa as u64),
            "cancel" => Fault::Cancel(fa),
            "drain" => Fault::Drain(fa as u64),
            _ => return None,
        };
        let mut ws = Vec::new();
        for t in w[wi].split(',') {
            ws.push(Wr::parse(t)?);
        }
        let ep: usize = w[2].parse().ok()?;
        if ep > 6 || ws.len() > 1100 {
            return None;
        }
        Some(Script { idx: w[1].to_string(), ep, buf: w[4].parse().ok()?, rt: w[6].parse().ok()?, chunk: w[8].parse().ok()?, stall_at: w[10].parse().ok()?, stall_ms: w[11].parse().ok()?, fault, opt, ws })
    }
}

/// requests of the second connection (tag, response size)
const SECOND: [(usize, usize); 3] = [(60, 100), (61, 9000), (62, 20000)];

struct Capture {
    /// what a second connection to the same server received (REPE level), if the script asked for one
    second: Option<Vec<u8>>,
    rep: Vec<u8>,
    ws: Option<WsCapture>,
    notes: Vec<&'static str>,
}

// ---------------------------------------------------------------------------------------------
// endpoint 0: blocking client
// ---------------------------------------------------------------------------------------------
fn run_blocking_client(sc: &Script) -> Result<Capture, String> {
    let mut notes = Vec::new();
    let (l, addr) = listener(sc.buf, 0);
    let client = Client::connect(addr).map_err(|e| format!("connect: {e}"))?;
    let (sock, _) = l.accept().map_err(|e| format!("accept: {e}"))?;
    if sc.buf > 0 && !shrink_client_sndbuf(addr.port(), sc.buf) {
        notes.push("sndbuf-not-set");
    }
    if let Fault::WTimeout(t) = sc.fault {
        client.set_write_timeout(Some(Duration::from_millis(t))).map_err(|e| format!("set_write_timeout: {e}"))?;
    }
    let g = Gate::new(sc.stall_at);
    let rd = reader_thread(sock.try_clone().unwrap(), g.clone(), sc.chunk);
    let first: Vec<usize> = (0..sc.ws.len()).filter(|i| !is_follow(sc.ws[*i].kind)).collect();
    let later: Vec<usize> = (0..sc.ws.len()).filter(|i| is_follow(sc.ws[*i].kind)).collect();
    let done = Arc::new(AtomicUsize::new(0));
    let errs = Arc::new(AtomicUsize::new(0));
    let barrier = Arc::new(Barrier::new(first.len() + 1));
    let ct = sc.o("ct", 60);
    let send = move |client: &Client, tag: usize, w: &Wr| -> Result<(), RepeError> {
        let path = w.path_str("/t/", tag);
        let to = call_timeout(w, ct);
        let no_to = w.tv == 1;
        let qf = w.qf.unwrap_or(1);
        if is_json(w.kind) {
            let s = json_string(tag as u64, w.size);
            let v = serde_json::Value::String(s.clone());
            return match (w.kind, no_to) {
                ('G', _) => client.registry_write_json(&path, &v).map(|_| ()),
                ('H', _) => client.registry_call_json(&path, &v).map(|_| ()),
                ('j', _) => client.notify_json(&path, &v),
                ('J', false) => client.call_json_with_timeout(&path, &v, to).map(|_| ()),
                ('J', true) => client.call_json(&path, &v).map(|_| ()),
                ('y', _) => client.notify_typed_json(&path, &s),
                (_, false) => client.call_typed_json_with_timeout::<_, String, String>(&path, &s, to).map(|_| ()),
                (_, true) => client.call_typed_json::<_, String, String>(&path, &s).map(|_| ()),
            };
        }
        if w.kind == 'v' || w.kind == 'V' {
            let (s, _) = beve_body(tag as u64, w.size);
            return match (w.kind, no_to) {
                ('v', _) => client.notify_typed_beve(&path, &s),
                (_, false) => client.call_typed_beve_with_timeout::<_, String, String>(&path, &s, to).map(|_| ()),
                (_, true) => client.call_typed_beve::<_, String, String>(&path, &s).map(|_| ()),
            };
        }
        if w.kind == 'S' || w.kind == 'A' {
            let data: Vec<f64> = (0..w.size / 8).map(|i| (tag * 1000 + i) as f64).collect();
            return match (w.kind, no_to) {
                ('S', false) => client.call_typed_slice_with_timeout::<_, f64, f64>(&path, &data, to).map(|_| ()),
                ('S', true) => client.call_typed_slice::<_, f64, f64>(&path, &data).map(|_| ()),
                (_, false) => client.call_typed_slice_aligned_with_timeout::<_, f64, f64>(&path, &data, to).map(|_| ()),
                (_, true) => client.call_typed_slice_aligned::<_, f64, f64>(&path, &data).map(|_| ()),
            };
        }
        let body = pat(tag as u64, w.size);
        let b: Option<&[u8]> = if w.zb { None } else { Some(&body) };
        let bf = w.bf.unwrap_or(0);
        match (w.kind, no_to) {
            ('g', false) => client.registry_read_with_timeout(&path, to).map(|_| ()),
            ('g', true) => client.registry_read(&path).map(|_| ()),
            ('c', false) | ('T', false) => client.call_with_formats_and_timeout(&path, qf, b, bf, to).map(|_| ()),
            ('c', true) | ('T', true) => client.call_with_formats(&path, qf, b, bf).map(|_| ()),
            ('m', false) => client.call_message_with_timeout(&path, to).map(|_| ()),
            ('m', true) => client.call_message(&path).map(|_| ()),
            _ => client.notify_with_formats(&path, qf, b, bf),
        }
    };
    for &tag in &first {
        let (client, w, done, errs, barrier) = (client.clone(), sc.ws[tag].clone(), done.clone(), errs.clone(), barrier.clone());
        std::thread::spawn(move || {
            barrier.wait();
            if send(&client, tag, &w).is_err() {
                errs.fetch_add(1, SeqCst);
            }
            done.fetch_add(1, SeqCst);
        });
    }
    barrier.wait();
    let obs_stop = Arc::new(AtomicBool::new(false));
    for _ in 0..sc.o("obs", 0).min(3) {
        let (c, obs_stop) = (client.clone(), obs_stop.clone());
        std::thread::spawn(move || {
            while !obs_stop.load(SeqCst) {
                // handles come and go while calls are in progress
                drop(c.clone());
                std::thread::yield_now();
            }
        });
    }
    wait_until(|| g.at_stall(sc.stall_at) || done.load(SeqCst) == first.len(), WATCHDOG);
    std::thread::sleep(Duration::from_millis(sc.stall_ms));
    peer_reply(&sock, sc.o("pr", 0), false);
    g.open();
    if !wait_until(|| done.load(SeqCst) == first.len(), WATCHDOG) {
        notes.push("writer-watchdog");
    }
    // "the next call": issued after the fault, peer reading again
    let batch: Vec<(String, serde_json::Value)> = later
        .iter()
        .filter(|t| sc.ws[**t].kind == 'b')
        .map(|&t| (sc.ws[t].path_str("/t/", t), serde_json::Value::String(json_string(t as u64, sc.ws[t].size))))
        .collect();
    let mut batch_sent = false;
    for &tag in &later {
        let (client, w, done2) = (client.clone(), sc.ws[tag].clone(), Arc::new(AtomicBool::new(false)));
        let d = done2.clone();
        if w.kind == 'b' {
            if batch_sent {
                continue;
            }
            batch_sent = true;
            let batch = batch.clone();
            std::thread::spawn(move || {
                let _ = client.batch_json_with_timeout(batch, Duration::from_millis(ct));
                d.store(true, SeqCst);
            });
        } else {
            std::thread::spawn(move || {
                let _ = send(&client, tag, &w);
                d.store(true, SeqCst);
            });
        }
        // the twin without a timeout returns only when the connection ends: give its request time to go out
        let detached = sc.ws[tag].tv == 1 || matches!(sc.ws[tag].kind, 'G' | 'H');
        let limit = if detached { Duration::from_millis(150) } else { WATCHDOG };
        if !wait_until(|| done2.load(SeqCst), limit) && !detached {
            notes.push("writer-watchdog");
        }
    }
    if !wait_quiet(&g) {
        notes.push("quiet-watchdog");
    }
    g.stop.store(true, SeqCst);
    obs_stop.store(true, SeqCst);
    let rep = rd.join().map_err(|_| "reader panicked".to_string())?;
    drop(client);
    drop(sock);
    Ok(Capture { second: None, rep, ws: None, notes })
}

// ---------------------------------------------------------------------------------------------
// endpoints 1, 2: async client, WebSocket client
// ---------------------------------------------------------------------------------------------
#[derive(Clone)]
enum AnyClient {
    A(AsyncClient),
    W(WebSocketClient),
}
impl AnyClient {
    async fn send(&self, tag: usize, w: &Wr, ct: u64) -> Result<(), RepeError> {
        let path = w.path_str("/t/", tag);
        let to = call_timeout(w, ct);
        let no_to = w.tv == 1;
        let qf = w.qf.unwrap_or(1);
        if is_json(w.kind) {
            let s = json_string(tag as u64, w.size);
            let v = serde_json::Value::String(s.clone());
            return match (self, w.kind, no_to) {
                (AnyClient::A(c), 'G', _) => c.registry_write_json(&path, &v).await.map(|_| ()),
                (AnyClient::A(c), 'H', _) => c.registry_call_json(&path, &v).await.map(|_| ()),
                (AnyClient::W(c), 'G', _) => c.registry_write_json(&path, &v).await.map(|_| ()),
                (AnyClient::W(c), 'H', _) => c.registry_call_json(&path, &v).await.map(|_| ()),
                (AnyClient::A(c), 'j', _) => c.notify_json(&path, &v).await,
                (AnyClient::A(c), 'J', false) => c.call_json_with_timeout(&path, &v, to).await.map(|_| ()),
                (AnyClient::A(c), 'J', true) => c.call_json(&path, &v).await.map(|_| ()),
                (AnyClient::A(c), 'y', _) => c.notify_typed_json(&path, &s).await,
                (AnyClient::A(c), _, false) => c.call_typed_json_with_timeout::<_, String, String>(&path, &s, to).await.map(|_| ()),
                (AnyClient::A(c), _, true) => c.call_typed_json::<_, String, String>(&path, &s).await.map(|_| ()),
                (AnyClient::W(c), 'j', _) => c.notify_json(&path, &v).await,
                (AnyClient::W(c), 'J', false) => c.call_json_with_timeout(&path, &v, to).await.map(|_| ()),
                (AnyClient::W(c), 'J', true) => c.call_json(&path, &v).await.map(|_| ()),
                (AnyClient::W(c), 'y', _) => c.notify_typed_json(&path, &s).await,
                (AnyClient::W(c), _, false) => c.call_typed_json_with_timeout::<_, String, String>(&path, &s, to).await.map(|_| ()),
                (AnyClient::W(c), _, true) => c.call_typed_json::<_, String, String>(&path, &s).await.map(|_| ()),
            };
        }
        if w.kind == 'v' || w.kind == 'V' {
            let (s, _) = beve_body(tag as u64, w.size);
            return match (self, w.kind, no_to) {
                (AnyClient::A(c), 'v', _) => c.notify_typed_beve(&path, &s).await,
                (AnyClient::A(c), _, false) => c.call_typed_beve_with_timeout::<_, String, String>(&path, &s, to).await.map(|_| ()),
                (AnyClient::A(c), _, true) => c.call_typed_beve::<_, String, String>(&path, &s).await.map(|_| ()),
                (AnyClient::W(c), 'v', _) => c.notify_typed_beve(&path, &s).await,
                (AnyClient::W(c), _, false) => c.call_typed_beve_with_timeout::<_, String, String>(&path, &s, to).await.map(|_| ()),
                (AnyClient::W(c), _, true) => c.call_typed_beve::<_, String, String>(&path, &s).await.map(|_| ()),
            };
        }
        if let (AnyClient::A(c), 'S' | 'A') = (self, w.kind) {
            let data: Vec<f64> = (0..w.size / 8).map(|i| (tag * 1000 + i) as f64).collect();
            return match (w.kind, no_to) {
                ('S', false) => c.call_typed_slice_with_timeout::<_, f64, f64>(&path, &data, to).await.map(|_| ()),
                ('S', true) => c.call_typed_slice::<_, f64, f64>(&path, &data).await.map(|_| ()),
                (_, false) => c.call_typed_slice_aligned_with_timeout::<_, f64, f64>(&path, &data, to).await.map(|_| ()),
                (_, true) => c.call_typed_slice_aligned::<_, f64, f64>(&path, &data).await.map(|_| ()),
            };
        }
        match (self, w.kind, no_to) {
            (AnyClient::A(c), 'g', false) => return c.registry_read_with_timeout(&path, to).await.map(|_| ()),
            (AnyClient::A(c), 'g', true) => return c.registry_read(&path).await.map(|_| ()),
            (AnyClient::W(c), 'g', false) => return c.registry_read_with_timeout(&path, to).await.map(|_| ()),
            (AnyClient::W(c), 'g', true) => return c.registry_read(&path).await.map(|_| ()),
            _ => {}
        }
        let body = pat(tag as u64, w.size);
        let bf = w.bf.unwrap_or(0);
        if let (AnyClient::A(c), 'f' | 'F') = (self, w.kind) {
            // a relay: a prebuilt message handed to the connection as it is (id, notify byte and formats included)
            let mut m = Message::builder().id(w.id.unwrap_or(5000 + tag as u64)).notify(w.kind == 'f').query_bytes(w.path("/t/", tag)).query_format_code(qf).body_bytes(body).body_format_code(bf).build();
            if let Some(nb) = w.nb {
                m.header.notify = nb;
            }
            return if no_to { c.forward_message(&m).await.map(|_| ()) } else { c.forward_message_with_timeout(&m, to).await.map(|_| ()) };
        }
        let b: Option<&[u8]> = if w.zb { None } else { Some(&body) };
        match (self, w.kind, no_to) {
            (AnyClient::A(c), 'c' | 'T', false) => c.call_with_formats_and_timeout(&path, qf, b, bf, to).await.map(|_| ()),
            (AnyClient::A(c), 'c' | 'T', true) => c.call_with_formats(&path, qf, b, bf).await.map(|_| ()),
            (AnyClient::A(c), 'm', false) => c.call_message_with_timeout(&path, to).await.map(|_| ()),
            (AnyClient::A(c), 'm', true) => c.call_message(&path).await.map(|_| ()),
            (AnyClient::A(c), _, _) => c.notify_with_formats(&path, qf, b, bf).await,
            (AnyClient::W(c), 'c' | 'T', false) => c.call_with_formats_and_timeout(&path, qf, b, bf, to).await.map(|_| ()),
            (AnyClient::W(c), 'c' | 'T', true) => c.call_with_formats(&path, qf, b, bf).await.map(|_| ()),
            (AnyClient::W(c), 'm', false) => c.call_message_with_timeout(&path, to).await.map(|_| ()),
            (AnyClient::W(c), 'm', true) => c.call_message(&path).await.map(|_| ()),
            (AnyClient::W(c), _, _) => c.notify_with_formats(&path, qf, b, bf).await,
        }
    }
    async fn batch(&self, reqs: Vec<(String, serde_json::Value)>, ct: u64) {
        let to = Duration::from_millis(ct);
        match self {
            AnyClient::A(c) => drop(c.batch_json_with_timeout(reqs, to).await),
            AnyClient::W(c) => drop(c.batch_json_with_timeout(reqs, to).await),
        }
    }
}

fn runtime_mbt(workers: usize, mbt: u64) -> tokio::runtime::Runtime {
    let mut b = tokio::runtime::Builder::new_multi_thread();
    b.worker_threads(workers.clamp(1, 8)).enable_all();
    if mbt > 0 {
        b.max_blocking_threads(mbt as usize);
    }
    b.build().expect("runtime")
}

fn run_async_client(sc: &Script) -> Result<Capture, String> {
    let is_ws = sc.ep == 2;
    let mut notes = Vec::new();
    let (l, addr) = listener(sc.buf, 0);
    // the peer accepts (and, for WebSocket, answers the opening handshake) on its own thread
    let (tx, rx) = std::sync::mpsc::channel::<Result<TcpStream, String>>();
    std::thread::spawn(move || {
        let r = l.accept().map_err(|e| format!("accept: {e}")).and_then(|(mut s, _)| {
            if is_ws {
                ws_handshake_as_server(&mut s).map_err(|e| format!("handshake: {e}"))?;
            }
            Ok(s)
        });
        let _ = tx.send(r);
    });
    let rt = runtime_mbt(sc.rt, sc.o("mbt", 0));
    let g = Gate::new(sc.stall_at);
    // `dl=1`: the client's default limits (16 MiB assumed peer frame limit) instead of 64 MiB
    let limits = if sc.o("dl", 0) == 1 { WebSocketLimits::default() } else { WebSocketLimits::default().with_assumed_peer_frame_limit(Some(64 << 20)) };
    let res: Result<(TcpStream, std::thread::JoinHandle<Vec<u8>>), String> = rt.block_on(async {
        let client = if is_ws {
            AnyClient::W(WebSocketClient::connect_with_limits(&format!("ws://{}/ws", addr), limits).await.map_err(|e| format!("ws connect: {e}"))?)
        } else {
            AnyClient::A(AsyncClient::connect(addr).await.map_err(|e| format!("connect: {e}"))?)
        };
        let sock = rx.recv_timeout(WATCHDOG).map_err(|e| format!("peer: {e}"))??;
        if sc.buf > 0 && !shrink_client_sndbuf(addr.port(), sc.buf) {
            notes.push("sndbuf-not-set");
        }
        let rd = reader_thread(sock.try_clone().unwrap(), g.clone(), sc.chunk);
        let ct = sc.o("ct", 60);
        for _ in 0..sc.o("obs", 0).min(3) {
            let c = client.clone();
            // observer task: handles come and go, limits are read, while calls are in progress
            tokio::spawn(async move {
                for _ in 0..2000 {
                    let c2 = c.clone();
                    if let AnyClient::W(w) = &c2 {
                        let _ = w.limits();
                    }
                    drop(c2);
                    tokio::task::yield_now().await;
                }
            });
        }
        let first: Vec<usize> = (0..sc.ws.len()).filter(|i| !is_follow(sc.ws[*i].kind)).collect();
        let later: Vec<usize> = (0..sc.ws.len()).filter(|i| is_follow(sc.ws[*i].kind)).collect();
        let done = Arc::new(AtomicUsize::new(0));
        let mut handles = Vec::new();
        for &tag in &first {
            let (client, w, done) = (client.clone(), sc.ws[tag].clone(), done.clone());
            handles.push((tag, tokio::spawn(async move {
                let _ = client.send(tag, &w, ct).await;
                done.fetch_add(1, SeqCst);
            })));
        }
        let t0 = Instant::now();
        while !(g.at_stall(sc.stall_at) || done.load(SeqCst) == first.len()) && t0.elapsed() < WATCHDOG {
            tokio::time::sleep(Duration::from_millis(1)).await;
        }
        tokio::time::sleep(Duration::from_millis(sc.stall_ms)).await;
        if let Fault::Cancel(who) = sc.fault {
            // the callers abandon their calls: abort, and wait until the futures are really dropped
            let mut aborted = Vec::new();
            let mut keep = Vec::new();
            for (tag, h) in handles {
                if who < 0 || who as usize == tag {
                    h.abort();
                    aborted.push(h);
                } else {
                    keep.push((tag, h));
                }
            }
            for h in aborted {
                let _ = tokio::time::timeout(WATCHDOG, h).await;
            }
            handles = keep;
            // further calls while the peer is still not reading, each given up on after a moment
            for &tag in later.iter().filter(|t| sc.ws[**t].st) {
                let (c2, w2) = (client.clone(), sc.ws[tag].clone());
                let h = tokio::spawn(async move {
                    let _ = c2.send(tag, &w2, ct).await;
                });
                tokio::time::sleep(Duration::from_millis(40)).await;
                h.abort();
                let _ = tokio::time::timeout(WATCHDOG, h).await;
            }
        }
        peer_reply(&sock, sc.o("pr", 0), is_ws);
        // `dropc`: the last handle is dropped while the peer is still stalled (Drop paths run with a frame abandoned)
        let client = if sc.o("dropc", 0) == 1 && handles.is_empty() {
            drop(client);
            tokio::time::sleep(Duration::from_millis(30)).await;
            None
        } else {
            Some(client)
        };
        g.open();
        for (_, h) in handles {
            if tokio::time::timeout(WATCHDOG, h).await.is_err() {
                notes.push("writer-watchdog");
            }
        }
        let batch: Vec<(String, serde_json::Value)> = later
            .iter()
            .filter(|t| sc.ws[**t].kind == 'b')
            .map(|&t| (sc.ws[t].path_str("/t/", t), serde_json::Value::String(json_string(t as u64, sc.ws[t].size))))
            .collect();
        let mut batch_sent = false;
        for &tag in &later {
            let Some(client) = &client else { break };
            if sc.ws[tag].st && matches!(sc.fault, Fault::Cancel(_)) {
                continue; // already issued (and abandoned) while the peer was stalled
            }
            let ok = if sc.ws[tag].kind == 'b' {
                if batch_sent {
                    continue;
                }
                batch_sent = true;
                tokio::time::timeout(WATCHDOG, client.batch(batch.clone(), ct)).await.is_ok()
            } else if sc.ws[tag].tv == 1 || matches!(sc.ws[tag].kind, 'G' | 'H') {
                // the twin without a timeout returns only when the connection ends: run it detached
                let (c2, w2) = (client.clone(), sc.ws[tag].clone());
                let h = tokio::spawn(async move {
                    let _ = c2.send(tag, &w2, ct).await;
                });
                let _ = tokio::time::timeout(Duration::from_millis(150), h).await;
                true
            } else {
                tokio::time::timeout(WATCHDOG, client.send(tag, &sc.ws[tag], ct)).await.is_ok()
            };
            if !ok {
                notes.push("writer-watchdog");
            }
        }
        let t1 = Instant::now();
        while !(g.eof.load(SeqCst) || g.since_last_read() >= QUIET) && t1.elapsed() < WATCHDOG {
            tokio::time::sleep(Duration::from_millis(2)).await;
        }
        drop(client);
        Ok((sock, rd))
    });
    let (sock, rd) = match res {
        Ok(x) => x,
        Err(e) => {
            rt.shutdown_background();
            return Err(e);
        }
    };
    g.stop.store(true, SeqCst);
    let raw = rd.join().map_err(|_| "reader panicked".to_string())?;
    drop(sock);
    rt.shutdown_background();
    if is_ws {
        let c = ws_deframe(&raw);
        Ok(Capture { second: None, rep: c.rep.clone(), ws: Some(c), notes })
    } else {
        Ok(Capture { second: None, rep: raw, ws: None, notes })
    }
}

// ---------------------------------------------------------------------------------------------
// endpoints 3, 4, 5: servers
// ---------------------------------------------------------------------------------------------
/// what a handler does besides answering (the `h` attribute)
fn misbehave(hb: u8) -> Result<(), RepeError> {
    match hb {
        1 => Err(RepeError::ServerError { code: repe::ErrorCode::ApplicationErrorBase, message: "handler refused".into() }),
        2 => panic!("{}", String::from("handler panicked (String)")),
        3 => panic!("handler panicked (&str)"),
        4 => std::panic::panic_any(42u32),
        5 => {
            std::thread::sleep(Duration::from_millis(30));
            Ok(())
        }
        // 10…: every error a handler can hand back — each `ErrorCode`, I/O errors of the kinds that mean "end",
        // "retry" or "gone" elsewhere, and the other `RepeError` variants
        10..=20 => {
            use repe::ErrorCode as E;
            let codes = [E::VersionMismatch, E::InvalidHeader, E::InvalidQuery, E::InvalidBody, E::ParseError, E::MethodNotFound, E::Timeout, E::ResourceExhausted, E::InternalError, E::ApplicationErrorBase, E::Ok];
            Err(RepeError::ServerError { code: codes[(hb - 10) as usize], message: format!("handler error {}", hb) })
        }
        21..=28 => {
            use std::io::ErrorKind as K;
            let kinds = [K::UnexpectedEof, K::BrokenPipe, K::Interrupted, K::WouldBlock, K::TimedOut, K::ConnectionReset, K::ConnectionAborted, K::Other];
            Err(RepeError::Io(std::io::Error::new(kinds[(hb - 21) as usize], "handler i/o error")))
        }
        29 => Err(RepeError::VersionMismatch(9)),
        30 => Err(RepeError::InvalidSpec(7)),
        31 => Err(RepeError::LengthMismatch { expected: 1, got: 2 }),
        32 => Err(RepeError::BufferTooSmall { need: 9, have: 1 }),
        33 => Err(RepeError::UnknownEnumValue(77)),
        34 => Err(RepeError::Json(serde_json::from_str::<serde_json::Value>("{").unwrap_err())),
        _ => Ok(()),
    }
}

struct Gen(u64);
impl Gen {
    fn answer(&self, req: &Message) -> Message {
        let size = if req.body.len() >= 8 { u64::from_le_bytes(req.body[..8].try_into().unwrap()) as usize } else { 0 };
        Message::builder().id(req.header.id).query_format_code(1).body_bytes(pat(self.0, size)).body_format_code(req.header.body_format).build()
    }
}
impl HandlerErased for Gen {
    fn handle(&self, req: &Message) -> Result<Message, RepeError> {
        misbehave(req.body.get(8).copied().unwrap_or(0))?;
        Ok(self.answer(req))
    }
    fn handle_with_ctx(&self, req: &Message, ctx: &repe::CallContext) -> Result<Message, RepeError> {
        let hb = req.body.get(8).copied().unwrap_or(0);
        if hb == 6 {
            // re-enter the connection: push a notify to the calling peer before answering
            if let Some(peer) = ctx.peer() {
                let t = self.0 + 10000;
                let _ = peer.send_notify(&format!("/p/{}", t), NotifyBody::Raw(pat(t, 64), BodyFormat::RawBinary));
            }
        }
        misbehave(hb)?;
        Ok(self.answer(req))
    }
}

fn off_reader_handler(tag: u64) -> impl Fn(serde_json::Value) -> Result<serde_json::Value, (repe::ErrorCode, String)> + Send + Sync + 'static {
    move |v: serde_json::Value| {
        let n = v.get("n").and_then(|x| x.as_u64()).unwrap_or(2) as usize;
        let hb = v.get("h").and_then(|x| x.as_u64()).unwrap_or(0) as u8;
        misbehave(hb).map_err(|_| (repe::ErrorCode::ApplicationErrorBase, "handler refused".to_string()))?;
        Ok(serde_json::Value::String(json_string(tag, n.max(2))))
    }
}

/// routes `/g/<tag>` and `/o/<tag>` (off-reader on the WebSocket server) for every tag, plus the special
/// paths (long, non-ASCII) this script addresses
fn gen_router(sc: Option<&Script>) -> Router {
    let mut r = Router::new();
    for tag in 0..64u64 {
        r = r.with_erased_handler(&format!("/g/{}", tag), Arc::new(Gen(tag)));
    }
    if let Some(sc) = sc {
        for (tag, w) in sc.ws.iter().enumerate() {
            if w.xr {
                continue;
            }
            match w.kind {
                'r' | 'q' if w.qlen > 0 || w.pv > 0 || tag >= 64 => r = r.with_erased_handler(&w.path_str("/g/", tag), Arc::new(Gen(tag as u64))),
                'o' => r = r.with_json_blocking(&w.path_str("/o/", tag), off_reader_handler(tag as u64)),
                _ => {}
            }
        }
    }
    r
}

fn long_queries(sc: &Script) -> bool {
    sc.ws.iter().enumerate().any(|(t, w)| w.qlen > 0 || w.pv > 0 || w.kind == 'o' || t >= 64) || sc.opt.contains_key("nd") || sc.opt.contains_key("rto")
}

/// the peer's requests go out on their own thread: with multi-MiB paths they do not fit the socket
/// buffers, and the server stops reading while it is blocked writing to the stalled peer
/// `rq`: 0 one write; 1 the first 300 bytes one byte at a time; 2 two or three pieces per request with cut
/// points inside the header, at 48, inside the query and inside the body; 3 like 2 with a pause longer than
/// the server's read timeout in the middle of the second request
fn send_requests(mut sock: TcpStream, frames: Vec<Vec<u8>>, shutdown: bool, rq: u64, pause_ms: u64, seed: u64) -> Arc<AtomicBool> {
    let done = Arc::new(AtomicBool::new(false));
    let d = done.clone();
    std::thread::spawn(move || {
        let bytes: Vec<u8> = frames.concat();
        let mut cuts: Vec<usize> = Vec::new();
        let mut r = Rng::new(seed ^ 0x5eed);
        match rq {
            1 => cuts.extend(1..bytes.len().min(300)),
            2 | 3 => {
                let mut off = 0usize;
                for f in &frames {
                    let n = f.len();
                    let ql = if n >= 48 { u64::from_le_bytes(f[24..32].try_into().unwrap()) as usize } else { 0 };
                    let cand = [1 + r.below(47) as usize, 48, 48 + ql / 2, 48 + ql, 48 + ql + (n.saturating_sub(48 + ql)) / 2, n.saturating_sub(1)];
                    for _ in 0..(2 + r.below(2)) {
                        let c = *r.pick(&cand);
                        if c > 0 && c < n {
                            cuts.push(off + c);
                        }
                    }
                    off += n;
                }
                cuts.sort();
                cuts.dedup();
            }
            _ => {}
        }
        let _ = sock.set_nodelay(true);
        let pause_at = if rq == 3 && frames.len() >= 2 { Some(frames[0].len() + frames[1].len() / 2) } else { None };
        if let Some(pa) = pause_at {
            cuts.push(pa);
            cuts.sort();
            cuts.dedup();
        }
        let mut prev = 0usize;
        let mut ok = true;
        for c in cuts.iter().copied().chain(std::iter::once(bytes.len())) {
            if c <= prev {
                continue;
            }
            if sock.write_all(&bytes[prev..c]).is_err() {
                ok = false;
                break;
            }
            prev = c;
            if Some(c) == pause_at {
                std::thread::sleep(Duration::from_millis(pause_ms));
            } else if rq > 0 && c < bytes.len() {
                std::thread::sleep(Duration::from_micros(300));
            }
        }
        let _ = ok;
        if shutdown {
            let _ = sock.shutdown(Shutdown::Write);
        }
        d.store(true, SeqCst);
    });
    done
}

fn request_frame(tag: usize, w: &Wr) -> Vec<u8> {
    let off = w.kind == 'o';
    let body: Vec<u8> = if off {
        format!("{{\"h\":{},\"n\":{}}}", w.hb, w.size).into_bytes()
    } else {
        let mut b = (w.size as u64).to_le_bytes().to_vec();
        b.push(w.hb);
        b
    };
    let mut f = RawFrame::request(w.id.unwrap_or(1000 + tag as u64), w.kind == 'q', w.qf.unwrap_or(1), &w.path(if off { "/o/" } else { "/g/" }, tag), if off { 2 } else { w.bf.unwrap_or(0) }, &body);
    if let Some(nb) = w.nb {
        f.h.notify = nb;
    }
    if let Some(v) = w.ver {
        f.h.version = v;
    }
    f.to_vec()
}

fn requests(sc: &Script) -> Vec<Vec<u8>> {
    sc.ws.iter().enumerate().filter(|(_, w)| matches!(w.kind, 'r' | 'q' | 'o')).map(|(tag, w)| request_frame(tag, w)).collect()
}

/// A second connection to the same server instance: three small requests, read to EOF.
fn second_connection(addr: SocketAddr, ws: bool) -> Option<Vec<u8>> {
    let mut sock = TcpStream::connect(addr).ok()?;
    if ws {
        ws_handshake_as_client(&mut sock, "/ws").ok()?;
    }
    let mut bytes = Vec::new();
    for (t, sz) in SECOND {
        let f = request_frame(t, &Wr { kind: 'r', size: sz, ..Default::default() });
        bytes.extend(if ws { ws_frame(2, &f, true) } else { f });
    }
    sock.write_all(&bytes).ok()?;
    if ws {
        // give the answers time to come back before closing from this side
        let _ = sock.set_read_timeout(Some(Duration::from_millis(20)));
        let mut raw = Vec::new();
        let mut buf = [0u8; 65536];
        let t0 = Instant::now();
        let mut last = Instant::now();
        let mut closed = false;
        while t0.elapsed() < Duration::from_secs(5) {
            match sock.read(&mut buf) {
                Ok(0) => break,
                Ok(n) => {
                    raw.extend_from_slice(&buf[..n]);
                    last = Instant::now();
                }
                Err(e) if matches!(e.kind(), std::io::ErrorKind::WouldBlock | std::io::ErrorKind::TimedOut) => {
                    if !closed && last.elapsed() >= QUIET {
                        let _ = sock.write_all(&ws_frame(8, &1000u16.to_be_bytes(), true));
                        let _ = sock.shutdown(Shutdown::Write);
                        closed = true;
                    }
                }
                Err(_) => break,
            }
        }
        Some(ws_deframe(&raw).rep)
    } else {
        let _ = sock.shutdown(Shutdown::Write);
        Some(net::drain(&mut sock, 1 << 24, Duration::from_secs(3)))
    }
}

/// one blocking `Server` per (send buffer, write timeout): `serve` never returns, so they are reused
fn blocking_server_addr(buf: usize, wt: Option<u64>) -> SocketAddr {
    static SERVERS: Mutex<Option<HashMap<(usize, Option<u64>), SocketAddr>>> = Mutex::new(None);
    let mut m = SERVERS.lock().unwrap();
    let m = m.get_or_insert_with(HashMap::new);
    *m.entry((buf, wt)).or_insert_with(|| {
        let (l, addr) = listener(0, buf);
        let server = Server::new(gen_router(None)).write_timeout(wt.map(Duration::from_millis));
        std::thread::spawn(move || {
            let _ = server.serve(l);
        });
        addr
    })
}

/// a script with long paths needs its own routes, hence its own (leaked) blocking server
fn blocking_server_for(sc: &Script, wt: Option<u64>) -> SocketAddr {
    let (l, addr) = listener(0, sc.buf);
    let rto = sc.o("rto", 0);
    let server = Server::new(gen_router(Some(sc))).write_timeout(wt.map(Duration::from_millis)).tcp_nodelay(sc.o("nd", 1) == 1).read_timeout((rto > 0).then(|| Duration::from_millis(rto)));
    std::thread::spawn(move || {
        let _ = server.serve(l);
    });
    addr
}

fn run_tcp_server(sc: &Script) -> Result<Capture, String> {
    let mut notes = Vec::new();
    let wt = match sc.fault {
        Fault::WTimeout(t) => Some(t),
        _ => None,
    };
    let mut rt = None;
    let addr = if sc.ep == 3 {
        if long_queries(sc) { blocking_server_for(sc, wt) } else { blocking_server_addr(sc.buf, wt) }
    } else {
        let (l, addr) = listener(0, sc.buf);
        l.set_nonblocking(true).map_err(|e| e.to_string())?;
        let r = runtime_mbt(sc.rt, sc.o("mbt", 0));
        let rto = sc.o("rto", 0);
        let server = AsyncServer::new(gen_router(Some(sc))).write_timeout(wt.map(Duration::from_millis)).read_timeout((rto > 0).then(|| Duration::from_millis(rto)));
        r.spawn(async move {
            if let Ok(l) = tokio::net::TcpListener::from_std(l) {
                let _ = server.serve(l).await;
            }
        });
        rt = Some(r);
        addr
    };
    let sock = connect_small(addr, sc.buf).map_err(|e| format!("connect: {e}"))?;
    let g = Gate::new(sc.stall_at);
    let rd = reader_thread(sock.try_clone().unwrap(), g.clone(), sc.chunk);
    let _sent = send_requests(sock.try_clone().unwrap(), requests(sc), true, sc.o("rq", 0), sc.o("rto", 0) + 60, fnv(sc.idx.as_bytes()));
    wait_until(|| g.at_stall(sc.stall_at), WATCHDOG);
    std::thread::sleep(Duration::from_millis(sc.stall_ms));
    if sc.o("rst", 0) == 1 {
        // the peer disappears with a reset while the server is (possibly) blocked writing
        let lg = libc::linger { l_onoff: 1, l_linger: 0 };
        unsafe {
            libc::setsockopt(sock.as_raw_fd(), libc::SOL_SOCKET, libc::SO_LINGER, &lg as *const _ as *const libc::c_void, std::mem::size_of::<libc::linger>() as libc::socklen_t);
        }
        g.stop.store(true, SeqCst);
    } else {
        g.open();
        if !wait_until(|| g.eof.load(SeqCst), WATCHDOG) {
            notes.push("eof-watchdog");
        }
        g.stop.store(true, SeqCst);
    }
    let rep = rd.join().map_err(|_| "reader panicked".to_string())?;
    drop(sock);
    let second = if sc.o("conns", 1) == 2 { second_connection(addr, false) } else { None };
    if let Some(r) = rt {
        r.shutdown_background();
    }
    Ok(Capture { second, rep, ws: None, notes })
}

fn run_ws_server(sc: &Script) -> Result<Capture, String> {
    let mut notes = Vec::new();
    let (l, addr) = listener(0, sc.buf);
    l.set_nonblocking(true).map_err(|e| e.to_string())?;
    let rt = runtime_mbt(sc.rt, sc.o("mbt", 0));
    let reg = PeerRegistry::new();
    let lim = sc.o("lim", 0) as usize;
    let limits = WebSocketLimits::default().with_assumed_peer_frame_limit(Some(if lim > 0 { lim } else { 64 << 20 }));
    let mut server = WebSocketServer::new(gen_router(Some(sc))).with_peer_registry(reg.clone()).with_outbound_capacity(sc.o("cap", 16).max(1) as usize).with_limits(limits);
    if let Some(off) = sc.opt.get("off") {
        server = server.with_offreader_limit(*off as usize);
    }
    // notifies pushed from the connect hook (they are queued before the reader and writer start)
    let hooked: Vec<(String, usize, usize)> = sc.ws.iter().enumerate().filter(|(_, w)| w.kind == 'h').map(|(t, w)| (w.path_str("/p/", t), t, w.size)).collect();
    if !hooked.is_empty() {
        server = server.on_peer_connect(move |peer| {
            for (m, t, size) in &hooked {
                let _ = peer.send_notify(m, NotifyBody::Raw(pat(*t as u64, *size), BodyFormat::RawBinary));
            }
        });
    }
    let via = sc.o("via", 0);
    let via_shared = via >= 1;
    let (sd_tx, sd_rx) = tokio::sync::oneshot::channel::<()>();
    let drain = match sc.fault {
        Fault::Drain(t) => Some(t),
        _ => None,
    };
    rt.spawn(async move {
        let Ok(l) = tokio::net::TcpListener::from_std(l) else { return };
        let sd = async move {
            let _ = sd_rx.await;
        };
        if via_shared {
            // the embedder's own accept loop: `SharedWebSocketServer::accept` + `serve_connection_with_cancel`
            let shared = server.into_shared();
            let token = repe::ShutdownToken::new();
            tokio::pin!(sd);
            loop {
                tokio::select! {
                    acc = l.accept() => {
                        let Ok((stream, _)) = acc else { break };
                        let (shared, token) = (shared.clone(), token.clone());
                        tokio::spawn(async move {
                            match via {
                                // the static accept (explicit limits) + plain `serve_connection`
                                2 => {
                                    if let Ok(ws) = WebSocketServer::accept_with_limits(stream, "/ws", shared.limits()).await {
                                        let _ = shared.serve_connection(ws).await;
                                    }
                                }
                                // the handshake-capturing twins
                                3 => {
                                    if let Ok((ws, hs)) = shared.accept_with_handshake(stream, "/ws").await {
                                        let _ = shared.serve_connection_with_cancel_and_handshake(ws, hs, &token).await;
                                    }
                                }
                                4 => {
                                    if let Ok((ws, hs)) = WebSocketServer::accept_with_handshake_and_limits(stream, "/ws", shared.limits()).await {
                                        let _ = shared.serve_connection_with_handshake(ws, hs).await;
                                    }
                                }
                                _ => {
                                    if let Ok(ws) = shared.accept(stream, "/ws").await {
                                        let _ = shared.serve_connection_with_cancel(ws, &token).await;
                                    }
                                }
                            }
                        });
                    }
                    _ = &mut sd => break,
                }
            }
            token.cancel();
            return;
        }
        match drain {
            Some(t) => {
                let _ = server.serve_listener_with_graceful_drain(l, "/ws", sd, Duration::from_millis(t)).await;
            }
            None => {
                let _ = server.serve_listener_with_shutdown(l, "/ws", sd).await;
            }
        }
    });
    let mut sock = connect_small(addr, sc.buf).map_err(|e| format!("connect: {e}"))?;
    ws_handshake_as_client(&mut sock, "/ws").map_err(|e| format!("handshake: {e}"))?;
    let g = Gate::new(sc.stall_at);
    let rd = reader_thread(sock.try_clone().unwrap(), g.clone(), sc.chunk);
    // pushers: one thread per pushed notify, all through the registry's handle of this connection
    if !wait_until(|| reg.len() == 1, WATCHDOG) {
        notes.push("no-peer");
    }
    let pushers: Vec<usize> = (0..sc.ws.len()).filter(|i| sc.ws[*i].kind == 'p' || sc.ws[*i].kind == 'B').collect();
    let done = Arc::new(AtomicUsize::new(0));
    let stop = Arc::new(AtomicBool::new(false));
    let n_threads = pushers.len().min(16).max(1);
    let barrier = Arc::new(Barrier::new(if pushers.is_empty() { 1 } else { n_threads + 1 }));
    for th in 0..(if pushers.is_empty() { 0 } else { n_threads }) {
        let mine: Vec<(usize, usize, String, bool)> = pushers.iter().copied().skip(th).step_by(n_threads).map(|t| (t, sc.ws[t].size, sc.ws[t].path_str("/p/", t), sc.ws[t].kind == 'B')).collect();
        let (reg, done, stop, barrier) = (reg.clone(), done.clone(), stop.clone(), barrier.clone());
        std::thread::spawn(move || {
            let peer = reg.peers().into_iter().next();
            barrier.wait();
            for (tag, size, method, broadcast) in mine {
                if let Some(peer) = &peer {
                    let t0 = Instant::now();
                    loop {
                        // 'B': through `PeerRegistry::broadcast_notify_raw` (every registered peer = this connection)
                        let r = if broadcast {
                            reg.broadcast_notify_raw(&method, BodyFormat::RawBinary, &pat(tag as u64, size)).remove(&peer.peer_id()).unwrap_or(Err(PeerSendError::Disconnected))
                        } else {
                            peer.send_notify(&method, NotifyBody::Raw(pat(tag as u64, size), BodyFormat::RawBinary))
                        };
                        match r {
                            Ok(()) | Err(PeerSendError::Disconnected) => break,
                            Err(_) => {
                                // channel full: the embedder retries
                                if stop.load(SeqCst) || t0.elapsed() > WATCHDOG {
                                    break;
                                }
                                std::thread::sleep(Duration::from_millis(1));
                            }
                        }
                    }
                }
                done.fetch_add(1, SeqCst);
            }
        });
    }
    let reqs: Vec<Vec<u8>> = requests(sc).iter().map(|f| ws_frame(2, f, true)).collect();
    barrier.wait();
    let sent = send_requests(sock.try_clone().unwrap(), reqs, false, sc.o("rq", 0), 60, fnv(sc.idx.as_bytes()));
    // observers: read-only methods hammered while the connection works
    let obs_stop = Arc::new(AtomicBool::new(false));
    for _ in 0..sc.o("obs", 0).min(3) {
        let (reg, obs_stop) = (reg.clone(), obs_stop.clone());
        std::thread::spawn(move || {
            while !obs_stop.load(SeqCst) {
                let n = reg.len();
                let ps = reg.peers();
                for p in &ps {
                    let _ = (p.is_connected(), p.peer_id(), reg.get(p.peer_id()).is_some(), reg.key_for(p.peer_id()), reg.aliases_for(p.peer_id()).len());
                }
                let _ = (n, reg.is_empty(), format!("{:?}", ps.first().map(|p| p.peer_id())));
                std::thread::yield_now();
            }
        });
    }
    let dat = sc.o("dat", 0);
    let mut sd_tx = Some(sd_tx);
    if drain.is_some() && dat == 1 {
        // shutdown signalled before anything stalled
        let _ = sd_tx.take().unwrap().send(());
    }
    wait_until(|| g.at_stall(sc.stall_at), WATCHDOG);
    if drain.is_some() && dat == 0 {
        let _ = sd_tx.take().unwrap().send(());
    }
    if sc.o("fin", 0) == 1 && wait_until(|| sent.load(SeqCst), Duration::from_secs(2)) {
        // the peer ends its side while the writer is (possibly) blocked mid-send: the reader sees the end first
        // (only once every request is out: the Close must not land inside a request that is still being sent)
        let _ = sock.write_all(&ws_frame(8, &1000u16.to_be_bytes(), true));
    }
    std::thread::sleep(Duration::from_millis(sc.stall_ms));
    g.open();
    if drain.is_some() && dat == 2 {
        wait_quiet(&g);
        let _ = sd_tx.take().unwrap().send(());
    }
    if drain.is_none() {
        drop(sd_tx.take());
    }
    if !wait_until(|| done.load(SeqCst) == pushers.len(), WATCHDOG) {
        notes.push("writer-watchdog");
    }
    stop.store(true, SeqCst);
    obs_stop.store(true, SeqCst);
    // let the responses and pushes drain, then close from the peer's side
    if !wait_until(|| sent.load(SeqCst) || g.eof.load(SeqCst), WATCHDOG) {
        notes.push("request-watchdog");
    }
    wait_quiet(&g);
    let _ = sock.write_all(&ws_frame(8, &1000u16.to_be_bytes(), true));
    let _ = sock.shutdown(Shutdown::Write);
    if !wait_until(|| g.eof.load(SeqCst), WATCHDOG) {
        notes.push("eof-watchdog");
    }
    g.stop.store(true, SeqCst);
    let raw = rd.join().map_err(|_| "reader panicked".to_string())?;
    let second = if sc.o("conns", 1) == 2 && drain.is_none() { second_connection(addr, true) } else { None };
    rt.shutdown_background();
    let c = ws_deframe(&raw);
    Ok(Capture { second, rep: c.rep.clone(), ws: Some(c), notes })
}

// ---------------------------------------------------------------------------------------------
// one case
// ---------------------------------------------------------------------------------------------
/// endpoint 6: `proxy_connection` — a WebSocket connection whose requests are relayed to an upstream
/// `AsyncServer` through an `AsyncClient`; the responses come back through the proxy's own writer.
fn run_ws_proxy(sc: &Script) -> Result<Capture, String> {
    let mut notes = Vec::new();
    let rt = runtime_mbt(sc.rt, sc.o("mbt", 0));
    // upstream server
    let (ul, uaddr) = listener(0, 0);
    ul.set_nonblocking(true).map_err(|e| e.to_string())?;
    let upstream = AsyncServer::new(gen_router(Some(sc)));
    rt.spawn(async move {
        if let Ok(l) = tokio::net::TcpListener::from_std(ul) {
            let _ = upstream.serve(l).await;
        }
    });
    // the proxy: accept one TCP connection, upgrade it, relay
    let (pl, paddr) = listener(0, sc.buf);
    pl.set_nonblocking(true).map_err(|e| e.to_string())?;
    let limits = WebSocketLimits::default().with_assumed_peer_frame_limit(Some(64 << 20));
    rt.spawn(async move {
        let Ok(l) = tokio::net::TcpListener::from_std(pl) else { return };
        let Ok((stream, _)) = l.accept().await else { return };
        let cfg: repe::tokio_tungstenite::tungstenite::protocol::WebSocketConfig = limits.into();
        let Ok(ws) = repe::tokio_tungstenite::accept_async_with_config(stream, Some(cfg)).await else { return };
        let Ok(client) = AsyncClient::connect(uaddr).await else { return };
        let _ = repe::websocket_server::proxy_connection_with_limits(ws, client, limits).await;
    });
    let mut sock = connect_small(paddr, sc.buf).map_err(|e| format!("connect: {e}"))?;
    ws_handshake_as_client(&mut sock, "/").map_err(|e| format!("handshake: {e}"))?;
    let g = Gate::new(sc.stall_at);
    let rd = reader_thread(sock.try_clone().unwrap(), g.clone(), sc.chunk);
    let reqs: Vec<Vec<u8>> = requests(sc).iter().map(|f| ws_frame(2, f, true)).collect();
    let sent = send_requests(sock.try_clone().unwrap(), reqs, false, sc.o("rq", 0), 60, fnv(sc.idx.as_bytes()));
    wait_until(|| g.at_stall(sc.stall_at), WATCHDOG);
    std::thread::sleep(Duration::from_millis(sc.stall_ms));
    g.open();
    if !wait_until(|| sent.load(SeqCst) || g.eof.load(SeqCst), WATCHDOG) {
        notes.push("request-watchdog");
    }
    // the relay is sequential (one request, one response): wait until the responses stop coming
    wait_quiet(&g);
    let _ = sock.write_all(&ws_frame(8, &1000u16.to_be_bytes(), true));
    let _ = sock.shutdown(Shutdown::Write);
    if !wait_until(|| g.eof.load(SeqCst), WATCHDOG) {
        notes.push("eof-watchdog");
    }
    g.stop.store(true, SeqCst);
    let raw = rd.join().map_err(|_| "reader panicked".to_string())?;
    rt.shutdown_background();
    let c = ws_deframe(&raw);
    Ok(Capture { second: None, rep: c.rep.clone(), ws: Some(c), notes })
}

/// `pr`: what the scripted peer sends to a client while it is stalled: 1 = 48 bytes that are no REPE header
/// (the client's reader fails while writers are blocked), 2 = a consistent response nobody waits for (id 2^62),
/// delivered one byte at a time
fn peer_reply(sock: &TcpStream, pr: u64, ws: bool) {
    let mut sock = match sock.try_clone() {
        Ok(s) => s,
        Err(_) => return,
    };
    let payload: Vec<u8> = match pr {
        1 => vec![0xEE; 48],
        2 => {
            let mut f = RawFrame::request(1 << 62, false, 1, b"/late", 0, &pat(7, 300));
            f.h.notify = 0;
            f.to_vec()
        }
        _ => return,
    };
    let bytes = if ws { ws_frame(2, &payload, false) } else { payload };
    let _ = sock.set_nodelay(true);
    if pr == 2 {
        for b in bytes.chunks(1) {
            if sock.write_all(b).is_err() {
                return;
            }
        }
    } else {
        let _ = sock.write_all(&bytes);
    }
}

/// the timeout a client call is made with (`t` attribute of the writer, `ct` knob of the script)
fn call_timeout(w: &Wr, ct: u64) -> Duration {
    match w.tv {
        2 => Duration::ZERO,
        3 => Duration::from_millis(1),
        _ => Duration::from_millis(if w.kind == 'c' { ct.max(150) } else { ct }),
    }
}

fn fault_name(f: &Fault) -> &'static str {
    match f {
        Fault::None => "none",
        Fault::WTimeout(_) => "wtimeout",
        Fault::Cancel(_) => "cancel",
        Fault::Drain(_) => "drain",
    }
}

fn exec(out: &mut Out, line: &str) -> (String, String, bool) {
    let Some(sc) = Script::parse(line.split(" rec ").next().unwrap_or(line)) else {
        return (line.to_string(), format!("{} bad-op", words(line).get(1).copied().unwrap_or("?")), false);
    };
    let ep = EP_NAMES[sc.ep];
    out.count(&format!("endpoint.{}", ep));
    out.count(&format!("fault.{}.{}", ep, fault_name(&sc.fault)));
    out.count(&format!("writers.{}", match sc.ws.len() { 0..=1 => "1", 2..=4 => "2-4", 5..=16 => "5-16", _ => "17-32+" }));
    for w in &sc.ws {
        out.count(&format!("kind.{}", w.kind));
        if w.qlen > 0 {
            out.count(&format!("query.{}", match w.qlen { 0..=8143 => "<8K", 8144..=131071 => "<128K", 131072..=1048575 => "<1M", _ => ">=1M" }));
        }
        out.count(&format!("size.{}", match w.size { 0 => "0", 1..=8143 => "<8K", 8144..=8192 => "8K-edge", 8193..=131071 => "<128K", 131072..=1048575 => "<1M", 1048576..=4194304 => "1M-4M", _ => ">4M" }));
    }
    let cap = match sc.ep {
        0 => run_blocking_client(&sc),
        1 | 2 => run_async_client(&sc),
        3 | 4 => run_tcp_server(&sc),
        5 => run_ws_server(&sc),
        _ => run_ws_proxy(&sc),
    };
    let cap = match cap {
        Ok(c) => c,
        Err(e) => {
            // the scenario could not be set up (never the property's business)
            out.count("setup-failed");
            eprintln!("[torn] {}: setup failed: {}", sc.idx, e);
            return (format!("{} rec skipped - -", sc.line()), format!("{} skipped", sc.idx), false);
        }
    };
    for n in &cap.notes {
        out.count(&format!("note.{}", n));
    }
    let exps = expected_frames(sc.ep, &sc.ws);
    let p = analyse(&cap.rep, &exps);
    let sig_base = format!("torn.{}.{}", ep, fault_name(&sc.fault));
    let recline = {
        let fr: Vec<String> = p.frames.iter().map(|(t, id, o)| match o { Some(l) => format!("{}:{}:{}", t, id, l), None => format!("{}:{}", t, id) }).collect();
        let torn = p.torn.map(|(t, id, k, o)| match o { Some(l) => format!("{}:{}:{}:{}", t, id, k, l), None => format!("{}:{}:{}", t, id, k) }).unwrap_or_else(|| "-".into());
        let seen: Vec<usize> = p.frames.iter().map(|x| x.0).chain(p.torn.iter().map(|x| x.0)).collect();
        let att: Vec<String> = exps.iter().filter(|e| !seen.contains(&e.tag)).map(|e| e.tag.to_string()).collect();
        let j = |v: Vec<String>| if v.is_empty() { "-".to_string() } else { v.join(",") };
        format!("{} rec {} {} {}", sc.line(), j(fr), torn, j(att))
    };
    if let Some((kind, detail)) = &p.viol {
        out.oracle_fail(&format!("{}.{}", sig_base, kind), &format!("{}: {}", ep, detail), &[sc.line()]);
    }
    if let Some(w) = &cap.ws {
        for pr in &w.problems {
            out.oracle_fail(&format!("{}.ws_framing", sig_base), &format!("{}: {}", ep, pr), &[sc.line()]);
        }
        // every complete binary message must be exactly one whole REPE frame
        if p.viol.is_none() && w.msg_bounds != p.bounds {
            out.oracle_fail(
                &format!("{}.ws_message_not_one_frame", sig_base),
                &format!("{}: WebSocket message boundaries {:?} differ from frame boundaries {:?}", ep, &w.msg_bounds[..w.msg_bounds.len().min(8)], &p.bounds[..p.bounds.len().min(8)]),
                &[sc.line()],
            );
        }
    }
    if p.torn.is_some() {
        out.count(&format!("torn-tail.{}", ep));
    }
    out.add("frames-whole", p.frames.len() as u64);
    out.add("bytes-captured", cap.rep.len() as u64);
    // frames whose bytes the model cannot produce (error responses, BEVE bodies) are opaque to it: no digest then
    let opaque = p.frames.iter().any(|f| f.2.is_some()) || p.torn.map_or(false, |t| t.3.is_some());
    let digest = if cap.rep.len() <= DIGEST_CAP && !opaque { format!("{:016x}", fnv(&cap.rep)) } else { "-".to_string() };
    // a second connection to the same server instance must be served as by a fresh server
    if let Some(second) = &cap.second {
        let ws2: Vec<Wr> = SECOND.iter().map(|(t, sz)| (*t, Wr { kind: 'r', size: *sz, ..Default::default() })).fold(vec![Wr { kind: 'q', size: 0, ..Default::default() }; 64], |mut v, (t, w)| { v[t] = w; v });
        let p2 = analyse(second, &expected_frames(sc.ep, &ws2));
        out.count("second-connection");
        if let Some((kind, detail)) = &p2.viol {
            out.oracle_fail(&format!("{}.second_connection.{}", sig_base, kind), &format!("{} (second connection to the same server): {}", ep, detail), &[sc.line()]);
        }
    }
    let obs = format!(
        "{} frames {} torn {} after {} len {} fnv {}",
        sc.idx,
        p.frames.len(),
        p.torn.map(|t| t.2).unwrap_or(0),
        if p.after { "bytes" } else { "none" },
        cap.rep.len(),
        digest
    );
    let nontrivial = p.frames.len() >= 2 || p.torn.is_some();
    (recline, obs, nontrivial)
}

// ---------------------------------------------------------------------------------------------
// generator
// ---------------------------------------------------------------------------------------------
const EDGE_SIZES: [usize; 22] = [0, 1, 7, 47, 48, 100, 1000, 8137, 8143, 8144, 8145, 8192, 8193, 16384, 65535, 65536, 131017, 131072, 131073, 262144, 1048576, 1048577];

fn pick_size(r: &mut Rng, max: usize) -> usize {
    let s = match r.below(4) {
        0 | 1 => *r.pick(&EDGE_SIZES),
        2 => r.below(20000) as usize,
        _ => r.below(max as u64 + 1) as usize,
    };
    s.min(max)
}

fn kinds_for(ep: usize, r: &mut Rng) -> char {
    match ep {
        0..=2 => if r.chance(1, 4) { 'c' } else { 'n' },
        3 | 4 | 6 => match r.below(16) { 0 | 1 => 'q', 2 => 'o', _ => 'r' },
        _ => match r.below(16) { 0 | 1 => 'q', 2..=4 => 'p', 5 | 6 => 'B', 7 | 8 => 'o', _ => 'r' },
    }
}

fn fault_for(ep: usize, r: &mut Rng) -> Fault {
    match ep {
        0 | 3 | 4 => Fault::WTimeout(*r.pick(&[30u64, 60, 100, 30, 60, 1, 5, 400])),
        1 | 2 => Fault::Cancel(-1),
        6 => Fault::None,
        _ => Fault::Drain(*r.pick(&[30u64, 80])),
    }
}

/// Vary what the fixed shapes hold constant: format codes, ids, notify bytes, path variants, body `None`,
/// timeout twins, handler behaviour, request version / route, and the knobs of the script (`opt`).
fn spice(r: &mut Rng, sc: &mut Script) {
    let ep = sc.ep;
    let codes = [0u16, 1, 2, 3, 4095, 4096, 65535];
    let mut empty_path_used = false;
    let mut panics = 0;
    for w in sc.ws.iter_mut() {
        match (ep, w.kind) {
            (0..=2, 'c' | 'n' | 't' | 'T' | 'f' | 'F') => {
                if r.chance(1, 5) {
                    w.qf = Some(*r.pick(&codes));
                }
                if r.chance(1, 4) {
                    w.bf = Some(*r.pick(&codes));
                }
                if w.size == 0 && w.kind != 'f' && w.kind != 'F' && r.chance(1, 2) {
                    w.zb = true;
                }
                if (w.kind == 'f' || w.kind == 'F') && r.chance(1, 2) {
                    w.id = Some(*r.pick(&[0u64, 1, 2, u64::MAX, 1 << 32]));
                }
                if (w.kind == 'f' || w.kind == 'F') && r.chance(1, 3) {
                    w.nb = Some(*r.pick(&[0u8, 1, 2, 255]));
                }
            }
            (3..=6, 'r' | 'o') => {
                if r.chance(1, 6) {
                    w.id = Some(*r.pick(&[0u64, 1, u64::MAX, 1 << 63]));
                }
                if r.chance(1, 8) {
                    w.nb = Some(*r.pick(&[0u8, 2, 255, 1]));
                }
                if w.kind == 'r' && r.chance(1, 5) {
                    w.bf = Some(*r.pick(&codes));
                }
                if r.chance(1, 6) {
                    w.hb = *r.pick(&[1u8, 5, 6, 5, 1, 2, 3, 4]);
                    // a panicking inline handler ends the connection: at most one per script
                    if (2..=4).contains(&w.hb) {
                        panics += 1;
                        if panics > 1 {
                            w.hb = 5;
                        }
                    }
                }
                if r.chance(1, 20) {
                    w.ver = Some(*r.pick(&[0u8, 2, 255]));
                }
                if r.chance(1, 20) {
                    w.xr = true;
                }
                if r.chance(1, 24) {
                    w.qf = Some(*r.pick(&[0u16, 2, 65535]));
                }
            }
            _ => {}
        }
        if matches!(w.kind, 'c' | 'n' | 't' | 'T' | 'j' | 'J' | 'r' | 'o' | 'p') && !w.xr {
            if r.chance(1, 8) {
                w.pv = 1;
            } else if ep <= 2 && !empty_path_used && w.qlen == 0 && r.chance(1, 24) {
                w.pv = 2;
                empty_path_used = true;
            }
        }
        if is_follow(w.kind) && matches!(w.kind, 'T' | 'J' | 'Y' | 'V' | 'm' | 'F') && r.chance(1, 3) {
            w.tv = *r.pick(&[1u8, 2, 3]);
        }
    }
    for w in sc.ws.iter_mut() {
        if w.kind == 'o' {
            w.size = w.size.max(2);
            w.qlen = w.qlen.min(4000);
        }
    }
    let mut set = |r: &mut Rng, k: &str, vals: &[u64], num: u64, den: u64| {
        if r.chance(num, den) {
            sc.opt.insert(k.to_string(), *r.pick(vals));
        }
    };
    set(r, "obs", &[1, 2, 3], 1, 5);
    if ep >= 3 {
        set(r, "rq", &[1, 2, 2, 3], 1, 3);
    } else {
        set(r, "pr", &[1, 2, 2], 1, 5);
    }
    if ep == 1 || ep == 2 {
        set(r, "dropc", &[1], 1, 8);
    }
    if ep == 5 || ep == 6 {
        set(r, "mbt", &[1, 2], 1, 4);
    }
    if ep == 5 {
        set(r, "fin", &[1], 1, 5);
        set(r, "dat", &[1, 2], 1, 4);
    }
    match ep {
        0..=2 => set(r, "ct", &[0, 1, 20, 200], 1, 3),
        3 | 4 => {
            set(r, "rto", &[2000, 10000], 1, 4);
            if ep == 3 {
                set(r, "nd", &[0], 1, 4);
            }
            set(r, "conns", &[2], 1, 2);
            set(r, "rst", &[1], 1, 6);
        }
        5 => {
            set(r, "cap", &[1, 2, 256], 1, 2);
            set(r, "via", &[1, 2, 3, 4], 1, 2);
            set(r, "conns", &[2], 1, 2);
            set(r, "off", &[0, 1, 2], 1, 3);
            set(r, "lim", &[48, 49, 64, 100, 128, 165, 170, 180, 256, 9000, 70000, 1 << 20], 1, 4);
        }
        _ => {}
    }
}

/// which follow-up entry points exist on which client (forward: async only; typed slices: not on the WebSocket client)
fn follow_for(ep: usize, c: char) -> bool {
    match c {
        'f' | 'F' => ep == 1,
        'S' | 'A' => ep <= 1,
        _ => true,
    }
}

fn argmax(ws: &[Wr]) -> i64 {
    ws.iter().enumerate().max_by_key(|(_, w)| w.size).map(|(i, _)| i as i64).unwrap_or(-1)
}

fn gen_scripts(r: &mut Rng, thorough: bool) -> Vec<Script> {
    let mut v: Vec<Script> = Vec::new();
    let small = 4096usize;
    let mut k = 0usize;
    let mut push = |v: &mut Vec<Script>, mut s: Script| {
        s.idx = format!("s{}", k);
        k += 1;
        for w in s.ws.iter_mut() {
            if w.kind == 'o' {
                w.size = w.size.max(2);
            }
        }
        // after a cancel, "the next calls" are issued
        if let Fault::Cancel(_) = s.fault {
            let n = s.ws.len();
            if n < 56 {
                // "the next calls", through different entry points (rotated so that each comes first somewhere)
                let kinds: Vec<char> = FOLLOW.chars().filter(|c| follow_for(s.ep, *c)).collect();
                for j in 0..4 {
                    let kd = kinds[(k + j * 3) % kinds.len()];
                    let size = if kd == 'm' || kd == 'g' { 0 } else if j % 2 == 0 { 304 } else { 70000 };
                    s.ws.push(Wr { kind: kd, size, qlen: 0, ..Default::default() });
                }
            }
        }
        v.push(s);
    };
    for ep in 0..7usize {
        let big = 1usize << 20;
        // 1. many writers, small and medium frames, peer stalls from the first byte, tiny reads
        let ws: Vec<Wr> = (0..32).map(|_| Wr { kind: kinds_for(ep, r), size: pick_size(r, 70000), qlen: 0, ..Default::default() }).collect();
        push(&mut v, Script { idx: String::new(), ep, buf: small, rt: 2, chunk: 997, stall_at: 0, stall_ms: 120, fault: Fault::None, opt: Default::default(), ws });
        // 2. sizes straddling the 8 KiB BufWriter and the 128 KiB tungstenite buffer, one 1 MiB frame, stall inside
        let mut ws: Vec<Wr> = [8143usize, 8144, 8145, 8192, 131017, 131072, 131073].iter().map(|s| Wr { kind: kinds_for(ep, r), size: *s, qlen: 0, ..Default::default() }).collect();
        ws.push(Wr { kind: kinds_for(ep, r), size: big + 1, qlen: 0, ..Default::default() });
        r.shuffle(&mut ws);
        push(&mut v, Script { idx: String::new(), ep, buf: 65536, rt: 2, chunk: 65536, stall_at: r.below(600000), stall_ms: 150, fault: Fault::None, opt: Default::default(), ws });
        // 3. a few multi-MiB frames through default kernel buffers
        let ws: Vec<Wr> = (0..3).map(|_| Wr { kind: kinds_for(ep, r), size: big + r.below(2 * big as u64) as usize, qlen: 0, ..Default::default() }).collect();
        push(&mut v, Script { idx: String::new(), ep, buf: 0, rt: 1, chunk: 65536, stall_at: r.below(big as u64), stall_ms: 80, fault: Fault::None, opt: Default::default(), ws });
        // 4. the fault while a frame much larger than every buffer is being written
        let mut ws = vec![Wr { kind: kinds_for(ep, r), size: big, qlen: 0, ..Default::default() }, Wr { kind: kinds_for(ep, r), size: 100000, qlen: 0, ..Default::default() }];
        ws.extend((0..4).map(|_| Wr { kind: kinds_for(ep, r), size: pick_size(r, 9000), qlen: 0, ..Default::default() }));
        if ep == 5 {
            ws[0].kind = 'r';
        }
        // (servers: followed by a second connection to the same server instance)
        let mut opt = std::collections::BTreeMap::new();
        if ep == 3 || ep == 4 {
            opt.insert("conns".to_string(), 2u64);
        }
        push(&mut v, Script { idx: String::new(), ep, buf: small, rt: 2, chunk: 65536, stall_at: 0, stall_ms: 450, fault: fault_for(ep, r), opt, ws });
        // 5. the fault after some whole frames went through
        let mut ws: Vec<Wr> = (0..3).map(|_| Wr { kind: kinds_for(ep, r), size: pick_size(r, 3000), qlen: 0, ..Default::default() }).collect();
        ws.extend((0..3).map(|_| Wr { kind: kinds_for(ep, r), size: 300000 + r.below(400000) as usize, qlen: 0, ..Default::default() }));
        ws.extend((0..3).map(|_| Wr { kind: kinds_for(ep, r), size: pick_size(r, 20000), qlen: 0, ..Default::default() }));
        // (clients: only the largest call is abandoned, the other callers carry on)
        let fault = match fault_for(ep, r) {
            Fault::Cancel(_) => Fault::Cancel(argmax(&ws)),
            f => f,
        };
        push(&mut v, Script { idx: String::new(), ep, buf: small, rt: 1, chunk: 4096, stall_at: 2000 + r.below(500000), stall_ms: 400, fault, opt: Default::default(), ws });
        // 6. the fault with 16 medium writers
        let ws: Vec<Wr> = (0..16).map(|_| Wr { kind: kinds_for(ep, r), size: 60000 + r.below(200000) as usize, qlen: 0, ..Default::default() }).collect();
        push(&mut v, Script { idx: String::new(), ep, buf: small, rt: 4, chunk: 65536, stall_at: r.below(300000), stall_ms: 400, fault: fault_for(ep, r), opt: Default::default(), ws });
        // 7. the fault configured but every frame fits the buffers (nothing may be torn)
        let ws: Vec<Wr> = (0..8).map(|_| Wr { kind: kinds_for(ep, r), size: pick_size(r, 900), qlen: 0, ..Default::default() }).collect();
        push(&mut v, Script { idx: String::new(), ep, buf: 65536, rt: 2, chunk: 100, stall_at: 0, stall_ms: 150, fault: fault_for(ep, r), opt: Default::default(), ws });
        // 8. clients: one frame far larger than the buffers is certainly in progress when the fault hits;
        //    the next frame is offered through each emission entry point in turn (first in line), then the others
        if ep <= 2 {
            let all: Vec<char> = FOLLOW.chars().filter(|c| follow_for(ep, *c)).collect();
            let firsts: Vec<char> = if ep == 2 && !thorough { vec!['t', 'J', 'b'] } else { all.clone() };
            for (j, kd) in firsts.iter().enumerate() {
                let mut ws = vec![Wr { kind: 'n', size: 300000 + 1000 * j, qlen: 0, ..Default::default() }];
                let mut order = vec![*kd];
                order.extend(all.iter().filter(|c| *c != kd).cycle().skip(j).take(3));
                for (x, c) in order.iter().enumerate() {
                    let size = if *c == 'm' || *c == 'g' { 0 } else if x % 2 == 0 { 200 + 16 * j } else { 20000 };
                    ws.push(Wr { kind: *c, size, qlen: if x == 1 { 300 } else { 0 }, ..Default::default() });
                }
                let (fault, stall_ms) = if ep == 0 { (Fault::WTimeout(30), 100) } else { (Fault::Cancel(-1), 40) };
                push(&mut v, Script { idx: String::new(), ep, buf: small, rt: 2, chunk: 65536, stall_at: 0, stall_ms, fault, opt: Default::default(), ws });
            }
        }
        if ep == 1 || ep == 2 {
            // the socket fills on small notifies, one caller gives up in its flush; a 64 KiB call made while the
            // peer is still stalled is given up on as well (its header never left the write buffer); the peer
            // resumes; further requests
            let w0 = |kind: char, size: usize| Wr { kind, size, ..Default::default() };
            for big in [65536usize, 9000] {
                let ws = vec![w0('n', 5000), w0('n', 5000), w0('n', 5000), w0('n', 4000), Wr { st: true, ..w0('T', big) }, Wr { st: true, ..w0('t', 100) }, w0('t', 300), w0('J', 700), w0('t', 20000)];
                push(&mut v, Script { idx: String::new(), ep, buf: small, rt: 1, chunk: 65536, stall_at: 0, stall_ms: 40, fault: Fault::Cancel(-1), opt: Default::default(), ws });
            }
        }
        if ep == 5 {
            // assumed peer limits around and below the size of the server's own replacement error frame
            let w0 = |kind: char, size: usize| Wr { kind, size, ..Default::default() };
            for lim in [*r.pick(&[48u64, 49, 64]), *r.pick(&[100u64, 128, 150]), 160 + r.below(21), *r.pick(&[256u64, 200, 512])] {
                let ws = vec![w0('r', 8192), w0('r', 100), w0('p', 300), w0('r', 10), w0('B', 50), w0('o', 2000), w0('r', 0), w0('p', 0), w0('r', 70000), w0('r', 30)];
                let mut opt = std::collections::BTreeMap::new();
                opt.insert("lim".to_string(), lim);
                push(&mut v, Script { idx: String::new(), ep, buf: 65536, rt: 2, chunk: 65536, stall_at: 0, stall_ms: 0, fault: Fault::None, opt, ws });
            }
        }
        if ep == 1 {
            // a relayed notify right behind an abandoned call, stall point inside the big frame
            let ws = vec![Wr { kind: 'c', size: 500000, qlen: 0, ..Default::default() }, Wr { kind: 'f', size: 100, qlen: 0, ..Default::default() }, Wr { kind: 't', size: 300, qlen: 0, ..Default::default() }, Wr { kind: 'F', size: 20000, qlen: 0, ..Default::default() }];
            push(&mut v, Script { idx: String::new(), ep, buf: small, rt: 1, chunk: 4096, stall_at: 6000, stall_ms: 60, fault: Fault::Cancel(0), opt: Default::default(), ws });
        }
        // 9. servers: echoed queries larger than the send buffer (the response's header+query alone exceed
        //    what the socket takes in one write), no stall at all
        if ep >= 3 {
            let qmax = if thorough { 6 << 20 } else { 1 << 20 };
            let ws = vec![
                Wr { kind: 'r', size: 5000, qlen: 65536, ..Default::default() },
                Wr { kind: 'r', size: 16, qlen: 200000 + r.below(100000) as usize, ..Default::default() },
                Wr { kind: 'r', size: 100, qlen: 0, ..Default::default() },
                Wr { kind: 'r', size: 9000, qlen: qmax, ..Default::default() },
                Wr { kind: if ep == 5 { 'p' } else { 'r' }, size: 70000, qlen: 3000, ..Default::default() },
                Wr { kind: 'r', size: 0, qlen: 70001, ..Default::default() },
                Wr { kind: 'r', size: 20000, qlen: 8192, ..Default::default() },
            ];
            push(&mut v, Script { idx: String::new(), ep, buf: small, rt: 2, chunk: 65536, stall_at: 0, stall_ms: 0, fault: Fault::None, opt: Default::default(), ws: ws.clone() });
            push(&mut v, Script { idx: String::new(), ep, buf: if thorough { 0 } else { 65536 }, rt: 1, chunk: 65536, stall_at: 100000, stall_ms: 50, fault: Fault::None, opt: Default::default(), ws });
            // 10. the peer stalls until the send buffer is full, then drains in small reads while responses
            //     of 8-30 KiB with moderately long queries are written: short writes end anywhere in a frame
            for buf in [small, 16384] {
                let ws: Vec<Wr> = (0..24).map(|_| Wr { kind: 'r', size: 4000 + r.below(22000) as usize, qlen: 200 + r.below(7000) as usize, ..Default::default() }).collect();
                push(&mut v, Script { idx: String::new(), ep, buf, rt: 2, chunk: 700 + r.below(3000) as usize, stall_at: r.below(30000), stall_ms: 60, fault: Fault::None, opt: Default::default(), ws });
            }
        }
        // 11. parameters the other shapes hold constant, at their boundaries
        let w0 = |kind: char, size: usize| Wr { kind, size, ..Default::default() };
        if ep <= 2 {
            let mut ws = vec![
                Wr { qf: Some(0), bf: Some(65535), ..w0('n', 100) },
                Wr { qf: Some(65535), bf: Some(4096), ..w0('c', 9000) },
                Wr { pv: 1, ..w0('n', 20000) },
                Wr { pv: 2, ..w0('c', 70) },
                Wr { zb: true, ..w0('n', 0) },
                Wr { pv: 1, qlen: 5000, ..w0('c', 0) },
                Wr { tv: 1, ..w0('T', 300) },
                Wr { tv: 2, ..w0('J', 40) },
                Wr { tv: 3, ..w0('Y', 9000) },
                Wr { tv: 1, ..w0('m', 0) },
                w0('v', 10),
                Wr { tv: 1, ..w0('V', 3000) },
            ];
            if ep == 1 {
                ws.push(Wr { id: Some(0), nb: Some(2), ..w0('f', 100) });
                ws.push(Wr { id: Some(u64::MAX), nb: Some(255), tv: 3, ..w0('F', 9000) });
                ws.push(Wr { id: Some(1), nb: Some(0), ..w0('f', 10) });
                ws.push(Wr { tv: 1, ..w0('F', 100) });
            }
            // a batch larger than the 64 batch workers
            ws.extend((0..70).map(|j| w0('b', 2 + j)));
            let mut opt = std::collections::BTreeMap::new();
            opt.insert("ct".to_string(), *r.pick(&[1u64, 20, 60]));
            push(&mut v, Script { idx: String::new(), ep, buf: 65536, rt: 2, chunk: 65536, stall_at: 0, stall_ms: 30, fault: Fault::None, opt, ws });
        } else {
            // 12. what a handler can do: fail, be slow, re-enter the connection, panic (three payload kinds);
            //     requests that are refused (version, route, query format), ids and notify bytes at the edges;
            //     then a second connection to the same server
            let mut ws = vec![
                Wr { hb: 5, ..w0('r', 9000) },
                Wr { hb: 1, ..w0('r', 100) },
                Wr { hb: 6, ..w0('r', 20000) },
                Wr { id: Some(0), nb: Some(2), ..w0('r', 300) },
                Wr { id: Some(u64::MAX), nb: Some(255), bf: Some(65535), ..w0('r', 8144) },
                Wr { ver: Some(2), ..w0('r', 50) },
                Wr { xr: true, ..w0('r', 50) },
                Wr { qf: Some(0), ..w0('r', 50) },
                Wr { pv: 1, ..w0('r', 70000) },
                Wr { nb: Some(1), ..w0('r', 4000) },
                w0('o', 5000),
                Wr { hb: 1, ..w0('o', 10) },
                Wr { hb: 5, ..w0('o', 70000) },
            ];
            if ep == 5 {
                ws.push(w0('h', 3000));
                ws.push(w0('h', 0));
                ws.push(Wr { hb: 2, ..w0('o', 100) });
                ws.push(Wr { hb: 3, ..w0('o', 100) });
                ws.push(Wr { hb: 4, ..w0('o', 100) });
                ws.push(w0('B', 9000));
                // pushes and a response above the assumed peer limit set below
                ws.push(w0('p', 30000));
                ws.push(w0('B', 25000));
            }
            ws.push(w0('r', 131073));
            // the panicking inline handler comes last but one: it ends a TCP connection
            ws.push(Wr { hb: *r.pick(&[2u8, 3, 4]), ..w0('r', 100) });
            ws.push(w0('r', 600));
            let mut opt = std::collections::BTreeMap::new();
            opt.insert("conns".to_string(), 2);
            if ep == 5 {
                opt.insert("cap".to_string(), *r.pick(&[1u64, 4]));
                opt.insert("via".to_string(), r.below(2));
                opt.insert("off".to_string(), *r.pick(&[0u64, 2]));
                opt.insert("lim".to_string(), 20000 + r.below(4000));
            }
            if ep == 3 {
                opt.insert("nd".to_string(), 0);
                opt.insert("rto".to_string(), 5000);
            }
            push(&mut v, Script { idx: String::new(), ep, buf: small, rt: 2, chunk: 4096, stall_at: r.below(20000), stall_ms: 60, fault: Fault::None, opt, ws });
        }
        // ---- second coverage audit: counts in a row, internal sizes, fragmented input, observers, knob pairs,
        //      exhausted resources, exit paths
        {
            let kk = r.below(1000) as usize;
            let w0 = |kind: char, size: usize| Wr { kind, size, ..Default::default() };
            let o1 = |k: &str, v: u64| { let mut m = std::collections::BTreeMap::new(); m.insert(k.to_string(), v); m };
            let runs_q = [1usize, 2, 7, 8, 9, 16, 17, 64, 65];
            // body size that makes the whole frame `total` bytes (query `/x/<tag>` is 4 or 5 bytes)
            let for_total = |total: usize, tag: usize| total.saturating_sub(48 + if tag < 10 { 4 } else { 5 });
            // (h) frame TOTALS around the buffer sizes and the WebSocket length encodings
            let totals = [125usize, 126, 127, 8191, 8192, 8193, 16384, 65535, 65536, 65537, 131071, 131072, 131073, 131058, 131062, 131068];
            let ws: Vec<Wr> = totals.iter().enumerate().map(|(t, tot)| w0(if ep <= 2 { if t % 3 == 0 { 'c' } else { 'n' } } else { 'r' }, for_total(*tot, t))).collect();
            push(&mut v, Script { idx: String::new(), ep, buf: small, rt: 2, chunk: 65536, stall_at: r.below(200000), stall_ms: 60, fault: Fault::None, opt: o1("obs", 2), ws });
            if ep >= 3 {
                // (g) N identical refusals / handler errors in a row, then ordinary requests: one connection with runs
                //     of 9, 17 and 65 of one kind (quick) and one run of a PRNG-chosen length of mixed kinds; every
                //     length and kind on its own connection in thorough
                let refusal = |kind: usize| match kind % 4 { 0 => Wr { xr: true, ..w0('r', 10) }, 1 => Wr { ver: Some(2), ..w0('r', 10) }, 2 => Wr { hb: 1, ..w0('r', 10) }, _ => Wr { qf: Some(0), ..w0('r', 0) } };
                let mut lists: Vec<Vec<Wr>> = Vec::new();
                let mut ws: Vec<Wr> = Vec::new();
                for n in [9usize, 17, 65] {
                    ws.extend((0..n).map(|_| refusal(kk + ep)));
                    ws.push(w0('r', 700));
                }
                lists.push(ws);
                let n = *r.pick(&runs_q);
                let mut ws: Vec<Wr> = (0..n).map(|j| refusal(j + kk)).collect();
                ws.push(w0('r', 9000));
                lists.push(ws);
                if thorough {
                    for (j, n) in [1usize, 2, 7, 8, 9, 16, 17, 64, 65, 256, 1000].iter().enumerate() {
                        let mut ws: Vec<Wr> = (0..*n).map(|_| refusal(j)).collect();
                        ws.push(w0('r', 9000));
                        ws.push(w0('r', 100));
                        lists.push(ws);
                    }
                }
                for ws in lists {
                    let mut opt = o1("rq", *r.pick(&[0u64, 1, 2]));
                    if ep == 5 { opt.insert("cap".to_string(), *r.pick(&[1u64, 2, 256])); }
                    // (the refusal paths under a write timeout too: "nothing after a torn frame" holds there as well)
                    let fault = if (ep == 3 || ep == 4) && r.chance(1, 2) { Fault::WTimeout(30) } else { Fault::None };
                    push(&mut v, Script { idx: String::new(), ep, buf: if fault == Fault::None { 16384 } else { small }, rt: 2, chunk: 65536, stall_at: 0, stall_ms: if fault == Fault::None { 20 } else { 90 }, fault, opt, ws });
                }
                // (i) requests arriving in pieces (cut inside the header, at 48, inside query and body), long paths;
                //     and a pause longer than the read timeout in the middle of a request
                let ws = vec![w0('r', 9000), Wr { qlen: 3000, ..w0('r', 20000) }, w0('o', 500), Wr { qlen: 70000, ..w0('r', 10) }, w0('q', 100), w0('r', 131073)];
                push(&mut v, Script { idx: String::new(), ep, buf: small, rt: 2, chunk: 4096, stall_at: r.below(30000), stall_ms: 50, fault: Fault::None, opt: o1("rq", 2), ws: ws.clone() });
                if ep == 3 || ep == 4 {
                    let mut opt = o1("rq", 3);
                    opt.insert("rto".to_string(), 40);
                    push(&mut v, Script { idx: String::new(), ep, buf: small, rt: 2, chunk: 65536, stall_at: 0, stall_ms: 150, fault: if kk % 2 == 0 { Fault::None } else { Fault::WTimeout(30) }, opt, ws });
                }
                // (k) pairs of knobs: rows of the orthogonal array OA(8, 7, 2, 2)
                let oa: [[u8; 7]; 8] = [[0, 0, 0, 0, 0, 0, 0], [0, 0, 0, 1, 1, 1, 1], [0, 1, 1, 0, 0, 1, 1], [0, 1, 1, 1, 1, 0, 0], [1, 0, 1, 0, 1, 0, 1], [1, 0, 1, 1, 0, 1, 0], [1, 1, 0, 0, 1, 1, 0], [1, 1, 0, 1, 0, 0, 1]];
                // (quick: two rows; for the TCP servers one of them has write timeout AND read timeout)
                let rows: Vec<usize> = if thorough { (0..8).collect() } else if ep <= 4 { vec![4 + kk % 2, (kk + ep) % 4] } else { vec![(kk + ep) % 8, (kk + ep + 3) % 8] };
                for row in rows {
                    let b = oa[row];
                    let mut opt = std::collections::BTreeMap::new();
                    let mut fault = Fault::None;
                    let mut ws = vec![w0('r', 70000), w0('o', 3000), Wr { hb: 5, ..w0('o', 20000) }, w0('r', 100), w0('q', 10), w0('r', 9000), Wr { hb: 5, ..w0('o', 100) }];
                    if ep == 5 {
                        ws.extend([w0('p', 5000), w0('B', 100), w0('p', 30000), w0('h', 200)]);
                        opt.insert("cap".to_string(), if b[0] == 1 { 1 } else { 256 });
                        if b[1] == 1 { opt.insert("lim".to_string(), 64); }
                        opt.insert("off".to_string(), b[2] as u64);
                        opt.insert("via".to_string(), b[3] as u64);
                        if b[4] == 1 { fault = Fault::Drain(30); opt.insert("dat".to_string(), (row % 3) as u64); }
                        if b[5] == 1 { opt.insert("mbt".to_string(), 1); }
                        if b[6] == 1 { opt.insert("rq".to_string(), 2); }
                    } else if ep == 6 {
                        if b[5] == 1 { opt.insert("mbt".to_string(), 1); }
                        if b[6] == 1 { opt.insert("rq".to_string(), 2); }
                        if b[0] == 1 { opt.insert("obs".to_string(), 2); }
                    } else {
                        if b[0] == 1 { fault = Fault::WTimeout(if b[1] == 1 { 1 } else { 60 }); }
                        if b[2] == 1 { opt.insert("rto".to_string(), if b[6] == 1 { 40 } else { 5000 }); }
                        if ep == 3 { opt.insert("nd".to_string(), b[3] as u64); }
                        if b[4] == 1 { opt.insert("conns".to_string(), 2); }
                        if b[6] == 1 { opt.insert("rq".to_string(), 3); }
                    }
                    push(&mut v, Script { idx: String::new(), ep, buf: if b[5] == 1 { small } else { 65536 }, rt: 1 + (row % 3), chunk: 65536, stall_at: r.below(60000), stall_ms: 120, fault, opt, ws });
                }
            }
            if ep == 5 {
                // (h)(l) off-reader handlers around the default limit of 16, all slow, one blocking thread,
                //         channel capacity 1, peer not reading, drain deadline while they are parked
                for n in if thorough { vec![15usize, 16, 17, 40] } else { vec![*r.pick(&[15usize, 16, 17])] } {
                    let mut ws: Vec<Wr> = (0..n).map(|j| Wr { hb: 5, ..w0('o', 2 + 700 * j) }).collect();
                    ws.extend([w0('p', 9000), w0('r', 100), w0('B', 20)]);
                    let mut opt = o1("cap", 1);
                    opt.insert("mbt".to_string(), *r.pick(&[1u64, 2]));
                    push(&mut v, Script { idx: String::new(), ep, buf: small, rt: 2, chunk: 65536, stall_at: 4000, stall_ms: 150, fault: if n % 2 == 0 { Fault::Drain(30) } else { Fault::None }, opt, ws });
                }
                // (g) pushes in a row against a tiny and the default-sized channel (Full results in a row)
                for (n, cap) in if thorough { vec![(255usize, 256u64), (256, 256), (257, 256), (65, 1)] } else { vec![(*r.pick(&[17usize, 64, 65]), *r.pick(&[1u64, 2]))] } {
                    let mut ws: Vec<Wr> = (0..n).map(|j| w0(if j % 5 == 0 { 'B' } else { 'p' }, 40 + j)).collect();
                    ws.push(w0('r', 300));
                    push(&mut v, Script { idx: String::new(), ep, buf: small, rt: 2, chunk: 65536, stall_at: 3000, stall_ms: 80, fault: Fault::None, opt: o1("cap", cap), ws });
                }
                // (m) the peer ends its side while the writer is blocked mid-send
                let mut opt = o1("fin", 1);
                opt.insert("cap".to_string(), 2);
                let ws = vec![w0('r', 300000), w0('p', 70000), w0('r', 100), w0('o', 9000), w0('B', 50)];
                push(&mut v, Script { idx: String::new(), ep, buf: small, rt: 2, chunk: 65536, stall_at: 20000, stall_ms: 120, fault: Fault::None, opt: opt.clone(), ws: ws.clone() });
                if thorough {
                    // … for longer than the writer's 5 s shutdown-drain timeout
                    push(&mut v, Script { idx: String::new(), ep, buf: small, rt: 2, chunk: 65536, stall_at: 20000, stall_ms: 5600, fault: Fault::None, opt, ws });
                }
            }
            if ep <= 2 {
                // (g) calls abandoned in a row while the peer stays stalled (async, WebSocket); zero-timeout calls in a row
                if ep >= 1 {
                    for n in if thorough { vec![1usize, 2, 7, 8, 9, 16, 17] } else { vec![*r.pick(&[2usize, 7, 8, 9])] } {
                        let mut ws = vec![w0('n', 5000), w0('n', 5000), w0('n', 5000)];
                        ws.extend((0..n).map(|j| Wr { st: true, ..w0(if j % 2 == 0 { 'T' } else { 't' }, if j % 3 == 0 { 20000 } else { 200 }) }));
                        ws.extend([w0('t', 100), w0('J', 300)]);
                        let mut opt = o1("dropc", (n % 2) as u64);
                        opt.insert("obs".to_string(), 1);
                        push(&mut v, Script { idx: String::new(), ep, buf: small, rt: 1, chunk: 65536, stall_at: 0, stall_ms: 40, fault: Fault::Cancel(-1), opt, ws });
                    }
                }
                let n = if thorough { 65 } else { *r.pick(&[8usize, 9, 17]) };
                let mut ws = vec![w0('n', 3000)];
                ws.extend((0..n).map(|j| Wr { tv: 2, ..w0(if j % 2 == 0 { 'T' } else { 'J' }, 50 + j) }));
                // (h) batches of 63, 64, 65 requests (64 batch workers)
                let bn = if thorough { 65 } else { *r.pick(&[63usize, 64, 65]) };
                ws.extend((0..bn).map(|j| w0('b', 2 + j % 40)));
                // (i)(m) the peer sends bytes that are no frame (the reader fails while writers are blocked) or a late
                //        response one byte at a time
                let opt = o1("pr", 1 + (kk % 2) as u64);
                let fault = if ep == 0 { Fault::WTimeout(400) } else { Fault::None };
                push(&mut v, Script { idx: String::new(), ep, buf: small, rt: 2, chunk: 65536, stall_at: 1000, stall_ms: 60, fault, opt, ws });
                if thorough && ep == 2 {
                    // (h) the client's DEFAULT assumed peer limit (16 MiB): a frame of exactly the limit, and one byte more
                    let ws = vec![w0('n', (16 << 20) - 52), w0('n', (16 << 20) - 51), w0('n', 100)];
                    push(&mut v, Script { idx: String::new(), ep, buf: 0, rt: 2, chunk: 65536, stall_at: 1 << 20, stall_ms: 50, fault: Fault::None, opt: o1("dl", 1), ws });
                }
            }
        }
        // ---- (h) again: BODY sizes and frame totals around powers of two up to 16 MiB (an internal "large body" threshold
        //      may sit at any of them): 4 MiB-1 / 4 MiB / 4 MiB+1 on every endpoint in quick, the rest in thorough
        {
            let w0 = |kind: char, size: usize| Wr { kind, size, ..Default::default() };
            let k = if ep <= 2 { 'n' } else { 'r' };
            let m = 1usize << 20;
            let mut sets: Vec<Vec<usize>> = vec![vec![4 * m, 100, 4 * m - 1, 4 * m + 1]];
            if thorough {
                sets.push(vec![m - 1, m, m + 1, 2 * m - 1, 2 * m, 2 * m + 1]);
                sets.push(vec![8 * m - 1, 8 * m, 8 * m + 1]);
                // the same as frame TOTALS (header and the 4/5-byte path included)
                sets.push(vec![m - 53, 2 * m - 53, 4 * m - 53, 4 * m - 52, 8 * m - 53, 8 * m - 52]);
                sets.push(vec![16 * m - 53, 16 * m, 100]);
            }
            for (j, set) in sets.into_iter().enumerate() {
                let ws: Vec<Wr> = set.iter().map(|sz| w0(k, *sz)).collect();
                // no stall worth speaking of in the first one, a stall inside the large body in the others
                let (stall_at, stall_ms) = if j == 0 { (0, 0) } else { (3 * m as u64, 80) };
                push(&mut v, Script { idx: String::new(), ep, buf: 0, rt: 2, chunk: 65536, stall_at, stall_ms, fault: Fault::None, opt: Default::default(), ws });
            }
        }
        // ---- third coverage audit
        {
            let w0 = |kind: char, size: usize| Wr { kind, size, ..Default::default() };
            if ep >= 3 {
                // (p) every error a handler can hand back, each followed by an ordinary request; then (tcp) the peer resets
                let mut ws: Vec<Wr> = Vec::new();
                for hb in 10u8..=34 {
                    ws.push(Wr { hb, ..w0(if hb % 5 == 0 { 'o' } else { 'r' }, 50 + hb as usize) });
                    if hb % 6 == 0 {
                        ws.push(w0('r', 9000));
                    }
                }
                ws.push(w0('r', 300000));
                let mut opt = std::collections::BTreeMap::new();
                if ep <= 4 {
                    opt.insert("rst".to_string(), 1u64);
                }
                if ep == 5 {
                    opt.insert("via".to_string(), 2 + r.below(3));
                }
                push(&mut v, Script { idx: String::new(), ep, buf: small, rt: 2, chunk: 65536, stall_at: 40000, stall_ms: 60, fault: Fault::None, opt, ws });
            }
            if ep <= 2 {
                // (q) the fault while MANY calls are pending (16 registered, in no particular order): the largest one is
                //     abandoned / times out, the others carry on; then the reader fails too
                //     (one worker thread and the large call spawned first, so that it holds the writer lock when the peer stalls
                //     and the other fifteen are registered and queued behind it)
                let mut ws: Vec<Wr> = (0..16).map(|j| w0('c', if j == 0 { 400000 } else { 100 + 977 * ((j * 7) % 16) })).collect();
                ws.extend([w0('t', 200), w0('J', 500)]);
                let fault = if ep == 0 { Fault::WTimeout(30) } else { Fault::Cancel(0) };
                let mut opt = std::collections::BTreeMap::new();
                opt.insert("pr".to_string(), 1u64);
                opt.insert("ct".to_string(), 200);
                push(&mut v, Script { idx: String::new(), ep, buf: small, rt: 1, chunk: 65536, stall_at: 0, stall_ms: if ep == 0 { 100 } else { 40 }, fault, opt, ws });
            }
            if ep == 5 {
                // (q) a drain deadline with dozens of messages queued behind a stalled writer
                let mut ws: Vec<Wr> = (0..40).map(|j| w0(if j % 4 == 0 { 'B' } else { 'p' }, 100 + 531 * ((j * 11) % 40))).collect();
                ws.extend([w0('r', 100000), w0('o', 5000)]);
                let mut opt = std::collections::BTreeMap::new();
                opt.insert("cap".to_string(), 256u64);
                push(&mut v, Script { idx: String::new(), ep, buf: small, rt: 2, chunk: 65536, stall_at: 2000, stall_ms: 150, fault: Fault::Drain(40), opt, ws });
            }
        }
        // random scripts
        let n_random = if thorough { 60 } else { 1 };
        for _ in 0..n_random {
            let n = 1 + r.below(32) as usize;
            let budget: usize = if thorough { 6 << 20 } else { 2 << 20 };
            let ws: Vec<Wr> = (0..n).map(|_| Wr { kind: kinds_for(ep, r), size: pick_size(r, budget / n), qlen: if r.chance(1, 4) { 60 + pick_size(r, (budget / n).min(300000)) } else { 0 }, ..Default::default() }).collect();
            let total: u64 = ws.iter().map(|w| (w.size + w.qlen) as u64 + 60).sum();
            let fault = match if r.chance(1, 2) { fault_for(ep, r) } else { Fault::None } {
                Fault::Cancel(_) if r.chance(1, 2) => Fault::Cancel(argmax(&ws)),
                f => f,
            };
            let stall_ms = if fault == Fault::None { 50 + r.below(150) } else { 300 + r.below(200) };
            let mut sc = Script { idx: String::new(), ep, buf: *r.pick(&[small, small, 16384, 65536, 0]), rt: 1 + r.below(4) as usize, chunk: *r.pick(&[1usize << 16, 1 << 16, 4096, 1000, 61]), stall_at: r.below(total + 1), stall_ms, fault, opt: Default::default(), ws };
            spice(r, &mut sc);
            push(&mut v, sc);
        }
        if thorough {
            // 32 MiB frames through default buffers (the stall point is past the kernel's ~4 MB of slack)
            let huge = 32usize << 20;
            let ws = vec![Wr { kind: kinds_for(ep, r), size: 5000, qlen: 0, ..Default::default() }, Wr { kind: if ep >= 3 { 'r' } else { kinds_for(ep, r) }, size: huge, qlen: 0, ..Default::default() }, Wr { kind: kinds_for(ep, r), size: 70000, qlen: 0, ..Default::default() }];
            push(&mut v, Script { idx: String::new(), ep, buf: 0, rt: 2, chunk: 65536, stall_at: 1 << 20, stall_ms: 400, fault: fault_for(ep, r), opt: Default::default(), ws: ws.clone() });
            push(&mut v, Script { idx: String::new(), ep, buf: 0, rt: 2, chunk: 65536, stall_at: 9 << 20, stall_ms: 200, fault: Fault::None, opt: Default::default(), ws });
        }
    }
    // tiny reads are only affordable on small streams
    for s in v.iter_mut() {
        let total: usize = s.ws.iter().map(|w| w.size + w.qlen).sum();
        if s.chunk < 4096 && total > (1 << 20) {
            s.chunk = 4096;
        }
        if s.chunk < 500 && total > 200000 {
            s.chunk = 997;
        }
    }
    v
}

/// Public entry points of the anchored files that can put bytes on a connection and are DRIVEN by this family.
const DRIVEN: &[&str] = &[
    // the three clients
    "connect", "connect_with_limits", "set_write_timeout", "limits", "call_json", "call_json_with_timeout", "call_typed_json", "call_typed_json_with_timeout",
    "call_typed_beve", "call_typed_beve_with_timeout", "call_typed_slice", "call_typed_slice_with_timeout", "call_typed_slice_aligned",
    "call_typed_slice_aligned_with_timeout", "call_message", "call_message_with_timeout", "call_with_formats", "call_with_formats_and_timeout",
    "registry_read", "registry_read_with_timeout", "registry_write_json", "registry_call_json", "notify_json", "notify_typed_json", "notify_typed_beve",
    "notify_with_formats", "batch_json", "batch_json_with_timeout", "forward_message", "forward_message_with_timeout",
    // servers
    "new", "read_timeout", "write_timeout", "tcp_nodelay", "serve", "with_erased_handler", "with_json_blocking", "with_outbound_capacity", "with_limits",
    "with_offreader_limit", "with_peer_registry", "on_peer_connect", "serve_listener_with_shutdown", "serve_listener_with_graceful_drain", "into_shared",
    "accept", "accept_with_limits", "accept_with_handshake", "accept_with_handshake_and_limits", "serve_connection", "serve_connection_with_handshake",
    "serve_connection_with_cancel", "serve_connection_with_cancel_and_handshake", "proxy_connection_with_limits", "derive_accept_key", "cancel",
];
/// … and those that are not, with the reason.
const NOT_DRIVEN: &[(&str, &str)] = &[
    ("registry_read_typed", "registry_read + decode of the response"), ("registry_read_typed_with_timeout", "registry_read_with_timeout + decode"),
    ("subscribe_notifies", "receive side"), ("unsubscribe_notifies", "receive side"),
    ("listen", "binds a listener, writes nothing"), ("stop", "flag read between requests; nothing is written"),
    ("serve_with_shutdown", "binds by address, then serve_listener_with_shutdown"), ("serve_listener", "serve_listener_with_shutdown with a pending future"),
    ("serve_with_graceful_drain", "binds by address, then serve_listener_with_graceful_drain"), ("proxy_connection", "proxy_connection_with_limits with the default limits"),
    ("adopt_upgraded", "wraps an already upgraded stream (no bytes); the connection is then served by serve_connection*"),
    ("adopt_upgraded_partially_read", "as adopt_upgraded"), ("is_websocket_upgrade", "peeks at the request head"), ("on_peer_connect_with_handshake", "hook registration, same call site as on_peer_connect"),
    ("on_peer_disconnect", "hook runs after the connection ended"), ("on_error", "hook; nothing it does reaches the wire"),
    ("is_cancelled", "observer"), ("cancelled", "observer"), ("error_code", "accessor"), ("path", "accessor"), ("query", "accessor"), ("header", "accessor"), ("headers", "accessor"),
    ("from_http_request", "constructor of HandshakeContext"),
    // src/server.rs: router construction and dispatch helpers (C03/C07), no connection I/O
    ("run", "middleware chain (C07)"), ("ctx", "accessor"), ("peer", "accessor"), ("json", "response constructor"), ("beve", "response constructor"), ("utf8", "response constructor"),
    ("raw_binary", "response constructor"), ("poisoned", "error constructor"), ("other", "error constructor"), ("register_middleware", "router (C07)"), ("with", "router (C07)"),
    ("with_json", "router: same JsonHandler as with_json_blocking"), ("with_middleware", "router (C07)"), ("with_typed", "router (C03)"), ("with_typed_slice", "router (C08)"),
    ("with_typed_slice_ref", "router (C08)"), ("with_json_ctx", "router (C03)"), ("with_typed_ctx", "router (C03)"), ("with_json_ctx_blocking", "router (C16)"),
    ("with_typed_blocking", "router (C16)"), ("with_typed_ctx_blocking", "router (C16)"), ("with_handler", "router (C03)"), ("with_struct_shared", "router (C07)"),
    ("register_struct_shared", "router (C07)"), ("with_struct", "router (C07)"), ("register_struct", "router (C07)"), ("with_registry", "router (C14)"),
    ("register_registry", "router (C14)"), ("get", "router lookup (C07)"),
];

/// `pub fn` / `pub async fn` names of the anchored files of the tree under test that this family neither drives nor
/// lists as deliberately not driven: a new twin shows up here (stats.json `not_driven`, stderr) instead of silently.
fn entry_point_audit(out: &mut Out) {
    let repo = std::env::var("VERIF_REPO").unwrap_or_else(|_| "/repo".into());
    let mut missing = Vec::new();
    let mut seen = 0u64;
    for file in ["client.rs", "async_client.rs", "websocket_client.rs", "server.rs", "async_server.rs", "websocket_server.rs"] {
        let text = std::fs::read_to_string(std::path::Path::new(&repo).join("src").join(file)).unwrap_or_default();
        let text = text.split("#[cfg(test)]").next().unwrap_or("").to_string();
        for line in text.lines() {
            let t = line.trim_start();
            for pre in ["pub async fn ", "pub fn "] {
                if let Some(rest) = t.strip_prefix(pre) {
                    let name: String = rest.chars().take_while(|c| c.is_alphanumeric() || *c == '_').collect();
                    seen += 1;
                    if !DRIVEN.contains(&name.as_str()) && !NOT_DRIVEN.iter().any(|(n, _)| *n == name) {
                        let item = format!("{}::{}", file, name);
                        if !missing.contains(&item) {
                            missing.push(item);
                        }
                    }
                }
            }
        }
    }
    out.add("entry-points.seen", seen);
    out.add("entry-points.not-driven-unknown", missing.len() as u64);
    if !missing.is_empty() {
        eprintln!("[torn] public entry points this family neither drives nor knows: {:?}", missing);
    }
    out.extra.insert("not_driven".into(), serde_json::json!(missing));
    out.extra.insert("not_driven_because".into(), serde_json::json!(NOT_DRIVEN.iter().map(|(n, w)| format!("{}: {}", n, w)).collect::<Vec<_>>()));
}

/// Scripts whose stall is longer than any plausible internal timer; they run concurrently, on their own threads.
fn long_stall_scripts(r: &mut Rng, thorough: bool) -> Vec<Script> {
    let w0 = |kind: char, size: usize| Wr { kind, size, ..Default::default() };
    let mut v = Vec::new();
    let stalls: Vec<u64> = if thorough { vec![300, 600, 1100, 2500, 5500, 11000] } else { vec![*r.pick(&[300u64, 600]), 1100] };
    for ep in 0..7usize {
        for (j, st) in stalls.iter().enumerate() {
            let (a, b) = if ep <= 2 { ('n', 'c') } else { ('r', 'r') };
            let mut ws = vec![w0(a, 3000), w0(b, 200000 + 1000 * j), w0(a, 9000), w0(b, 100), w0(a, 70000)];
            let fault = match ep {
                // a timeout that fires early in the stall, or one that fires only just before it ends (the connection
                // is then old: more than 0.2 … 10.9 s)
                0 | 3 | 4 => if j % 2 == 0 { Fault::WTimeout(100) } else { Fault::WTimeout(st.saturating_sub(100).max(50)) },
                1 | 2 => Fault::Cancel(-1),
                5 => if j % 2 == 0 { Fault::Drain(50) } else { Fault::None },
                _ => Fault::None,
            };
            if ep <= 2 {
                ws.push(w0('t', 300));
                ws.push(w0('J', 9000));
            }
            let mut opt = std::collections::BTreeMap::new();
            if ep == 3 || ep == 4 {
                opt.insert("rq".to_string(), 2);
                if j % 2 == 1 {
                    opt.insert("rto".to_string(), *st + 2000);
                }
            }
            v.push(Script { idx: format!("L{}", v.len()), ep, buf: 4096, rt: 2, chunk: 65536, stall_at: 5000, stall_ms: *st, fault, opt, ws });
        }
    }
    v
}

fn watchdogs(out: &Out) -> u64 {
    out.counters.iter().filter(|(k, _)| k.starts_with("note.") && k.contains("watchdog")).map(|(_, v)| *v).sum()
}

fn main() {
    let args = Args::parse();
    quiet_panics();
    let mut out = Out::new(&args.out);
    let mut rng = Rng::new(args.seed);
    out.rule = "scripts = endpoint x buffers x writers (kind,size,query length) x stall point/duration x fault (write timeout | cancel in-progress calls | graceful-drain deadline | none); sizes biased to 0,1,47/48, 8 KiB BufWriter edge (8143-8145 = 8192-48-1.., 8192/8193), 64 KiB, 128 KiB tungstenite buffer edge, 1 MiB(+1), multi-MiB; query lengths 0 (short path) .. 1 MiB (6 MiB thorough); after the fault the clients' next frames go through every emission entry point in turn (notify_*/call_*/batch_json/call_message/forward_message); 10 fixed shapes + random ones per endpoint. Distinct by script line; non-trivial = the captured stream holds at least two whole frames or a torn tail".into();
    out.flush_each = true;
    entry_point_audit(&mut out);
    let replay = args.replay_ops();
    let is_replay = replay.is_some();
    let mut lines: Vec<String> = match replay {
        Some(ops) => ops.into_iter().filter(|l| l.starts_with("torn ")).collect(),
        None => gen_scripts(&mut rng, args.thorough()).iter().map(|s| s.line()).collect(),
    };
    // the shapes with a fault first: a broken tree then reaches its 12 failures sooner
    lines.sort_by_key(|l| l.contains(" fault none "));
    // long stalls run concurrently with everything else
    let bg: Vec<std::thread::JoinHandle<(String, String, bool, Vec<serde_json::Value>, std::collections::BTreeMap<String, u64>)>> = if is_replay {
        Vec::new()
    } else {
        long_stall_scripts(&mut rng, args.thorough())
            .into_iter()
            .enumerate()
            .map(|(i, sc)| {
                let dir = args.out.join(format!("bg{}", i));
                std::thread::spawn(move || {
                    let _ = std::fs::create_dir_all(&dir);
                    let mut o = Out::new(&dir);
                    let (op, obs, nt) = exec(&mut o, &sc.line());
                    let counters = o.counters.clone();
                    o.finish();
                    let fails = std::fs::read_to_string(dir.join("oracle.txt")).unwrap_or_default().lines().filter_map(|l| serde_json::from_str(l).ok()).collect();
                    let _ = std::fs::remove_dir_all(&dir);
                    (op, obs, nt, fails, counters)
                })
            })
            .collect()
    };
    let mut stopped = false;
    for line in lines {
        out.begin(&line);
        let t0 = Instant::now();
        let (op, obs, nt) = exec(&mut out, &line);
        if t0.elapsed() > Duration::from_secs(3) {
            eprintln!("[torn] slow case ({:?}): {}", t0.elapsed(), &line[..line.len().min(300)]);
        }
        out.case(&op, &obs, nt);
        if out.oracle_failures >= 12 {
            // a broken tree: the failing inputs are on record, no need to run the rest
            out.count("stopped-after-12-oracle-failures");
            break;
        }
        if watchdogs(&out) >= 3 {
            // calls into the code under test keep running into the 15 s watchdog: this tree hangs; C05 promises no
            // result, so this is not an oracle failure, but the run cannot go on like this
            out.count("stopped-after-3-watchdogs");
            stopped = true;
            break;
        }
    }
    for h in bg {
        if let Ok((op, obs, nt, fails, counters)) = h.join() {
            out.case(&op, &obs, nt);
            for (k, v) in counters {
                out.add(&k, v);
            }
            for f in fails {
                let ops: Vec<String> = f["ops"].as_array().map(|a| a.iter().filter_map(|x| x.as_str().map(String::from)).collect()).unwrap_or_default();
                out.oracle_fail(f["sig"].as_str().unwrap_or("?"), f["detail"].as_str().unwrap_or(""), &ops);
            }
        }
    }
    out.finish();
    if stopped {
        eprintln!("[torn] stopped: three scripts ran into the watchdog");
        std::process::exit(3);
    }
}
